package main

// Go port of the Lean model (lean/DepsDev/Model/Resolve/Pypi.lean), used ONLY to
// evaluate the hypotheses of the partial theorems (the classifiers of the known
// findings) and for run statistics. It is kept equal to the Lean model by the
// `classify` op (the driver prints the same flags; the runner diffs them) and,
// indirectly, by `resolve` (simResult must equal the real code's result; checked in
// run()). It works on the same data the model gets: the universe plus the derived
// marker and match tables.

import (
	"fmt"
	"sort"
	"strings"
)

type sver struct {
	pkg int
	id  int
}

type sreq struct {
	pkg      int
	row      int
	ty       string
	nonEmpty bool
	hasEqEq  bool
	extras   []string
	truth    string
	src      req
}

type srow struct {
	hasPre     bool
	n, p       []int
	nErr, pErr bool
}

type spkg struct {
	name  string
	delay bool
	exts  []string
	vers  [][]sreq
	names []string
}

type suni struct {
	pkgs []spkg
	rows []srow
}

type sinfo struct {
	r      sreq
	parent sver
}

type scrit struct {
	info     []sinfo
	extras   []string
	incompat []int
	cands    []int
}

type spin struct {
	pkg, id int
	ex      []string
}

type sstate struct {
	mapping  []spin
	criteria map[int]scrit // iteration always by sorted key
}

const (
	rOK = iota
	rConflict
	rErr
	rPanic
)

func buildSim(u *uni) *suni {
	s := &suni{}
	idx := map[string]int{}
	for i, p := range u.Pkgs {
		idx[p.Name] = i
	}
	rowIdx := map[[2]string]int{}
	for i, m := range u.matchTable(u.client()) {
		rowIdx[[2]string{m.Pkg, m.Spec}] = i
		p := u.find(m.Pkg)
		toIDs := func(vs []string) []int {
			var out []int
			for _, v := range vs {
				for k, w := range p.Vers {
					if w.V == v {
						out = append(out, k)
					}
				}
			}
			return out
		}
		s.rows = append(s.rows, srow{hasPre: m.HasPre, n: toIDs(m.N), p: toIDs(m.P), nErr: m.NErr, pErr: m.PErr})
	}
	for _, p := range u.Pkgs {
		sp := spkg{name: p.Name, delay: strings.ToLower(p.Name) == "setuptools", exts: u.extrasOf(p.Name)}
		for _, v := range p.Vers {
			var rs []sreq
			for _, d := range v.Reqs {
				r := sreq{pkg: idx[d.Pkg], row: rowIdx[[2]string{d.Pkg, d.Spec}], ty: optHx(d.HasEnv, d.Env) + ":" + optHx(d.HasEx, d.Ex),
					nonEmpty: d.Spec != "", hasEqEq: strings.Contains(d.Spec, "=="), truth: truth(d, sp.exts), src: d}
				if d.HasEx {
					r.extras = strings.Split(d.Ex, ",")
				}
				rs = append(rs, r)
			}
			sp.vers = append(sp.vers, rs)
			sp.names = append(sp.names, v.V)
		}
		s.pkgs = append(s.pkgs, sp)
	}
	return s
}

func containsStr(xs []string, x string) bool {
	for _, y := range xs {
		if x == y {
			return true
		}
	}
	return false
}

func containsInt(xs []int, x int) bool {
	for _, y := range xs {
		if x == y {
			return true
		}
	}
	return false
}

type sim struct {
	u          *suni
	root       sver
	direct     []sreq
	backtracks int
	rounds     int
}

func (s *sim) reqsOf(v sver) ([]sreq, bool) {
	if v.pkg < 0 || v.pkg >= len(s.u.pkgs) || v.id < 0 || v.id >= len(s.u.pkgs[v.pkg].vers) {
		return nil, false
	}
	return s.u.pkgs[v.pkg].vers[v.id], true
}

func (s *sim) evalMarker(v sver, extras []string, r sreq) (bool, int) {
	switch r.truth {
	case "-":
		return true, rOK
	case "E":
		return false, rErr
	}
	mask := 0
	for k, e := range s.u.pkgs[v.pkg].exts {
		if containsStr(extras, e) {
			mask |= 1 << k
		}
	}
	if mask >= len(r.truth) {
		return false, rErr
	}
	switch r.truth[mask] {
	case '1':
		return true, rOK
	case '0':
		return false, rOK
	}
	return false, rPanic
}

func (s *sim) getDependencies(v sver, extras []string) ([]sreq, int) {
	deps, ok := s.reqsOf(v)
	if !ok {
		return nil, rErr
	}
	ts := append([]sreq(nil), deps...)
	end := len(ts)
	for i := 0; i < end; {
		ok, st := s.evalMarker(v, extras, ts[i])
		if st != rOK {
			return nil, st
		}
		if ok {
			i++
			continue
		}
		end--
		ts[i], ts[end] = ts[end], ts[i]
	}
	return ts[:end], rOK
}

func (s *sim) matchingVersions(r sreq) ([]int, int) {
	row := s.u.rows[r.row]
	if row.nErr {
		return nil, rErr
	}
	if r.pkg != s.root.pkg {
		return row.n, rOK
	}
	if containsInt(row.n, s.root.id) {
		return []int{s.root.id}, rOK
	}
	return nil, rOK
}

func (s *sim) matchingVersionsPre(r sreq) ([]int, int) {
	row := s.u.rows[r.row]
	if row.hasPre {
		return s.matchingVersions(r)
	}
	if row.pErr {
		return nil, rErr
	}
	return row.p, rOK
}

func sIntersect(a, b []int) []int {
	var out []int
	for _, av := range a {
		for i, bv := range b {
			if av == bv {
				b = b[i+1:]
				out = append(out, av)
				break
			}
		}
	}
	return out
}

func (s *sim) findMatches(reqs []sreq, incompat []int) ([]int, int) {
	if len(reqs) == 0 {
		return nil, rOK
	}
	anyPre := false
	if len(reqs) > 1 {
		for _, r := range reqs {
			anyPre = anyPre || s.u.rows[r.row].hasPre
		}
	}
	get := s.matchingVersions
	if anyPre {
		get = s.matchingVersionsPre
	}
	mvs, st := get(reqs[0])
	if st != rOK {
		return nil, st
	}
	var m []int
	for _, v := range mvs {
		if !containsInt(incompat, v) {
			m = append(m, v)
		}
	}
	if len(m) == 0 {
		return nil, rConflict
	}
	for _, r := range reqs[1:] {
		mvs, st := get(r)
		if st != rOK {
			return nil, st
		}
		m = sIntersect(m, mvs)
	}
	return m, rOK
}

func unionStr(a, b []string) []string {
	out := append([]string(nil), a...)
	for _, e := range b {
		if !containsStr(out, e) {
			out = append(out, e)
		}
	}
	return out
}

func (s *sim) merge(st *sstate, r sreq, parent sver) (scrit, int) {
	crit := st.criteria[r.pkg]
	for _, in := range crit.info {
		if in.r.row == r.row && in.r.ty == r.ty && in.parent == parent {
			return crit, rOK
		}
	}
	var reqs []sreq
	for _, in := range crit.info {
		reqs = append(reqs, in.r)
	}
	reqs = append(reqs, r)
	m, code := s.findMatches(reqs, crit.incompat)
	if code != rOK {
		return scrit{}, code
	}
	if len(m) == 0 {
		return scrit{}, rConflict
	}
	return scrit{info: append(append([]sinfo(nil), crit.info...), sinfo{r, parent}), extras: unionStr(crit.extras, r.extras),
		incompat: crit.incompat, cands: m}, rOK
}

func (st *sstate) clone() *sstate {
	c := &sstate{mapping: append([]spin(nil), st.mapping...), criteria: map[int]scrit{}}
	for k, v := range st.criteria {
		c.criteria[k] = v
	}
	return c
}

func (st *sstate) names() []int {
	var ks []int
	for k := range st.criteria {
		ks = append(ks, k)
	}
	sort.Ints(ks)
	return ks
}

func (st *sstate) pin(p int) (int, bool) {
	for _, m := range st.mapping {
		if m.pkg == p {
			return m.id, true
		}
	}
	return 0, false
}

type prefKey struct {
	delay               bool
	rating, order, name int
}

func (a prefKey) less(b prefKey) bool {
	if a.delay != b.delay {
		return !a.delay
	}
	if a.rating != b.rating {
		return a.rating < b.rating
	}
	if a.order != b.order {
		return a.order < b.order
	}
	return a.name < b.name
}

func (s *sim) pref(st *sstate, name int) prefKey {
	k := prefKey{delay: s.u.pkgs[name].delay, rating: 3, order: 2147483647, name: name}
	for _, in := range st.criteria[name].info {
		if in.r.hasEqEq {
			k.rating = 1
			break
		}
		if in.r.nonEmpty {
			k.rating = 2
			break
		}
	}
	for i, d := range s.direct {
		if d.pkg == name {
			k.order = i
		}
	}
	return k
}

// attempt returns the new state, the number of causes, and a status.
func (s *sim) attempt(st *sstate, name int) (*sstate, int, int) {
	crit := st.criteria[name]
	causes := 0
	for i := len(crit.cands) - 1; i >= 0; i-- {
		cand := sver{name, crit.cands[i]}
		deps, code := s.getDependencies(cand, crit.extras)
		upd := map[int]scrit{}
		if code == rOK {
			for _, d := range deps {
				c, cc := s.merge(st, d, cand)
				if cc != rOK {
					code = cc
					break
				}
				upd[d.pkg] = c
			}
		}
		if code == rConflict {
			causes++
			continue
		}
		if code != rOK {
			return nil, 0, code
		}
		ns := st.clone()
		var m []spin
		for _, p := range ns.mapping {
			if p.pkg != name {
				m = append(m, p)
			}
		}
		ns.mapping = append(m, spin{name, cand.id, append([]string(nil), crit.extras...)})
		for k, c := range upd {
			ns.criteria[k] = c
		}
		return ns, 0, rOK
	}
	return nil, causes, rOK
}

// backtrack works on a stack with the top at the END (as Go's).
func (s *sim) backtrack(states []*sstate) ([]*sstate, bool) {
	for len(states) >= 3 {
		states = states[:len(states)-1]
		broken := states[len(states)-1]
		states = states[:len(states)-1]
		type inc struct {
			name int
			vs   []int
		}
		var incs []inc
		for _, n := range broken.names() {
			incs = append(incs, inc{n, broken.criteria[n].incompat})
		}
		if len(broken.mapping) > 0 {
			last := broken.mapping[len(broken.mapping)-1]
			incs = append(incs, inc{last.pkg, []int{last.id}})
		}
		ns := states[len(states)-1].clone()
		ok := true
		for _, in := range incs {
			if len(in.vs) == 0 {
				continue
			}
			crit, has := ns.criteria[in.name]
			if !has {
				continue
			}
			all := append([]int(nil), crit.incompat...)
			for _, v := range in.vs {
				if !containsInt(all, v) {
					all = append(all, v)
				}
			}
			var m []int
			for _, c := range crit.cands {
				if !containsInt(all, c) {
					m = append(m, c)
				}
			}
			if len(m) == 0 {
				ok = false
				break
			}
			crit.incompat, crit.cands = all, m
			ns.criteria[in.name] = crit
		}
		states = append(states, ns)
		if ok {
			return states, true
		}
	}
	return states, false
}

// outcome: "graph", "gerr", "err", "panic"
func (s *sim) resolve(maxRounds int) (*sstate, string) {
	direct, code := s.getDependencies(s.root, nil)
	switch code {
	case rPanic:
		return nil, "panic"
	case rOK:
	default:
		return nil, "err"
	}
	s.direct = direct
	st := &sstate{criteria: map[int]scrit{}}
	for _, r := range direct {
		c, code := s.merge(st, r, s.root)
		switch code {
		case rOK:
			st.criteria[r.pkg] = c
		case rConflict:
			return nil, "gerr"
		case rErr:
			return nil, "err"
		default:
			return nil, "panic"
		}
	}
	states := []*sstate{st, st.clone()}
	for i := 0; i < maxRounds; i++ {
		s.rounds++
		cur := states[len(states)-1]
		var unsat []int
		for _, n := range cur.names() {
			if v, ok := cur.pin(n); ok && containsInt(cur.criteria[n].cands, v) {
				continue
			}
			unsat = append(unsat, n)
		}
		if len(unsat) == 0 {
			return cur, "graph"
		}
		minName, min := unsat[0], s.pref(cur, unsat[0])
		for _, n := range unsat[1:] {
			if sc := s.pref(cur, n); sc.less(min) {
				minName, min = n, sc
			}
		}
		ns, causes, code := s.attempt(cur, minName)
		if code == rErr {
			return nil, "err"
		}
		if code == rPanic {
			return nil, "panic"
		}
		if ns != nil {
			states[len(states)-1] = ns
			states = append(states, ns.clone())
			continue
		}
		if causes != 0 {
			s.backtracks++
			var ok bool
			states, ok = s.backtrack(states)
			if !ok {
				return nil, "gerr"
			}
		} else {
			states = append(states, cur.clone())
		}
	}
	return nil, "gerr"
}

type sgraph struct {
	ids   []sver // node list; ids by package
	edges []string
	byPkg map[int]sver
}

func (s *sim) hasRoute(st *sstate, v sver, conn map[sver]bool) bool {
	if c, ok := conn[v]; c {
		return true
	} else if ok {
		return false
	}
	conn[v] = false
	crit, ok := st.criteria[v.pkg]
	if !ok {
		return false
	}
	for _, in := range crit.info {
		if conn[in.parent] {
			conn[v] = true
			return true
		}
		if pv, ok := st.pin(in.parent.pkg); !ok || pv != in.parent.id {
			continue
		}
		if s.hasRoute(st, in.parent, conn) {
			conn[v] = true
			return true
		}
	}
	return false
}

func (s *sim) tok(v sver) string {
	return hx(s.u.pkgs[v.pkg].name) + "@" + hx(s.u.pkgs[v.pkg].names[v.id])
}

func (s *sim) build(st *sstate) (*sgraph, bool) {
	conn := map[sver]bool{s.root: true}
	g := &sgraph{byPkg: map[int]sver{s.root.pkg: s.root}, ids: []sver{s.root}}
	for _, p := range st.mapping {
		v := sver{p.pkg, p.id}
		if !s.hasRoute(st, v, conn) {
			continue
		}
		if _, ok := g.byPkg[p.pkg]; !ok {
			g.byPkg[p.pkg] = v
			g.ids = append(g.ids, v)
		}
	}
	for _, to := range g.ids {
		crit, ok := st.criteria[to.pkg]
		if !ok {
			if to.pkg == s.root.pkg {
				continue
			}
			return nil, false
		}
		for _, in := range crit.info {
			f, ok := g.byPkg[in.parent.pkg]
			if !ok {
				continue
			}
			g.edges = append(g.edges, s.tok(f)+">"+s.tok(to)+":"+hx(in.r.src.Spec)+":"+in.r.ty)
		}
	}
	return g, true
}

type simOut struct {
	result     string
	late       bool
	route      bool
	stale      bool
	backtracks int
	rounds     int
}

func subsetReqs(now, then []sreq) bool {
	for _, d := range now {
		found := false
		for _, e := range then {
			if d.pkg == e.pkg && d.row == e.row && d.ty == e.ty {
				found = true
			}
		}
		if !found {
			return false
		}
	}
	return true
}

func runSim(u *uni, rn, rv string) simOut { return runSimCapped(u, rn, rv, 200000) }

// runSimCapped runs the port with a round bound; with a bound below the code's
// maxRounds a "gerr" outcome may just mean "bound reached" (see simOut.rounds).
func runSimCapped(u *uni, rn, rv string, maxRounds int) simOut {
	su := buildSim(u)
	root := sver{len(su.pkgs), 0}
	for i, p := range su.pkgs {
		if p.name == rn {
			root = sver{i, len(p.names)}
			for k, v := range p.names {
				if v == rv {
					root.id = k
				}
			}
		}
	}
	s := &sim{u: su, root: root}
	st, kind := s.resolve(maxRounds)
	out := simOut{backtracks: s.backtracks, rounds: s.rounds}
	switch kind {
	case "err", "panic":
		out.result = kind
		return out
	case "gerr":
		out.result = "ok gerr=1"
		return out
	}
	g, ok := s.build(st)
	if !ok {
		out.result = "err"
		return out
	}
	var nodes []string
	for _, v := range g.ids {
		nodes = append(nodes, s.tok(v))
	}
	rootTok := nodes[0]
	sort.Strings(nodes)
	sort.Strings(g.edges)
	out.result = "ok gerr=0 root=" + rootTok + " N=" + strings.Join(nodes, ",") + " E=" + strings.Join(g.edges, ",")
	// hypothesis noLateExtras
	for _, p := range st.mapping {
		v := sver{p.pkg, p.id}
		now, c1 := s.getDependencies(v, st.criteria[p.pkg].extras)
		then, c2 := s.getDependencies(v, p.ex)
		if c1 != rOK || c2 != rOK || !subsetReqs(now, then) {
			out.late = true
		}
	}
	// hypothesis routeClosed
	for _, p := range st.mapping {
		crit, ok := st.criteria[p.pkg]
		if !ok {
			continue
		}
		hasNodeParent := false
		for _, in := range crit.info {
			if f, ok := g.byPkg[in.parent.pkg]; ok && f == in.parent {
				hasNodeParent = true
			}
		}
		if _, isNode := g.byPkg[p.pkg]; hasNodeParent && !isNode {
			out.route = true
		}
	}
	// hypothesis noStale
	for _, to := range g.ids {
		for _, in := range st.criteria[to.pkg].info {
			if f, ok := g.byPkg[in.parent.pkg]; !ok || f != in.parent {
				out.stale = true
			}
		}
	}
	return out
}

func b01(b bool) string {
	if b {
		return "1"
	}
	return "0"
}

func classifyLine(u *uni, rn, rv string) string {
	o := runSim(u, rn, rv)
	return fmt.Sprintf("ok late=%s route=%s stale=%s", b01(o.late), b01(o.route), b01(o.stale))
}
