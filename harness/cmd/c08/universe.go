package main

// Universe codec for property C08 (PyPI resolver).
//
// Op line (ASCII, space separated tokens, every byte string hex encoded by fw.Hx):
//
//	C08 <op> root=<name>@<version> {P <name> X=<e1,e2,…> {V <version> {R <pkg> <spec> <env> <extras> <truth>}}} {M <pkg> <spec> <haspre> n=<v,…|err> p=<v,…|err>}
//
// op is "resolve" or "classify". Packages (P) are listed in ascending name order, the
// versions (V) of a package in the order the client's Versions call returns them, the
// requirements (R) of a version in the order the client's Requirements call returns
// them. In an R token <env> / <extras> are "~" when the dependency type has no
// Environment / EnabledDependencies attribute, otherwise the hex of the attribute value.
//
// Everything else is DERIVED data, i.e. the answers of the client/provider layer that
// the Lean model takes as given (props/C08.json states this boundary):
//
//	X=      the sorted distinct extras requested of the package by any requirement
//	truth   "-" without marker, "E" when the marker does not parse, otherwise one cell
//	        per subset of the DEPENDENT package's X list (cell i = subset with bit k set
//	        iff X[k] is requested): 1/0 = pypi.VerifEvalMarker, P = it panicked
//	M       for every (package, specifier) that occurs: whether the specifier has a
//	        prerelease bound (provider.matchesPrerelease), n= what Client.MatchingVersions
//	        returns (normal mode), p= what provider.matchingVersionsWithPrereleases
//	        computes for a specifier without prerelease bound (filter of Versions by
//	        MatchVersionPrerelease, then sort), both before the root-package rule.
//
// Exec rebuilds the client from the P/V/R tokens alone, recomputes the derived data with
// the real code and answers "bad-op" when the line's derived data differ, so a replayed
// line is always self-consistent.

import (
	"context"
	"fmt"
	"slices"
	"sort"
	"strings"

	"deps.dev/util/resolve"
	"deps.dev/util/resolve/dep"
	"deps.dev/util/resolve/pypi"
	"deps.dev/util/semver"
	"verifharness/fw"
)

type req struct {
	Pkg, Spec string
	HasEnv    bool
	Env       string
	HasEx     bool
	Ex        string
}

type ver struct {
	V    string
	Reqs []req
}

type pkg struct {
	Name string
	Vers []ver
}

// uni is a universe: packages sorted by name; versions in client order once
// normalised (see normalise).
type uni struct {
	Pkgs []pkg
}

const maxExtrasPerPkg = 6

func (u *uni) clone() *uni {
	c := &uni{}
	for _, p := range u.Pkgs {
		q := pkg{Name: p.Name}
		for _, v := range p.Vers {
			q.Vers = append(q.Vers, ver{V: v.V, Reqs: append([]req(nil), v.Reqs...)})
		}
		c.Pkgs = append(c.Pkgs, q)
	}
	return c
}

func (u *uni) find(name string) *pkg {
	for i := range u.Pkgs {
		if u.Pkgs[i].Name == name {
			return &u.Pkgs[i]
		}
	}
	return nil
}

func (p *pkg) find(v string) *ver {
	for i := range p.Vers {
		if p.Vers[i].V == v {
			return &p.Vers[i]
		}
	}
	return nil
}

func pk(name string) resolve.PackageKey {
	return resolve.PackageKey{System: resolve.PyPI, Name: name}
}

func vk(name, v string) resolve.VersionKey {
	return resolve.VersionKey{PackageKey: pk(name), VersionType: resolve.Concrete, Version: v}
}

func (r req) typ() dep.Type {
	var t dep.Type
	if r.HasEnv {
		t.AddAttr(dep.Environment, r.Env)
	}
	if r.HasEx {
		t.AddAttr(dep.EnabledDependencies, r.Ex)
	}
	return t
}

func (r req) rv() resolve.RequirementVersion {
	return resolve.RequirementVersion{
		VersionKey: resolve.VersionKey{PackageKey: pk(r.Pkg), VersionType: resolve.Requirement, Version: r.Spec},
		Type:       r.typ(),
	}
}

// client builds a LocalClient holding exactly the universe.
func (u *uni) client() *resolve.LocalClient {
	lc := resolve.NewLocalClient()
	for _, p := range u.Pkgs {
		if _, ok := lc.PackageVersions[pk(p.Name)]; !ok {
			lc.PackageVersions[pk(p.Name)] = []resolve.Version{}
		}
		for _, v := range p.Vers {
			var reqs []resolve.RequirementVersion
			for _, r := range v.Reqs {
				reqs = append(reqs, r.rv())
			}
			lc.AddVersion(resolve.Version{VersionKey: vk(p.Name, v.V)}, reqs)
		}
	}
	return lc
}

// normalise sorts packages by name, adds (empty) packages for required names that
// are missing, drops duplicate version strings, and orders every package's versions
// as the client returns them.
func (u *uni) normalise() {
	seen := map[string]bool{}
	for _, p := range u.Pkgs {
		seen[p.Name] = true
	}
	for _, p := range u.Pkgs {
		for _, v := range p.Vers {
			for _, r := range v.Reqs {
				if !seen[r.Pkg] {
					seen[r.Pkg] = true
					u.Pkgs = append(u.Pkgs, pkg{Name: r.Pkg})
				}
			}
		}
	}
	sort.Slice(u.Pkgs, func(i, j int) bool { return u.Pkgs[i].Name < u.Pkgs[j].Name })
	for i := range u.Pkgs {
		p := &u.Pkgs[i]
		var vs []ver
		for _, v := range p.Vers {
			dup := false
			for _, w := range vs {
				dup = dup || w.V == v.V
			}
			if !dup {
				vs = append(vs, v)
			}
		}
		p.Vers = vs
	}
	lc := u.client()
	for i := range u.Pkgs {
		p := &u.Pkgs[i]
		got, _ := lc.Versions(context.Background(), pk(p.Name))
		var vs []ver
		for _, g := range got {
			if v := p.find(g.Version); v != nil {
				vs = append(vs, *v)
			}
		}
		p.Vers = vs
	}
}

// extrasOf returns the sorted distinct extras requested of package name.
func (u *uni) extrasOf(name string) []string {
	set := map[string]bool{}
	for _, p := range u.Pkgs {
		for _, v := range p.Vers {
			for _, r := range v.Reqs {
				if r.Pkg == name && r.HasEx {
					for _, e := range strings.Split(r.Ex, ",") {
						set[e] = true
					}
				}
			}
		}
	}
	out := make([]string, 0, len(set))
	for e := range set {
		out = append(out, e)
	}
	sort.Strings(out)
	return out
}

func evalCell(raw string, extras map[string]bool) (cell byte, perr bool) {
	defer func() {
		if r := recover(); r != nil {
			cell, perr = 'P', false
		}
	}()
	ok, err := pypi.VerifEvalMarker(raw, extras)
	if err != nil {
		return 'E', true
	}
	if ok {
		return '1', false
	}
	return '0', false
}

// truth is the marker's value for every subset of xs (the dependent's extras).
func truth(r req, xs []string) string {
	if !r.HasEnv {
		return "-"
	}
	var b strings.Builder
	for mask := 0; mask < 1<<len(xs); mask++ {
		ex := map[string]bool{}
		for k, e := range xs {
			if mask&(1<<k) != 0 {
				ex[e] = true
			}
		}
		c, perr := evalCell(r.Env, ex)
		if perr {
			return "E"
		}
		b.WriteByte(c)
	}
	return b.String()
}

type mrow struct {
	Pkg, Spec string
	HasPre    bool
	N, P      []string
	NErr      bool
	PErr      bool
}

// filterSliceCopy and the sort below replicate, operation for operation, what
// provider.matchingVersionsWithPrereleases does to the client's Versions (resolve.go);
// the provider's method is unexported, the public semver API it calls is used here.
func filterSliceCopy[T any](ts []T, pred func(T) bool) []T {
	end := len(ts)
	for i := 0; i < end; {
		if pred(ts[i]) {
			i++
			continue
		}
		end--
		ts[i], ts[end] = ts[end], ts[i]
	}
	return ts[:end]
}

func matchRow(lc *resolve.LocalClient, name, spec string) mrow {
	ctx := context.Background()
	row := mrow{Pkg: name, Spec: spec}
	rvk := resolve.VersionKey{PackageKey: pk(name), VersionType: resolve.Requirement, Version: spec}
	cons, cerr := semver.PyPI.ParseConstraint(spec)
	row.HasPre = cerr == nil && cons.HasPrerelease()
	mvs, err := lc.MatchingVersions(ctx, rvk)
	if err != nil {
		row.NErr = true
	}
	for _, m := range mvs {
		row.N = append(row.N, m.Version)
	}
	vs, err := lc.Versions(ctx, pk(name))
	if err != nil {
		row.PErr = true
		return row
	}
	if cerr != nil {
		return row // the provider answers (nil, nil)
	}
	ms := filterSliceCopy(slices.Clone(vs), func(v resolve.Version) bool {
		if v.VersionType != resolve.Concrete {
			return false
		}
		pv, err := semver.PyPI.Parse(v.Version)
		if err != nil {
			return false
		}
		return cons.MatchVersionPrerelease(pv)
	})
	sort.Slice(ms, func(i, j int) bool {
		iv, _ := semver.PyPI.Parse(ms[i].Version)
		jv, _ := semver.PyPI.Parse(ms[j].Version)
		if iv == nil || jv == nil {
			return ms[i].Version < ms[j].Version
		}
		return iv.Compare(jv) < 0
	})
	for _, m := range ms {
		row.P = append(row.P, m.Version)
	}
	return row
}

func (u *uni) matchTable(lc *resolve.LocalClient) []mrow {
	type key struct{ p, s string }
	seen := map[key]bool{}
	var keys []key
	for _, p := range u.Pkgs {
		for _, v := range p.Vers {
			for _, r := range v.Reqs {
				k := key{r.Pkg, r.Spec}
				if !seen[k] {
					seen[k] = true
					keys = append(keys, k)
				}
			}
		}
	}
	sort.Slice(keys, func(i, j int) bool {
		if keys[i].p != keys[j].p {
			return keys[i].p < keys[j].p
		}
		return keys[i].s < keys[j].s
	})
	rows := make([]mrow, len(keys))
	for i, k := range keys {
		rows[i] = matchRow(lc, k.p, k.s)
	}
	return rows
}

func hxList(xs []string) string {
	hs := make([]string, len(xs))
	for i, x := range xs {
		hs[i] = fw.Hx(x)
	}
	return strings.Join(hs, ",")
}

func optHx(has bool, s string) string {
	if !has {
		return "~"
	}
	return fw.Hx(s)
}

// tooWide reports whether some package is requested with more distinct extras than
// the truth tables support.
func (u *uni) tooWide() bool {
	for _, p := range u.Pkgs {
		if len(u.extrasOf(p.Name)) > maxExtrasPerPkg {
			return true
		}
	}
	return false
}

// body encodes a normalised universe (everything after the root token).
func (u *uni) body() string {
	lc := u.client()
	var b strings.Builder
	for _, p := range u.Pkgs {
		xs := u.extrasOf(p.Name)
		fmt.Fprintf(&b, " P %s X=%s", fw.Hx(p.Name), hxList(xs))
		for _, v := range p.Vers {
			fmt.Fprintf(&b, " V %s", fw.Hx(v.V))
			for _, r := range v.Reqs {
				fmt.Fprintf(&b, " R %s %s %s %s %s", fw.Hx(r.Pkg), fw.Hx(r.Spec), optHx(r.HasEnv, r.Env), optHx(r.HasEx, r.Ex), truth(r, xs))
			}
		}
	}
	for _, m := range u.matchTable(lc) {
		n, p := hxList(m.N), hxList(m.P)
		if m.NErr {
			n = "err"
		}
		if m.PErr {
			p = "err"
		}
		hp := 0
		if m.HasPre {
			hp = 1
		}
		fmt.Fprintf(&b, " M %s %s %d n=%s p=%s", fw.Hx(m.Pkg), fw.Hx(m.Spec), hp, n, p)
	}
	return b.String()
}

func (u *uni) line(op, rootName, rootVer string) string {
	return fmt.Sprintf("C08 %s root=%s@%s%s", op, fw.Hx(rootName), fw.Hx(rootVer), u.body())
}

func unhx(s string) (string, bool) {
	if s == "-" {
		return "", true
	}
	if len(s)%2 != 0 || s == "" {
		return "", false
	}
	for i := 0; i < len(s); i++ {
		c := s[i]
		if !(c >= '0' && c <= '9' || c >= 'a' && c <= 'f') {
			return "", false
		}
	}
	return fw.Unhx(s), true
}

func unOpt(s string) (bool, string, bool) {
	if s == "~" {
		return false, "", true
	}
	v, ok := unhx(s)
	return true, v, ok
}

// decode parses the fields after the op name: root token, then the universe. It
// returns the universe built from the P/V/R tokens and the canonical re-encoding of
// the line's tail for the self-consistency check.
func decode(f []string) (u *uni, rootName, rootVer string, ok bool) {
	if len(f) < 1 || !strings.HasPrefix(f[0], "root=") {
		return nil, "", "", false
	}
	nv := strings.SplitN(strings.TrimPrefix(f[0], "root="), "@", 2)
	if len(nv) != 2 {
		return nil, "", "", false
	}
	var ok1, ok2 bool
	rootName, ok1 = unhx(nv[0])
	rootVer, ok2 = unhx(nv[1])
	if !ok1 || !ok2 {
		return nil, "", "", false
	}
	u = &uni{}
	i := 1
	for i < len(f) {
		switch f[i] {
		case "P":
			if i+2 >= len(f) || !strings.HasPrefix(f[i+2], "X=") {
				return nil, "", "", false
			}
			n, ok := unhx(f[i+1])
			if !ok {
				return nil, "", "", false
			}
			u.Pkgs = append(u.Pkgs, pkg{Name: n})
			i += 3
		case "V":
			if i+1 >= len(f) || len(u.Pkgs) == 0 {
				return nil, "", "", false
			}
			v, ok := unhx(f[i+1])
			if !ok {
				return nil, "", "", false
			}
			p := &u.Pkgs[len(u.Pkgs)-1]
			p.Vers = append(p.Vers, ver{V: v})
			i += 2
		case "R":
			if i+5 >= len(f) || len(u.Pkgs) == 0 || len(u.Pkgs[len(u.Pkgs)-1].Vers) == 0 {
				return nil, "", "", false
			}
			var r req
			var a, b, c, d bool
			r.Pkg, a = unhx(f[i+1])
			r.Spec, b = unhx(f[i+2])
			r.HasEnv, r.Env, c = unOpt(f[i+3])
			r.HasEx, r.Ex, d = unOpt(f[i+4])
			if !a || !b || !c || !d {
				return nil, "", "", false
			}
			p := &u.Pkgs[len(u.Pkgs)-1]
			v := &p.Vers[len(p.Vers)-1]
			v.Reqs = append(v.Reqs, r)
			i += 6
		case "M":
			if i+5 >= len(f) {
				return nil, "", "", false
			}
			i += 6
		default:
			return nil, "", "", false
		}
	}
	// self-consistency: the line must be exactly what the encoder produces for
	// the universe it describes (order, derived tables).
	for k := 1; k < len(u.Pkgs); k++ {
		if u.Pkgs[k-1].Name >= u.Pkgs[k].Name {
			return nil, "", "", false
		}
	}
	c := u.clone()
	c.normalise()
	if strings.Join(f[1:], " ") != strings.TrimPrefix(c.body(), " ") {
		return nil, "", "", false
	}
	return c, rootName, rootVer, true
}

// u4 reports whether every version has at most one requirement per package (the
// quantifier of the property).
func (u *uni) u4() bool {
	for _, p := range u.Pkgs {
		for _, v := range p.Vers {
			seen := map[string]bool{}
			for _, r := range v.Reqs {
				if seen[r.Pkg] {
					return false
				}
				seen[r.Pkg] = true
			}
		}
	}
	return true
}
