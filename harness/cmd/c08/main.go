// c08 is the correspondence/oracle harness for property C08 (a PyPI resolution
// graph is a consistent pip solution). See universe.go for the wire format.
package main

import (
	"context"
	"errors"
	"os"
	"sort"
	"strings"
	"time"

	"deps.dev/util/resolve"
	"deps.dev/util/resolve/dep"
	"deps.dev/util/resolve/pypi"
	"verifharness/fw"
)

const rule = "streams: (1) witnesses of the known findings and corpus (every test of pypi/testdata whose universe, restricted " +
	"to what is reachable from the root, encodes in < 2.1 MB and resolves within the deadline: pip yaml conversions, additional " +
	"tests, prerelease, loops, two resolvelib snapshots; checked with the combined oracle); (2) small-scope stream: 3 packages, " +
	"1-2 versions (with a prerelease), a 5-specifier alphabet, a cycle through a, every root, sampled with a stride from the " +
	"full index space; (3) random universes: 3-10 packages (names include setuptools/Setuptools), 1-6 versions from a pool " +
	"with pre/dev/post releases, an epoch and equal-comparing spellings (1.0 / 1.0.0 / 2.0 / 2.0.0), 0-4 requirements per version " +
	"on distinct packages (U4: at most one requirement per (dependent version, package)); specifiers of every PEP 440 operator " +
	"incl. wildcards, === and comma conjunctions, bounds mostly taken from the target's own versions, prerelease bounds; 60% of " +
	"universes mostly-satisfiable (deeper graphs); markers over python_version, sys_platform, os_name, extra with and/or/" +
	"parentheses; requested extras x, y, X; 10% with malformed specifiers/markers/versions (error paths incl. marker panics); " +
	"conflict gadgets (all versions of two packages pin a third incompatibly) force backtracking; gadgets shaped like the " +
	"F-C08-route and F-C08-extras witnesses are grafted onto 4% each so the finding classes are exercised; two further gadget " +
	"families with their own root: LEAK (8%: newer versions of qa request qx[e2] and are then rejected while tried or after one/" +
	"two levels of backtracking; qx guards a dependency by extra == e2, nothing selected requests it) and HOLES (10%: 2-3 " +
	"dependents of hp whose specifiers, built from !=v, !=k.*, </<=/>/>= by rejection sampling against the real matcher, match " +
	"lists of equal length and equal end points but different interiors, the newest one or two versions of hp uninstallable " +
	"so the resolver walks down through the holes); any version can be " +
	"the root, so cycles through the root arise; three roots per universe, preferring versions with requirements. Universes on " +
	"which the reference run needs >= 3000 rounds are not emitted. Failing unclassified universes are shrunk. A case is " +
	"distinct by its op line; non-trivial = a graph without graph-level error with at least three nodes, counted by distinct " +
	"canonical graph."

const resolveDeadline = 3 * time.Second

// resolveLine runs the real resolver on a decoded universe.
func resolveReal(u *uni, rootName, rootVer string) string {
	lc := u.client()
	ctx, cancel := context.WithTimeout(context.Background(), resolveDeadline)
	defer cancel()
	g, err := pypi.NewResolver(lc).Resolve(ctx, vk(rootName, rootVer))
	if err != nil {
		if errors.Is(err, context.DeadlineExceeded) || ctx.Err() != nil {
			return "timeout"
		}
		return "err"
	}
	if g.Error != "" {
		return "ok gerr=1"
	}
	return "ok gerr=0 " + canonGraph(g)
}

func nodeTok(v resolve.VersionKey) string {
	s := fw.Hx(v.Name) + "@" + fw.Hx(v.Version)
	if v.System != resolve.PyPI || v.VersionType != resolve.Concrete {
		s += "!"
	}
	return s
}

func canonGraph(g *resolve.Graph) string {
	if len(g.Nodes) == 0 {
		return "root=none N= E="
	}
	nodes := make([]string, len(g.Nodes))
	for i, n := range g.Nodes {
		nodes[i] = nodeTok(n.Version)
		if len(n.Errors) != 0 {
			nodes[i] += "#err"
		}
	}
	root := nodes[0]
	edges := make([]string, len(g.Edges))
	for i, e := range g.Edges {
		env, hasEnv := e.Type.GetAttr(dep.Environment)
		ex, hasEx := e.Type.GetAttr(dep.EnabledDependencies)
		r := req{HasEnv: hasEnv, Env: env, HasEx: hasEx, Ex: ex}
		other := ""
		if !e.Type.Equal(r.typ()) {
			other = ":other"
		}
		from, to := "?", "?"
		if int(e.From) >= 0 && int(e.From) < len(nodes) {
			from = nodes[e.From]
		}
		if int(e.To) >= 0 && int(e.To) < len(nodes) {
			to = nodes[e.To]
		}
		edges[i] = from + ">" + to + ":" + fw.Hx(e.Requirement) + ":" + optHx(hasEnv, env) + ":" + optHx(hasEx, ex) + other
	}
	sorted := append([]string(nil), nodes...)
	sort.Strings(sorted)
	sort.Strings(edges)
	return "root=" + root + " N=" + strings.Join(sorted, ",") + " E=" + strings.Join(edges, ",")
}

func exec(f []string) string {
	switch f[0] {
	case "resolve":
		u, rn, rv, ok := decode(f[1:])
		if !ok {
			return "bad-op"
		}
		return resolveReal(u, rn, rv)
	case "classify":
		u, rn, rv, ok := decode(f[1:])
		if !ok {
			return "bad-op"
		}
		return classifyLine(u, rn, rv)
	}
	return "bad-op"
}

func main() {
	if tool(os.Args) {
		return
	}
	fw.Main(&fw.Prop{
		ID:       "C08",
		Rule:     rule,
		Exec:     exec,
		Run:      run,
		Recheck:  recheck,
		Classify: classify,
		Gens:     []fw.Generator{{Name: "C08Consts", Fn: genC08Consts}},
	})
}
