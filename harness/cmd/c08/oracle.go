package main

// Direct oracles for C08, evaluated on an op line and Go's result alone.
//
//	P1  the graph holds at most one node per package
//	P2  (U4 universes) for every node v and every requirement d of v whose marker is
//	    true under the extras requested of v (union over the edges into v), there is
//	    an edge v -> w labelled (d.spec, d.type) with w a node of d's package and w
//	    matching d under pip's prerelease rule as the resolver documents it: w is in
//	    the normal-mode matches of d, or w's package carries more than one requirement
//	    edge, one of them has a prerelease bound, and w matches d under
//	    prerelease-inclusive matching
//	P3  (U4 universes) a requirement of a node whose marker is false under the
//	    requested extras labels no edge out of that node
//	P4  every node is reachable from the root node along edges
//	P5  node 0 is the requested root version
//	T   the real resolver does not hit the deadline (only universes on which the model
//	    needs fewer than modelRoundCap rounds are emitted)
//	ALL P1..P5 in this order, first failure (used by the corpus)
//	ES  every edge v -> w is labelled by a requirement that v places on w's package
//	    (edge soundness: the converse reading of P2/P3 — nothing but true-marker
//	    requirements of the selected versions contributes edges; fails on the unchanged
//	    tree exactly in class F-C08-stale)
//
// All of them hold vacuously on results other than "ok gerr=0 …" (err, timeout and
// graph-level errors are allowed by the property).

import (
	"fmt"
	"strings"
)

type gnode struct{ name, ver, tok string }

type gedge struct {
	from, to      string // node tokens
	spec, env, ex string // hex / "~" tokens as printed
}

type graph struct {
	root  string
	nodes []gnode
	edges []gedge
}

func parseGraph(res string) (*graph, bool) {
	if !strings.HasPrefix(res, "ok gerr=0 ") {
		return nil, false
	}
	f := strings.Fields(res)
	if len(f) != 5 || !strings.HasPrefix(f[2], "root=") || !strings.HasPrefix(f[3], "N=") || !strings.HasPrefix(f[4], "E=") {
		return nil, false
	}
	g := &graph{root: strings.TrimPrefix(f[2], "root=")}
	if ns := strings.TrimPrefix(f[3], "N="); ns != "" {
		for _, t := range strings.Split(ns, ",") {
			nv := strings.SplitN(t, "@", 2)
			if len(nv) != 2 {
				return nil, false
			}
			n, ok1 := unhx(nv[0])
			v, ok2 := unhx(nv[1])
			if !ok1 || !ok2 {
				return nil, false
			}
			g.nodes = append(g.nodes, gnode{n, v, t})
		}
	}
	if es := strings.TrimPrefix(f[4], "E="); es != "" {
		for _, t := range strings.Split(es, ",") {
			ft := strings.SplitN(t, ">", 2)
			if len(ft) != 2 {
				return nil, false
			}
			parts := strings.Split(ft[1], ":")
			if len(parts) != 4 {
				return nil, false
			}
			g.edges = append(g.edges, gedge{ft[0], parts[0], parts[1], parts[2], parts[3]})
		}
	}
	return g, true
}

func (g *graph) node(tok string) *gnode {
	for i := range g.nodes {
		if g.nodes[i].tok == tok {
			return &g.nodes[i]
		}
	}
	return nil
}

// requested extras of a node: union over the edges into it.
func (g *graph) extrasInto(tok string) map[string]bool {
	ex := map[string]bool{}
	for _, e := range g.edges {
		if e.to == tok && e.ex != "~" {
			s, _ := unhx(e.ex)
			for _, x := range strings.Split(s, ",") {
				ex[x] = true
			}
		}
	}
	return ex
}

func maskOf(xs []string, ex map[string]bool) int {
	m := 0
	for k, x := range xs {
		if ex[x] {
			m |= 1 << k
		}
	}
	return m
}

type caseData struct {
	u        *uni
	rootName string
	rootVer  string
	g        *graph
	rows     map[[2]string]mrow
}

func loadCase(op, res string) (*caseData, bool) {
	f := strings.Fields(op)
	if len(f) < 3 || f[0] != "C08" || f[1] != "resolve" {
		return nil, false
	}
	u, rn, rv, ok := decode(f[2:])
	if !ok {
		return nil, false
	}
	g, ok := parseGraph(res)
	if !ok {
		return &caseData{u: u, rootName: rn, rootVer: rv}, true
	}
	c := &caseData{u: u, rootName: rn, rootVer: rv, g: g, rows: map[[2]string]mrow{}}
	for _, m := range u.matchTable(u.client()) {
		c.rows[[2]string{m.Pkg, m.Spec}] = m
	}
	return c, true
}

func in(xs []string, x string) bool {
	for _, y := range xs {
		if x == y {
			return true
		}
	}
	return false
}

func (c *caseData) p1() string {
	seen := map[string]string{}
	for _, n := range c.g.nodes {
		if o, ok := seen[n.name]; ok {
			return fmt.Sprintf("P1: package %q has two nodes (%s, %s)", n.name, o, n.ver)
		}
		seen[n.name] = n.ver
	}
	return ""
}

func (c *caseData) p5() string {
	want := nodeTokOf(c.rootName, c.rootVer)
	if c.g.root != want {
		return fmt.Sprintf("P5: node 0 is %s, the requested root is %s", c.g.root, want)
	}
	if c.g.node(want) == nil {
		return "P5: root not among the nodes"
	}
	for _, n := range c.g.nodes {
		if n.name == c.rootName && n.ver != c.rootVer {
			return fmt.Sprintf("P5: root package %q also selected at %q", n.name, n.ver)
		}
	}
	return ""
}

func nodeTokOf(name, ver string) string { return hx(name) + "@" + hx(ver) }

func (c *caseData) p4() string {
	reach := map[string]bool{c.g.root: true}
	for changed := true; changed; {
		changed = false
		for _, e := range c.g.edges {
			if reach[e.from] && !reach[e.to] {
				reach[e.to] = true
				changed = true
			}
		}
	}
	for _, n := range c.g.nodes {
		if !reach[n.tok] {
			return fmt.Sprintf("P4: node %s@%s is not reachable from the root", n.name, n.ver)
		}
	}
	for _, e := range c.g.edges {
		if c.g.node(e.from) == nil || c.g.node(e.to) == nil {
			return "P4: edge endpoint is not a node"
		}
	}
	return ""
}

func (r req) sameLabel(e gedge) bool {
	return e.spec == hx(r.Spec) && e.env == optHx(r.HasEnv, r.Env) && e.ex == optHx(r.HasEx, r.Ex)
}

// allowed implements the resolver's documented prerelease rule for the selected
// version w of d's package.
func (c *caseData) allowed(d req, w *gnode) bool {
	row, ok := c.rows[[2]string{d.Pkg, d.Spec}]
	if !ok {
		return false
	}
	if in(row.N, w.ver) {
		return true
	}
	nIn, anyPre := 0, false
	for _, e := range c.g.edges {
		if e.to == w.tok {
			nIn++
			s, _ := unhx(e.spec)
			if r, ok := c.rows[[2]string{w.name, s}]; ok && r.HasPre {
				anyPre = true
			}
		}
	}
	if nIn > 1 && anyPre {
		if row.HasPre {
			return in(row.N, w.ver)
		}
		return in(row.P, w.ver)
	}
	return false
}

// p2p3 returns the first P2 and the first P3 failure, and the failing requirement
// of P2 for the classifier.
func (c *caseData) p2p3() (p2, p3 string, lateNode string) {
	for _, n := range c.g.nodes {
		p := c.u.find(n.name)
		if p == nil {
			return "P2: node of unknown package " + n.name, "", ""
		}
		v := p.find(n.ver)
		if v == nil {
			return "P2: node of unknown version " + n.name + "@" + n.ver, "", ""
		}
		xs := c.u.extrasOf(n.name)
		mask := maskOf(xs, c.g.extrasInto(n.tok))
		for _, d := range v.Reqs {
			t := truth(d, xs)
			cell := byte('1')
			if t != "-" {
				if t == "E" || mask >= len(t) {
					continue
				}
				cell = t[mask]
			}
			var labelled []gedge
			for _, e := range c.g.edges {
				if e.from == n.tok && d.sameLabel(e) {
					if w := c.g.node(e.to); w != nil && w.name == d.Pkg {
						labelled = append(labelled, e)
					}
				}
			}
			switch cell {
			case '1':
				good := false
				for _, e := range labelled {
					if c.allowed(d, c.g.node(e.to)) {
						good = true
					}
				}
				if !good && p2 == "" {
					if len(labelled) == 0 {
						p2 = fmt.Sprintf("P2: %s@%s requires %s %q (marker true under the requested extras) but no edge represents it", n.name, n.ver, d.Pkg, d.Spec)
					} else {
						w := c.g.node(labelled[0].to)
						p2 = fmt.Sprintf("P2: %s@%s requires %s %q but the edge leads to %s, which does not satisfy it under pip's prerelease rule", n.name, n.ver, d.Pkg, d.Spec, w.ver)
					}
					lateNode = n.tok
				}
			case '0':
				if len(labelled) != 0 && p3 == "" {
					p3 = fmt.Sprintf("P3: %s@%s: requirement %s %q has a false marker under the requested extras but labels an edge", n.name, n.ver, d.Pkg, d.Spec)
				}
			}
		}
	}
	return
}

func (c *caseData) es() string {
	for _, e := range c.g.edges {
		from, to := c.g.node(e.from), c.g.node(e.to)
		if from == nil || to == nil {
			return "ES: edge endpoint is not a node"
		}
		p := c.u.find(from.name)
		var v *ver
		if p != nil {
			v = p.find(from.ver)
		}
		ok := false
		if v != nil {
			for _, d := range v.Reqs {
				if d.Pkg == to.name && d.sameLabel(e) {
					ok = true
				}
			}
		}
		if !ok {
			s, _ := unhx(e.spec)
			return fmt.Sprintf("ES: edge %s@%s -> %s@%s labelled %q is no requirement of its source", from.name, from.ver, to.name, to.ver, s)
		}
	}
	return ""
}

// verdict evaluates one named oracle.
func (c *caseData) verdict(oracle string) string {
	if c.g == nil {
		return ""
	}
	switch oracle {
	case "P1":
		return c.p1()
	case "P2":
		if !c.u.u4() {
			return ""
		}
		p2, _, _ := c.p2p3()
		return p2
	case "P3":
		if !c.u.u4() {
			return ""
		}
		_, p3, _ := c.p2p3()
		return p3
	case "P4":
		return c.p4()
	case "P5":
		return c.p5()
	case "ES":
		return c.es()
	case "ALL":
		for _, o := range oracles {
			if d := c.verdict(o); d != "" {
				return d
			}
		}
		return ""
	}
	return "unknown oracle " + oracle
}

var oracles = []string{"P1", "P2", "P3", "P4", "P5", "ES"}

func recheck(oracle string, ops, res []string) (bool, string) {
	if oracle == "late" {
		// the classifier's own correspondence: nothing to violate
		return false, ""
	}
	if len(ops) != 1 {
		return true, oracle + " needs one op"
	}
	if oracle == "T" {
		// only universes on which the reference run needs < modelRoundCap rounds are emitted
		if res[0] == "timeout" {
			return true, "T: the real resolver hit the deadline on a universe the reference run finishes within a few thousand rounds"
		}
		return false, ""
	}
	c, ok := loadCase(ops[0], res[0])
	if !ok {
		return true, "undecodable op line"
	}
	d := c.verdict(oracle)
	return d != "", d
}
