package main

// Maintenance subcommands (not used by ./check):
//
//	c08 text   <root-name> <root-version> < universe in the schema text format of /repo   (prints op line, result, verdicts)
//	c08 mkcorpus <outfile>                                                                 (converts pypi/testdata into corpus lines)

import (
	"context"
	"fmt"
	"io"
	"os"
	"path/filepath"
	"sort"
	"strings"

	"deps.dev/util/resolve"
	"deps.dev/util/resolve/dep"
	"deps.dev/util/resolve/schema"
	"deps.dev/util/resolve/verifx"
)

// uniFromClient converts a LocalClient into a universe, restricted to the packages
// reachable from root (all versions of every package that any version of a reachable
// package requires). ok is false when a dependency type carries attributes other than
// Environment / EnabledDependencies.
func uniFromClient(lc *resolve.LocalClient, root resolve.PackageKey) (*uni, bool) {
	ctx := context.Background()
	u := &uni{}
	ok := true
	seen := map[string]bool{root.Name: true}
	todo := []string{root.Name}
	for len(todo) > 0 {
		n := todo[0]
		todo = todo[1:]
		p := pkg{Name: n}
		for _, v := range lc.PackageVersions[pk(n)] {
			nv := ver{V: v.Version}
			rs, _ := lc.Requirements(ctx, v.VersionKey)
			for _, r := range rs {
				var d req
				d.Pkg, d.Spec = r.Name, r.Version
				d.Env, d.HasEnv = r.Type.GetAttr(dep.Environment)
				d.Ex, d.HasEx = r.Type.GetAttr(dep.EnabledDependencies)
				if !r.Type.Equal(d.typ()) || r.System != resolve.PyPI {
					ok = false
				}
				nv.Reqs = append(nv.Reqs, d)
				if !seen[d.Pkg] {
					seen[d.Pkg] = true
					todo = append(todo, d.Pkg)
				}
			}
			p.Vers = append(p.Vers, nv)
		}
		u.Pkgs = append(u.Pkgs, p)
	}
	u.normalise()
	return u, ok
}

func report(u *uni, rn, rv string) {
	line := u.line("resolve", rn, rv)
	res := execLine(line)
	fmt.Println(line)
	fmt.Println(res)
	fmt.Println(execLine(u.line("classify", rn, rv)))
	if cd, ok := loadCase(line, res); ok && cd.g != nil {
		for _, n := range cd.g.nodes {
			fmt.Printf("  node %s@%s\n", n.name, n.ver)
		}
		for _, e := range cd.g.edges {
			f, t := cd.g.node(e.from), cd.g.node(e.to)
			s, _ := unhx(e.spec)
			fmt.Printf("  edge %s@%s -> %s@%s  %q env=%s ex=%s\n", f.name, f.ver, t.name, t.ver, s, e.env, e.ex)
		}
		for _, o := range append(append([]string(nil), oracles...), "ES") {
			if d := cd.verdict(o); d != "" {
				fmt.Println("  FAIL", d)
			}
		}
	}
}

func execLine(line string) string {
	f := strings.Fields(line)
	return exec(f[1:])
}

func tool(args []string) bool {
	if len(args) < 2 {
		return false
	}
	switch args[1] {
	case "text":
		b, _ := io.ReadAll(os.Stdin)
		s, err := schema.New(string(b), resolve.PyPI)
		if err != nil {
			fmt.Println("schema:", err)
			os.Exit(1)
		}
		u, ok := uniFromClient(s.NewClient(), pk(args[2]))
		if !ok {
			fmt.Println("unsupported dependency attributes")
		}
		report(u, args[2], args[3])
		return true
	case "mkcorpus":
		mkcorpus(args[2])
		return true
	}
	return false
}

func mkcorpus(out string) {
	repo := os.Getenv("VERIF_REPO")
	if repo == "" {
		repo = "/repo"
	}
	td := filepath.Join(repo, "util/resolve/pypi/testdata")
	sets := [][]string{
		{"pip-tests.data", "additional-tests.data", "prerelease.data", "prerelease.want"},
		{"loops.data", "loops.want"},
		{"synthetic-backtracking.data"},
		{"resolvelib/pypi-2020-02-13-chalice.data"},
		{"resolvelib/pypi-2020-11-17-cheroot.data"},
		{"resolvelib/pypi-2020-02-15-pandas.data"},
	}
	var lines []string
	for _, set := range sets {
		var files []string
		for _, f := range set {
			files = append(files, filepath.Join(td, f))
		}
		a, err := verifx.ParseTestFiles(resolve.PyPI, files...)
		if err != nil {
			fmt.Fprintln(os.Stderr, "parse", set, err)
			continue
		}
		for _, t := range a.Test {
			u, ok := uniFromClient(t.Universe, t.VK.PackageKey)
			if !ok {
				fmt.Fprintln(os.Stderr, "skip (attrs)", t.Name)
				continue
			}
			if u.tooWide() {
				fmt.Fprintln(os.Stderr, "skip (extras)", t.Name)
				continue
			}
			line := u.line("resolve", t.VK.Name, t.VK.Version)
			if len(line) > 2100000 {
				fmt.Fprintln(os.Stderr, "skip (size)", t.Name, len(line))
				continue
			}
			res := execLine(line)
			if res == "timeout" {
				fmt.Fprintln(os.Stderr, "skip (timeout)", t.Name)
				continue
			}
			orc := "-"
			if cd, ok := loadCase(line, res); ok && cd.g != nil {
				bad := ""
				for _, o := range oracles {
					if d := cd.verdict(o); d != "" {
						bad += " " + d
					}
				}
				if bad != "" {
					fmt.Fprintln(os.Stderr, "ORACLE FAILS on", t.Name, bad)
				}
			}
			if strings.HasPrefix(res, "ok gerr=0") {
				orc = "ALL"
			}
			lines = append(lines, fmt.Sprintf("# %s\n%s\t%s", t.Name, orc, line))
		}
	}
	sort.Strings(lines)
	os.WriteFile(out, []byte(strings.Join(lines, "\n")+"\n"), 0o644)
}
