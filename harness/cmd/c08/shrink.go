package main

// Delta-debugging shrinker for failing universes: greedily removes packages,
// versions and requirements and simplifies requirements while the same oracle keeps
// failing on the REAL code's result and the failure stays outside the known classes.

import "strings"

func stillFails(u *uni, rn, rv, oracle string) bool {
	if u.find(rn) == nil || u.find(rn).find(rv) == nil {
		return false
	}
	line := u.line("resolve", rn, rv)
	res := resolveReal(u, rn, rv)
	cd, ok := loadCase(line, res)
	if !ok || cd.g == nil || cd.verdict(oracle) == "" {
		return false
	}
	return classify(oracle, []string{line}, []string{res}) == ""
}

func shrinkUniverse(u *uni, rn, rv, oracle string) *uni {
	cur := u.clone()
	try := func(c *uni) bool {
		c.normalise()
		if stillFails(c, rn, rv, oracle) {
			cur = c
			return true
		}
		return false
	}
	for round := 0; round < 6; round++ {
		progress := false
		// drop packages
		for i := 0; i < len(cur.Pkgs); i++ {
			if cur.Pkgs[i].Name == rn {
				continue
			}
			c := cur.clone()
			name := c.Pkgs[i].Name
			c.Pkgs = append(c.Pkgs[:i], c.Pkgs[i+1:]...)
			// also drop requirements on it (normalise would re-add it empty otherwise)
			for pi := range c.Pkgs {
				for vi := range c.Pkgs[pi].Vers {
					var rs []req
					for _, r := range c.Pkgs[pi].Vers[vi].Reqs {
						if r.Pkg != name {
							rs = append(rs, r)
						}
					}
					c.Pkgs[pi].Vers[vi].Reqs = rs
				}
			}
			if try(c) {
				progress = true
				i--
			}
		}
		// drop versions
		for i := 0; i < len(cur.Pkgs); i++ {
			for j := 0; j < len(cur.Pkgs[i].Vers); j++ {
				if cur.Pkgs[i].Name == rn && cur.Pkgs[i].Vers[j].V == rv {
					continue
				}
				c := cur.clone()
				c.Pkgs[i].Vers = append(c.Pkgs[i].Vers[:j], c.Pkgs[i].Vers[j+1:]...)
				if try(c) {
					progress = true
					j--
				}
			}
		}
		// drop / simplify requirements
		for i := 0; i < len(cur.Pkgs); i++ {
			for j := 0; j < len(cur.Pkgs[i].Vers); j++ {
				for k := 0; k < len(cur.Pkgs[i].Vers[j].Reqs); k++ {
					c := cur.clone()
					rs := c.Pkgs[i].Vers[j].Reqs
					c.Pkgs[i].Vers[j].Reqs = append(rs[:k], rs[k+1:]...)
					if try(c) {
						progress = true
						k--
						continue
					}
					r := cur.Pkgs[i].Vers[j].Reqs[k]
					for _, f := range []func(*req){
						func(x *req) { x.HasEnv, x.Env = false, "" },
						func(x *req) { x.HasEx, x.Ex = false, "" },
						func(x *req) { x.Spec = "" },
						func(x *req) {
							if p := strings.Index(x.Spec, ","); p >= 0 {
								x.Spec = x.Spec[:p]
							}
						},
					} {
						c := cur.clone()
						nr := r
						f(&nr)
						if nr == r {
							continue
						}
						c.Pkgs[i].Vers[j].Reqs[k] = nr
						if try(c) {
							progress = true
							r = nr
						}
					}
				}
			}
		}
		if !progress {
			break
		}
	}
	return cur
}
