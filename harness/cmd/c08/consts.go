package main

// Translator generator C08Consts: the constants of util/resolve/pypi/resolve.go that
// the Lean model of C08 uses (data only, extracted from the typed syntax tree).

import (
	"fmt"
	"go/ast"
	"go/token"
	"path/filepath"
	"strings"

	"verifharness/fw"
)

func funcBody(files []*ast.File, recv, name string) *ast.BlockStmt {
	for _, f := range files {
		for _, d := range f.Decls {
			fd, ok := d.(*ast.FuncDecl)
			if !ok || fd.Name.Name != name || fd.Body == nil {
				continue
			}
			r := ""
			if fd.Recv != nil && len(fd.Recv.List) == 1 {
				t := fd.Recv.List[0].Type
				if s, ok := t.(*ast.StarExpr); ok {
					t = s.X
				}
				if id, ok := t.(*ast.Ident); ok {
					r = id.Name
				}
			}
			if r == recv {
				return fd.Body
			}
		}
	}
	return nil
}

func genC08Consts(repo string) (string, error) {
	p, err := fw.LoadPkg(filepath.Join(repo, "util", "resolve", "pypi"))
	if err != nil {
		return "", err
	}
	// maxRounds: local constant of (*resolver).Resolve, passed to resolution.resolve
	body := funcBody(p.Syntax, "resolver", "Resolve")
	if body == nil {
		return "", fmt.Errorf("(*resolver).Resolve not found")
	}
	// the bound is whatever CONSTANT is passed as the third argument of resolution.resolve,
	// under any name and wherever it is declared (go/types evaluates the expression)
	var maxRounds int64 = -1
	ast.Inspect(body, func(n ast.Node) bool {
		if x, ok := n.(*ast.CallExpr); ok {
			if s, ok := x.Fun.(*ast.SelectorExpr); ok && s.Sel.Name == "resolve" && len(x.Args) == 3 {
				if v, ok := fw.EvalInt(p, x.Args[2]); ok {
					maxRounds = v
				}
			}
		}
		return true
	})
	if maxRounds < 0 {
		return "", fmt.Errorf("Resolve: no constant round bound passed to resolution.resolve")
	}
	// getPreference: initial rating, the ratings assigned, the default order, the delayed name
	body = funcBody(p.Syntax, "provider", "getPreference")
	if body == nil {
		return "", fmt.Errorf("(*provider).getPreference not found")
	}
	var initRating, defaultOrder int64 = -1, -1
	var assigned []int64
	delayed := ""
	ast.Inspect(body, func(n ast.Node) bool {
		switch x := n.(type) {
		case *ast.KeyValueExpr:
			if id, ok := x.Key.(*ast.Ident); ok && id.Name == "restrictiveRating" {
				if v, ok := fw.EvalInt(p, x.Value); ok {
					initRating = v
				}
			}
		case *ast.AssignStmt:
			if len(x.Lhs) == 1 && len(x.Rhs) == 1 && x.Tok == token.ASSIGN {
				if s, ok := x.Lhs[0].(*ast.SelectorExpr); ok {
					switch s.Sel.Name {
					case "restrictiveRating":
						if v, ok := fw.EvalInt(p, x.Rhs[0]); ok {
							assigned = append(assigned, v)
						}
					case "order":
						if v, ok := fw.EvalInt(p, x.Rhs[0]); ok {
							defaultOrder = v
						}
					}
				}
			}
		case *ast.BinaryExpr:
			if x.Op == token.EQL {
				if s, ok := fw.EvalStr(p, x.Y); ok {
					delayed = s
				}
			}
		}
		return true
	})
	if initRating < 0 || defaultOrder < 0 || len(assigned) != 2 || delayed == "" {
		return "", fmt.Errorf("getPreference: unexpected shape (init %d order %d assigned %v delayed %q)", initRating, defaultOrder, assigned, delayed)
	}
	// backtrack: the loop bound `len(r.states) >= N`
	body = funcBody(p.Syntax, "resolution", "backtrack")
	if body == nil {
		return "", fmt.Errorf("(*resolution).backtrack not found")
	}
	var minStates int64 = -1
	for _, st := range body.List {
		if fs, ok := st.(*ast.ForStmt); ok && fs.Init == nil && fs.Post == nil {
			if be, ok := fs.Cond.(*ast.BinaryExpr); ok && be.Op == token.GEQ {
				if v, ok := fw.EvalInt(p, be.Y); ok {
					minStates = v
				}
			}
		}
	}
	if minStates < 0 {
		return "", fmt.Errorf("backtrack: loop condition `len(r.states) >= N` not found")
	}
	var b strings.Builder
	b.WriteString("-- C08Consts: constants of util/resolve/pypi/resolve.go used by the C08 model.\n")
	b.WriteString("namespace DepsDev.Gen.C08Consts\n\n")
	fmt.Fprintf(&b, "/-- `const maxRounds` of (*resolver).Resolve, the bound passed to resolution.resolve -/\ndef maxRounds : Nat := %d\n", maxRounds)
	fmt.Fprintf(&b, "/-- getPreference: initial restrictiveRating -/\ndef ratingNone : Nat := %d\n", initRating)
	fmt.Fprintf(&b, "/-- getPreference: rating assigned when the specifier contains \"==\" -/\ndef ratingPinned : Nat := %d\n", assigned[0])
	fmt.Fprintf(&b, "/-- getPreference: rating assigned for any other non-empty specifier -/\ndef ratingSpecified : Nat := %d\n", assigned[1])
	fmt.Fprintf(&b, "/-- getPreference: order of a package that is not user requested (math.MaxInt32) -/\ndef defaultOrder : Nat := %d\n", defaultOrder)
	fmt.Fprintf(&b, "/-- getPreference: the lower-cased name whose criterion is delayed -/\ndef delayedName : List UInt8 := %s\n", fw.LeanBytes(delayed))
	fmt.Fprintf(&b, "/-- backtrack: it continues while len(states) >= this -/\ndef backtrackMinStates : Nat := %d\n", minStates)
	b.WriteString("\nend DepsDev.Gen.C08Consts\n")
	return b.String(), nil
}
