package main

// Translator generator C08Consts: the constants of util/resolve/pypi/resolve.go that
// the Lean model of C08 uses (data only, extracted from the typed syntax tree).

import (
	"fmt"
	"go/ast"
	"go/token"
	"go/types"
	"path/filepath"
	"strings"

	"golang.org/x/tools/go/packages"
	"verifharness/fw"
)

// The extraction is by TYPES AND VALUES, not by identifier names, so that a
// behaviour-preserving rename of a local constant, a field, a helper or a receiver does
// not trip it; what it relies on is stated at each step and anything unexpected is an
// error (the runner then installs no table and the tie theorems fail).

// methodBodies returns the bodies of all functions of the package, and the body of the
// method with the given (exported, interface-mandated) name.
func funcBodies(files []*ast.File) (all []*ast.BlockStmt, byName map[string][]*ast.BlockStmt) {
	byName = map[string][]*ast.BlockStmt{}
	for _, f := range files {
		for _, d := range f.Decls {
			if fd, ok := d.(*ast.FuncDecl); ok && fd.Body != nil {
				all = append(all, fd.Body)
				byName[fd.Name.Name] = append(byName[fd.Name.Name], fd.Body)
			}
		}
	}
	return
}

// intFieldConsts collects, per struct field of an integer type (identified by its
// types.Var, whatever it is called), the constants stored into it inside body, in source
// order: keyed elements of composite literals and plain assignments.
func intFieldConsts(p *packages.Package, body *ast.BlockStmt) (order []*types.Var, vals map[*types.Var][]int64) {
	vals = map[*types.Var][]int64{}
	note := func(id *ast.Ident, rhs ast.Expr) {
		fv, ok := p.TypesInfo.ObjectOf(id).(*types.Var)
		if !ok || !fv.IsField() {
			return
		}
		if b, ok := fv.Type().Underlying().(*types.Basic); !ok || b.Info()&types.IsInteger == 0 {
			return
		}
		v, ok := fw.EvalInt(p, rhs)
		if !ok {
			return
		}
		if _, seen := vals[fv]; !seen {
			order = append(order, fv)
		}
		vals[fv] = append(vals[fv], v)
	}
	ast.Inspect(body, func(n ast.Node) bool {
		switch x := n.(type) {
		case *ast.KeyValueExpr:
			if id, ok := x.Key.(*ast.Ident); ok {
				note(id, x.Value)
			}
		case *ast.AssignStmt:
			if len(x.Lhs) == len(x.Rhs) {
				for k, l := range x.Lhs {
					if s, ok := l.(*ast.SelectorExpr); ok {
						note(s.Sel, x.Rhs[k])
					}
				}
			}
		}
		return true
	})
	return
}

func isCallTo(p *packages.Package, e ast.Expr, pkgPath, name string) bool {
	c, ok := e.(*ast.CallExpr)
	if !ok {
		return false
	}
	var id *ast.Ident
	switch f := c.Fun.(type) {
	case *ast.SelectorExpr:
		id = f.Sel
	case *ast.Ident:
		id = f
	}
	if id == nil {
		return false
	}
	fn, ok := p.TypesInfo.ObjectOf(id).(*types.Func)
	return ok && fn.Pkg() != nil && fn.Pkg().Path() == pkgPath && fn.Name() == name
}

func genC08Consts(repo string) (string, error) {
	p, err := fw.LoadPkg(filepath.Join(repo, "util", "resolve", "pypi"))
	if err != nil {
		return "", err
	}
	all, byName := funcBodies(p.Syntax)

	// Round bound. Relies on: resolve.Resolver's method is called Resolve (the interface
	// fixes that); inside it exactly one call to a function of THIS package passes a
	// constant integer as its last argument. Name of the constant / callee: irrelevant.
	var bounds []int64
	for _, body := range byName["Resolve"] {
		ast.Inspect(body, func(n ast.Node) bool {
			x, ok := n.(*ast.CallExpr)
			if !ok || len(x.Args) == 0 {
				return true
			}
			var id *ast.Ident
			switch f := x.Fun.(type) {
			case *ast.SelectorExpr:
				id = f.Sel
			case *ast.Ident:
				id = f
			}
			if id == nil {
				return true
			}
			fn, ok := p.TypesInfo.ObjectOf(id).(*types.Func)
			if !ok || fn.Pkg() != p.Types {
				return true
			}
			last := x.Args[len(x.Args)-1]
			if tv, ok := p.TypesInfo.Types[last]; ok && tv.Value != nil {
				if b, ok := tv.Type.Underlying().(*types.Basic); ok && b.Info()&types.IsInteger != 0 {
					if v, ok := fw.EvalInt(p, last); ok {
						bounds = append(bounds, v)
					}
				}
			}
			return true
		})
	}
	if len(bounds) != 1 {
		return "", fmt.Errorf("Resolve: expected exactly one package-local call with a constant integer last argument (the round bound), found %v", bounds)
	}
	maxRounds := bounds[0]

	// Preference key. Relies on: exactly one function of the package stores constants into
	// integer struct fields with the pattern {one field: three constants (initial rating,
	// rating for "==", rating for other specifiers, in source order); another field: one
	// constant (the order of a package that is not user requested)}; the same function
	// compares strings.ToLower(...) with a string constant (the delayed name).
	type prefShape struct {
		ratings []int64
		order   int64
		delayed string
	}
	var shapes []prefShape
	for _, body := range all {
		fields, vals := intFieldConsts(p, body)
		var three, one [][]int64
		for _, f := range fields {
			switch len(vals[f]) {
			case 3:
				three = append(three, vals[f])
			case 1:
				one = append(one, vals[f])
			}
		}
		if len(three) != 1 || len(one) != 1 {
			continue
		}
		var names []string
		ast.Inspect(body, func(n ast.Node) bool {
			if be, ok := n.(*ast.BinaryExpr); ok && be.Op == token.EQL {
				for _, pair := range [][2]ast.Expr{{be.X, be.Y}, {be.Y, be.X}} {
					if isCallTo(p, pair[0], "strings", "ToLower") {
						if s, ok := fw.EvalStr(p, pair[1]); ok {
							names = append(names, s)
						}
					}
				}
			}
			return true
		})
		if len(names) != 1 {
			continue
		}
		shapes = append(shapes, prefShape{three[0], one[0][0], names[0]})
	}
	if len(shapes) != 1 {
		return "", fmt.Errorf("preference key: expected exactly one function with the rating/order/delayed-name pattern, found %d", len(shapes))
	}
	initRating, assigned, defaultOrder, delayed := shapes[0].ratings[0], shapes[0].ratings[1:], shapes[0].order, shapes[0].delayed

	// Backtracking bound. Relies on: exactly one condition-only `for` loop of the package
	// compares len(<slice of pointers>) with a constant; normalised to `len(x) >= N`.
	var mins []int64
	for _, body := range all {
		ast.Inspect(body, func(n ast.Node) bool {
			fs, ok := n.(*ast.ForStmt)
			if !ok || fs.Init != nil || fs.Post != nil || fs.Cond == nil {
				return true
			}
			be, ok := fs.Cond.(*ast.BinaryExpr)
			if !ok {
				return true
			}
			isLen := func(e ast.Expr) bool {
				c, ok := e.(*ast.CallExpr)
				if !ok || len(c.Args) != 1 {
					return false
				}
				if id, ok := c.Fun.(*ast.Ident); !ok || id.Name != "len" || p.TypesInfo.ObjectOf(id) != types.Universe.Lookup("len") {
					return false
				}
				sl, ok := p.TypesInfo.TypeOf(c.Args[0]).Underlying().(*types.Slice)
				if !ok {
					return false
				}
				_, ptr := sl.Elem().Underlying().(*types.Pointer)
				return ptr
			}
			x, y, op := be.X, be.Y, be.Op
			if !isLen(x) && isLen(y) { // N <= len(x)  ==>  len(x) >= N
				x, y = y, x
				op = map[token.Token]token.Token{token.LEQ: token.GEQ, token.LSS: token.GTR, token.GEQ: token.LEQ, token.GTR: token.LSS}[op]
			}
			if !isLen(x) {
				return true
			}
			v, ok := fw.EvalInt(p, y)
			if !ok {
				return true
			}
			switch op {
			case token.GEQ:
				mins = append(mins, v)
			case token.GTR:
				mins = append(mins, v+1)
			}
			return true
		})
	}
	if len(mins) != 1 {
		return "", fmt.Errorf("backtrack: expected exactly one condition-only loop `len(stack) >= N`, found %v", mins)
	}
	minStates := mins[0]

	var b strings.Builder
	b.WriteString("-- C08Consts: constants of util/resolve/pypi/resolve.go used by the C08 model.\n")
	b.WriteString("namespace DepsDev.Gen.C08Consts\n\n")
	fmt.Fprintf(&b, "/-- `const maxRounds` of (*resolver).Resolve, the bound passed to resolution.resolve -/\ndef maxRounds : Nat := %d\n", maxRounds)
	fmt.Fprintf(&b, "/-- getPreference: initial restrictiveRating -/\ndef ratingNone : Nat := %d\n", initRating)
	fmt.Fprintf(&b, "/-- getPreference: rating assigned when the specifier contains \"==\" -/\ndef ratingPinned : Nat := %d\n", assigned[0])
	fmt.Fprintf(&b, "/-- getPreference: rating assigned for any other non-empty specifier -/\ndef ratingSpecified : Nat := %d\n", assigned[1])
	fmt.Fprintf(&b, "/-- getPreference: order of a package that is not user requested (math.MaxInt32) -/\ndef defaultOrder : Nat := %d\n", defaultOrder)
	fmt.Fprintf(&b, "/-- getPreference: the lower-cased name whose criterion is delayed -/\ndef delayedName : List UInt8 := %s\n", fw.LeanBytes(delayed))
	fmt.Fprintf(&b, "/-- backtrack: it continues while len(states) >= this -/\ndef backtrackMinStates : Nat := %d\n", minStates)
	b.WriteString("\nend DepsDev.Gen.C08Consts\n")
	return b.String(), nil
}
