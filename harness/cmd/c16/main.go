// c16 is the harness of property C16 (PEP 508 requirement strings and markers).
//
// Ops (fields after "C16"):
//
//	pname  <hex name>                                  -> ok <hex canon>
//	dep508 <hex requirement> [ast=<hex json>]          -> ok name=<hex> extras=<hex> constraint=<hex> env=<hex> | err
//	marker <hex marker> extras=<csv hex> [ver=<hex>:<0|1>]* [leaf=<hex l>:<op>:<hex r>:<0|1|e>]* [ast=<hex json>]
//	                                                   -> ok 0|1 | err
//	resolve <hex marker> extras=<csv hex> [ver=…]* [leaf=…]*   -> ok 0|1 | err      (guarded edge present?)
//	probe universe (root=<csv hex extras> (g=<hex marker>[:<hex ast>])+)+
//	                                                   -> ok <r0>/<r1>/…  r_k = e | one bit per guarded edge
//	                                                      (Go only, see universe.go: several guarded requirements
//	                                                      per root, the roots resolved in sequence on ONE resolver)
//
// The ver=/leaf= fields are the semver boundary of the Lean marker model: ver
// says whether semver.PyPI.Parse accepts an operand, leaf is the outcome of
// semver.PyPI.ParseConstraint(op+rhs) / MatchVersion(lhs) for one comparison
// whose operands are both versions, computed by the real code on that leaf
// alone. Exec ignores them (and ast=); the Lean driver composes them.
package main

import (
	"context"
	"encoding/json"
	"fmt"
	"os"
	"path/filepath"
	"runtime/debug"
	"sort"
	"strings"
	"sync"
	"time"

	"deps.dev/util/pypi"
	"deps.dev/util/resolve"
	"deps.dev/util/resolve/dep"
	rpypi "deps.dev/util/resolve/pypi"
	"deps.dev/util/semver"

	"verifharness/fw"
)

// ---------------------------------------------------------------- real code

func parseExtras(f string) (map[string]bool, []string, bool) {
	if !strings.HasPrefix(f, "extras=") {
		return nil, nil, false
	}
	m := map[string]bool{}
	var list []string
	rest := f[len("extras="):]
	if rest == "" {
		return m, nil, true
	}
	for _, h := range strings.Split(rest, ",") {
		e := fw.Unhx(h)
		m[e] = true
		list = append(list, e)
	}
	return m, list, true
}

func field(f []string, key string) (string, bool) {
	for _, x := range f {
		if strings.HasPrefix(x, key+"=") {
			return x[len(key)+1:], true
		}
	}
	return "", false
}

func bit(b bool) string {
	if b {
		return "1"
	}
	return "0"
}

func execOp(f []string) string {
	switch f[0] {
	case "pname":
		if len(f) != 2 {
			return "bad-op"
		}
		return "ok " + fw.Hx(pypi.CanonPackageName(fw.Unhx(f[1])))
	case "dep508":
		if len(f) < 2 {
			return "bad-op"
		}
		d, err := pypi.ParseDependency(fw.Unhx(f[1]))
		if err != nil {
			return "err"
		}
		return fmt.Sprintf("ok name=%s extras=%s constraint=%s env=%s", fw.Hx(d.Name), fw.Hx(d.Extras), fw.Hx(d.Constraint), fw.Hx(d.Environment))
	case "marker":
		if len(f) < 3 {
			return "bad-op"
		}
		ex, _, ok := parseExtras(f[2])
		if !ok {
			return "bad-op"
		}
		v, err := rpypi.VerifEvalMarker(fw.Unhx(f[1]), ex)
		if err != nil {
			return "err"
		}
		return "ok " + bit(v)
	case "resolve":
		if len(f) < 3 {
			return "bad-op"
		}
		_, list, ok := parseExtras(f[2])
		if !ok {
			return "bad-op"
		}
		return resolveGuarded(fw.Unhx(f[1]), list)
	case "probe":
		if len(f) < 3 || f[1] != "universe" {
			return "bad-op"
		}
		roots, ok := parseUniverse(f[2:])
		if !ok {
			return "bad-op"
		}
		return execUniverse(roots)
	}
	return "bad-op"
}

func vk(name string, t resolve.VersionType, v string) resolve.VersionKey {
	return resolve.VersionKey{PackageKey: resolve.PackageKey{System: resolve.PyPI, Name: name}, VersionType: t, Version: v}
}

// resolveGuarded is the property's own observation point: root -> a[extras],
// a -> b guarded by the marker; is b in the resolved graph?
func resolveGuarded(marker string, extras []string) string {
	lc := resolve.NewLocalClient()
	root := resolve.Version{VersionKey: vk("root", resolve.Concrete, "1.0")}
	a := resolve.Version{VersionKey: vk("a", resolve.Concrete, "1.0")}
	b := resolve.Version{VersionKey: vk("b", resolve.Concrete, "1.0")}
	var t1, t2 dep.Type
	if len(extras) > 0 {
		t1.AddAttr(dep.EnabledDependencies, strings.Join(extras, ","))
	}
	t2.AddAttr(dep.Environment, marker)
	lc.AddVersion(root, []resolve.RequirementVersion{{VersionKey: vk("a", resolve.Requirement, ""), Type: t1}})
	lc.AddVersion(a, []resolve.RequirementVersion{{VersionKey: vk("b", resolve.Requirement, ""), Type: t2}})
	lc.AddVersion(b, nil)
	ctx, cancel := context.WithTimeout(context.Background(), 5*time.Second)
	defer cancel()
	type out struct {
		g   *resolve.Graph
		err error
	}
	ch := make(chan out, 1)
	go func() {
		defer func() {
			if r := recover(); r != nil {
				ch <- out{nil, fmt.Errorf("panic")}
			}
		}()
		g, err := rpypi.NewResolver(lc).Resolve(ctx, root.VersionKey)
		ch <- out{g, err}
	}()
	select {
	case o := <-ch:
		if o.err != nil && o.err.Error() == "panic" {
			return "panic"
		}
		if o.err != nil || o.g == nil || o.g.Error != "" {
			return "err"
		}
		hasA, hasB := false, false
		for _, n := range o.g.Nodes {
			if len(n.Errors) > 0 {
				return "err"
			}
			switch n.Version.Name {
			case "a":
				hasA = true
			case "b":
				hasB = true
			}
		}
		if !hasA {
			return "err"
		}
		// the guarded edge itself
		edge := false
		for _, e := range o.g.Edges {
			if o.g.Nodes[e.From].Version.Name == "a" && o.g.Nodes[e.To].Version.Name == "b" {
				edge = true
			}
		}
		if edge != hasB {
			return "err"
		}
		return "ok " + bit(edge)
	case <-time.After(8 * time.Second):
		return "timeout"
	}
}

// ---------------------------------------------------------------- environment

var (
	factsOnce sync.Once
	facts     *pypiFacts
	factsErr  error
)

// repoRoot is the tree this binary was compiled against (go.mod replace).
func repoRoot() string {
	if r := os.Getenv("VERIF_REPO"); r != "" {
		return r
	}
	if bi, ok := debug.ReadBuildInfo(); ok {
		for _, d := range bi.Deps {
			if d.Path == "deps.dev/util/resolve" && d.Replace != nil && filepath.IsAbs(d.Replace.Path) {
				return filepath.Dir(filepath.Dir(d.Replace.Path))
			}
		}
	}
	return "/repo"
}

func getFacts() *pypiFacts {
	factsOnce.Do(func() { facts, factsErr = extractPypiFacts(repoRoot()) })
	if factsErr != nil {
		panic("C16: cannot read the target environment: " + factsErr.Error())
	}
	return facts
}

// refEnv is the environment the spec evaluates in: internal.Markers.
func refEnv() map[string]string { return getFacts().Markers }

// ---------------------------------------------------------------- semver boundary facts

type scanLeaf struct{ l, op, r string }

// scanLeaves over-approximates the comparisons parseMarker can reach in raw:
// a flat walk over operand/operator/operand/(and|or|paren) tokens that stops at
// the first thing the grammar cannot continue with. Extra facts are harmless;
// a missing one makes the Lean driver answer "missing-fact" (a loud mismatch).
func scanLeaves(raw string) (vals []string, leaves []scanLeaf) {
	fx := getFacts()
	pos := 0
	skip := func() bool {
		p := pos
		for pos < len(raw) && (raw[pos] == ' ' || raw[pos] == '\t') {
			pos++
		}
		return pos > p
	}
	accept := func(s string) bool {
		if strings.HasPrefix(raw[pos:], s) {
			pos += len(s)
			return true
		}
		return false
	}
	operand := func() (string, bool) {
		skip()
		if pos < len(raw) && (raw[pos] == '\'' || raw[pos] == '"') {
			i := strings.IndexByte(raw[pos+1:], raw[pos])
			if i < 0 {
				return "", false
			}
			v := raw[pos+1 : pos+1+i]
			pos += i + 2
			return v, true
		}
		for _, e := range fx.EnvVars {
			if accept(e[0]) {
				return e[2], true
			}
		}
		return "", false
	}
	for {
		skip()
		for accept("(") {
			skip()
		}
		l, ok := operand()
		if !ok {
			return
		}
		vals = append(vals, l)
		skip()
		op := ""
		for _, o := range fx.ByLength {
			if accept(fx.OpStrings[o]) {
				op = fx.OpNames[o]
				break
			}
		}
		if op == "" {
			if !accept("not") || !skip() || !accept("in") {
				return
			}
			op = "markerOpNotIn"
		}
		r, ok := operand()
		if !ok {
			return
		}
		vals = append(vals, r)
		leaves = append(leaves, scanLeaf{l, op, r})
		for {
			skip()
			if accept(")") {
				continue
			}
			break
		}
		if accept("and") || accept("or") {
			continue
		}
		return
	}
}

func goIsVersion(s string) bool {
	_, err := semver.PyPI.Parse(s)
	return err == nil
}

func quoteLit(s string) (string, bool) {
	switch {
	case !strings.Contains(s, "'"):
		return "'" + s + "'", true
	case !strings.Contains(s, `"`):
		return `"` + s + `"`, true
	}
	return "", false
}

func opText(name string) string {
	fx := getFacts()
	for i, n := range fx.OpNames {
		if n == name {
			return fx.OpStrings[i]
		}
	}
	return ""
}

// factFields computes the ver=/leaf= fields for a marker text with the real code.
func factFields(raw string) string {
	vals, leaves := scanLeaves(raw)
	isV := map[string]bool{}
	var parts []string
	seen := map[string]bool{}
	for _, v := range vals {
		if seen[v] {
			continue
		}
		seen[v] = true
		isV[v] = goIsVersion(v)
		parts = append(parts, "ver="+fw.Hx(v)+":"+bit(isV[v]))
	}
	seenL := map[scanLeaf]bool{}
	for _, lf := range leaves {
		if seenL[lf] || !isV[lf.l] || !isV[lf.r] || lf.op == "markerOpEqualEqualEqual" {
			continue
		}
		seenL[lf] = true
		ql, ok1 := quoteLit(lf.l)
		qr, ok2 := quoteLit(lf.r)
		if !ok1 || !ok2 {
			continue
		}
		res := "e"
		func() {
			defer func() {
				if recover() != nil {
					res = "p"
				}
			}()
			v, err := rpypi.VerifEvalMarker(ql+" "+opText(lf.op)+" "+qr, nil)
			if err == nil {
				res = bit(v)
			}
		}()
		parts = append(parts, "leaf="+fw.Hx(lf.l)+":"+lf.op+":"+fw.Hx(lf.r)+":"+res)
	}
	return strings.Join(parts, " ")
}

func hxList(xs []string) string {
	hs := make([]string, len(xs))
	for i, x := range xs {
		hs[i] = fw.Hx(x)
	}
	return strings.Join(hs, ",")
}

func markerLine(kind, raw string, extras []string, ast *M) string {
	line := "C16 " + kind + " " + fw.Hx(raw) + " extras=" + hxList(extras)
	if ff := factFields(raw); ff != "" {
		line += " " + ff
	}
	if ast != nil {
		line += " ast=" + fw.Hx(encodeAST(ast))
	}
	return line
}

// ---------------------------------------------------------------- oracles

func decodeM(h string) (*M, error) {
	var m M
	if err := json.Unmarshal([]byte(fw.Unhx(h)), &m); err != nil {
		return nil, err
	}
	return &m, nil
}

func decodeReq(h string) (*Req, error) {
	var r Req
	if err := json.Unmarshal([]byte(fw.Unhx(h)), &r); err != nil {
		return nil, err
	}
	return &r, nil
}

func eqStrSlices(a, b []string) bool {
	if len(a) != len(b) {
		return false
	}
	for i := range a {
		if a[i] != b[i] {
			return false
		}
	}
	return true
}

func recheck(oracle string, ops, res []string) (bool, string) {
	for _, r := range res {
		if r == "panic" || r == "timeout" || r == "bad-op" {
			return true, "op result " + r
		}
	}
	f := make([][]string, len(ops))
	for i, o := range ops {
		f[i] = strings.Fields(o)[1:]
	}
	switch oracle {
	case "nopanic":
		return false, ""
	case "name-idem":
		// ops: pname X ; pname canon(X), for X over [A-Za-z0-9._-]
		if len(ops) != 2 || f[0][0] != "pname" || f[1][0] != "pname" {
			return true, "malformed oracle instance"
		}
		if !nameAlphabetRe.MatchString(fw.Unhx(f[0][1])) {
			return false, ""
		}
		if res[0] != "ok "+f[1][1] {
			return true, "second op is not applied to the first result"
		}
		if res[1] != res[0] {
			return true, fmt.Sprintf("canon(canon(%q)) = %s but canon = %s", fw.Unhx(f[0][1]), res[1], res[0])
		}
		return false, ""
	case "name-ref":
		x := fw.Unhx(f[0][1])
		if f[0][0] != "pname" || !nameAlphabetRe.MatchString(x) {
			return false, ""
		}
		want := "ok " + fw.Hx(refNormalize(x))
		if res[0] != want {
			return true, fmt.Sprintf("CanonPackageName(%q) = %s, packaging normalisation gives %s", x, res[0], want)
		}
		return false, ""
	case "dep-ref":
		if f[0][0] != "dep508" {
			return true, "malformed oracle instance"
		}
		ah, ok := field(f[0], "ast")
		if !ok {
			return true, "dep-ref needs ast="
		}
		a, err := decodeReq(ah)
		if err != nil {
			return true, "bad ast: " + err.Error()
		}
		s := fw.Unhx(f[0][1])
		if a.render() != s {
			return true, "ast does not render to the op's string (harness bug)"
		}
		rf := strings.Fields(res[0])
		if rf[0] != "ok" {
			return true, fmt.Sprintf("valid requirement %q rejected", s)
		}
		get := func(k string) string { v, _ := field(rf, k); return fw.Unhx(v) }
		var bad []string
		if get("name") != refNormalize(a.Name) {
			bad = append(bad, fmt.Sprintf("name %q want %q", get("name"), refNormalize(a.Name)))
		}
		if !eqStrSlices(sortedSet(splitTrim(get("extras"))), sortedSet(a.Extras)) {
			bad = append(bad, fmt.Sprintf("extras %q want %v", get("extras"), sortedSet(a.Extras)))
		}
		var wantSpecs []string
		for _, sp := range a.Specs {
			wantSpecs = append(wantSpecs, sp[0]+sp[1])
		}
		if !eqStrSlices(specSet(get("constraint")), sortedSet(wantSpecs)) {
			bad = append(bad, fmt.Sprintf("specifier %q want %v", get("constraint"), sortedSet(wantSpecs)))
		}
		wantEnv := ""
		if a.Marker != nil {
			wantEnv = strings.Trim(a.Marker.render(), wsChars)
		}
		if get("env") != wantEnv {
			bad = append(bad, fmt.Sprintf("marker text %q want %q", get("env"), wantEnv))
		}
		if len(bad) > 0 {
			return true, fmt.Sprintf("%q: %s", s, strings.Join(bad, "; "))
		}
		return false, ""
	case "marker-ref":
		if f[0][0] != "marker" && f[0][0] != "resolve" {
			return true, "malformed oracle instance"
		}
		ah, ok := field(f[0], "ast")
		if !ok {
			return true, "marker-ref needs ast="
		}
		m, err := decodeM(ah)
		if err != nil {
			return true, "bad ast: " + err.Error()
		}
		raw := fw.Unhx(f[0][1])
		if !m.wellFormed() || strings.Trim(raw, wsChars) != strings.Trim(m.render(), wsChars) {
			return true, "ast does not render to the op's marker (harness bug)"
		}
		_, extras, ok := parseExtras(f[0][2])
		if !ok {
			return true, "bad extras"
		}
		want := map[tri]string{triFalse: "ok 0", triTrue: "ok 1", triErr: "err"}[refEval(m, refEnv(), extras)]
		if res[0] != want {
			return true, fmt.Sprintf("marker %q extras %v: library %q, packaging semantics %q", raw, extras, res[0], want)
		}
		return false, ""
	case "resolve-eq-marker":
		if len(ops) != 2 || f[0][0] != "marker" || f[1][0] != "resolve" || f[0][1] != f[1][1] || f[0][2] != f[1][2] {
			return true, "malformed oracle instance"
		}
		if res[0] != res[1] {
			return true, fmt.Sprintf("marker %q: Eval says %q, the resolver's guarded edge says %q", fw.Unhx(f[0][1]), res[0], res[1])
		}
		return false, ""
	case "universe-ref":
		if len(ops) != 1 {
			return true, "malformed oracle instance"
		}
		return recheckUniverseRef(f[0], res[0])
	case "universe-eq-single":
		return recheckUniverseSingles(f, res)
	}
	return true, "unknown oracle " + oracle
}

// leaf classes = negated hypotheses of the partial marker theorem
// (Props/C16.lean: LeafInScope). Decidable on the leaf alone (given the fixed
// environment); see props/C16.known.json for the findings.
func leafClass(m *M, env map[string]string) string {
	if m.Var == "extra" {
		if m.Op != "==" {
			return "F-C16-extra-op"
		}
		return ""
	}
	l, r, ok := leafOperands(m, env, "")
	if !ok {
		return ""
	}
	lv, lIsV := refParseVersion(l)
	rv, rIsV := refParseVersion(r)
	wild := func(s string) bool { return strings.HasSuffix(s, ".*") }
	blank := func(s string) bool { return strings.Trim(s, " \t\n\r\f\v") != s }
	switch {
	case (lIsV && blank(l)) || (blank(r) && (rIsV || validWithBlanks(m.Op, r))):
		return "F-C16-blank-literal"
	case (lIsV && lv.hasLoc) || (rIsV && rv.hasLoc):
		return "F-C16-local-version"
	case lIsV && lv.epoch != 0:
		return "F-C16-epoch-lhs"
	case (lIsV && strings.Contains(l, "_")) || (rIsV && strings.Contains(r, "_")):
		return "F-C16-underscore-sep"
	}
	switch {
	case (m.Op == "in" || m.Op == "not in") && lIsV && rIsV:
		return "F-C16-in"
	case m.Op == "===":
		if !tripleEqPlain(l, r) {
			return "F-C16-eqeqeq-case"
		}
		return ""
	case wild(l), wild(r) && m.Op != "==" && m.Op != "!=":
		return "F-C16-wild-ordered"
	}
	if _, valid := refSpecifier(m.Op, r); valid && !lIsV {
		return "F-C16-legacy-rhs"
	}
	if lIsV {
		pv, _ := refParseVersion(l)
		if pv.isPre() {
			return "F-C16-pre-lhs"
		}
		if pv.isPost() && m.Op == "!=" {
			return "F-C16-post-lhs-ne"
		}
	}
	return ""
}

// validWithBlanks: the right operand is only a valid Specifier text because
// packaging strips the blanks around it.
func validWithBlanks(op, r string) bool {
	_, ok := refSpecifier(op, r)
	return ok
}

func isPlainWord(s string) bool {
	if s == "" {
		return false
	}
	for i := 0; i < len(s); i++ {
		c := s[i]
		if !(c >= 'a' && c <= 'z' || c >= 'A' && c <= 'Z' || c == '_') {
			return false
		}
	}
	return true
}

// tripleEqPlain: the shape on which raw string equality and packaging's
// arbitrary equality (case-insensitive, version lhs normalised) coincide.
func tripleEqPlain(l, r string) bool {
	if !isPlainWord(l) {
		return false
	}
	return l == r || (isPlainWord(r) && strings.ToLower(l) != strings.ToLower(r))
}

var classOrder = []string{"F-C16-blank-literal", "F-C16-local-version", "F-C16-epoch-lhs", "F-C16-underscore-sep", "F-C16-in", "F-C16-extra-op", "F-C16-eqeqeq-case", "F-C16-wild-ordered", "F-C16-legacy-rhs", "F-C16-pre-lhs", "F-C16-post-lhs-ne", "F-C16-extra-multi"}

func markerClasses(m *M, env map[string]string, extras []string) map[string]bool {
	out := map[string]bool{}
	nExtra := map[string]bool{}
	m.leaves(func(l *M) {
		if c := leafClass(l, env); c != "" {
			out[c] = true
		}
		if l.Var == "extra" {
			nExtra[l.Lit] = true
		}
	})
	// pip evaluates once per requested extra and takes any(); the library looks
	// every extra leaf up in the set of requested extras. They differ only when
	// two different extras are requested and the marker mentions two different
	// extra literals (or "" is among the requested extras).
	if len(extras) > 1 && len(nExtra) > 1 {
		out["F-C16-extra-multi"] = true
	}
	return out
}

func classify(oracle string, ops, res []string) string {
	if oracle != "marker-ref" {
		return ""
	}
	f := strings.Fields(ops[0])[1:]
	ah, ok := field(f, "ast")
	if !ok {
		return ""
	}
	m, err := decodeM(ah)
	if err != nil {
		return ""
	}
	_, extras, _ := parseExtras(f[2])
	cs := markerClasses(m, refEnv(), extras)
	for _, c := range classOrder {
		if cs[c] {
			return c
		}
	}
	return ""
}

func main() {
	if len(os.Args) > 1 && os.Args[1] == "witness" {
		printWitnesses()
		return
	}
	fw.Main(&fw.Prop{
		ID: "C16",
		Rule: "requirement strings rendered from a PEP 508 AST (names with mixed case and -_. runs, extras lists, bare and parenthesised specifier lists, markers, arbitrary space/tab choices), " +
			"markers rendered from a grammar-stratified AST over all supported variables, all ten operators and per-variable literal pools (incl. re-spellings of the environment's versions and their neighbours with extra/fewer trailing zero release segments, plain and with .postN/.devN/aN/rcN/.*, enumerated exhaustively as single comparisons on either side of every operator), each with an extras set; plus byte-mutated and token-exhaustive malformed streams. " +
			"Resolver observation point: single guarded edge on a fresh resolver (resolve), and universes (probe universe) of 3-10 guarded requirements whose markers are near-identical variants of one base drawn from the environment values " +
			"(white space inside/outside quoted literals, quote style, case inside literals, operand order, operator neighbour, redundant/moved parentheses, keyword swap, a quote that swallows a keyword), a second family added while all class-free variants have one reference truth value; placed in one requirement list or over 2-3 roots (own extras each) resolved in sequence on the one resolver; every edge checked against the reference and against the same marker on a fresh resolver. " +
			"Non-trivial = distinct input accepted by the parser under test (dep508 ok / marker ok) resp. a universe whose class-free markers have different reference truth values.",
		Exec:     execOp,
		Run:      run,
		Recheck:  recheck,
		Classify: classify,
		Gens:     []fw.Generator{{Name: "C16PypiEnv", Fn: genPypiEnv}},
	})
}

func sortedKeys(m map[string]bool) []string {
	out := make([]string, 0, len(m))
	for k := range m {
		out = append(out, k)
	}
	sort.Strings(out)
	return out
}
