package main

// Reference (spec) side of C16, independent of the code under verification:
//   - packaging.utils.canonicalize_name  = lower(re.sub("[-_.]+","-"))
//   - a requirement AST with PEP 508 whitespace choices and its rendering
//   - a marker AST, its rendering, and packaging 20.9/21.3's Marker.evaluate
//     over the library's fixed environment, combined over the requested extras
//     the way pip does (pkg_resources/req_install: any(evaluate({"extra": e}))
//     for e in extras or ("",)).

import (
	"encoding/json"
	"regexp"
	"sort"
	"strings"
)

var runRe = regexp.MustCompile(`[-_.]+`)

func refNormalize(name string) string {
	return strings.ToLower(runRe.ReplaceAllString(name, "-"))
}

var validNameRe = regexp.MustCompile(`^([A-Za-z0-9]|[A-Za-z0-9][A-Za-z0-9._-]*[A-Za-z0-9])$`)
var nameAlphabetRe = regexp.MustCompile(`^[A-Za-z0-9._-]*$`)

// ---------------------------------------------------------------- markers

// M is the marker AST, stratified like the PEP 508 grammar:
//
//	or-level  : Or(and-level, or-level)   | and-level
//	and-level : And(expr-level, and-level) | expr-level
//	expr-level: Cmp | Paren(or-level)
//
// together with the whitespace choices of one concrete rendering.
type M struct {
	K string `json:"k"` // "cmp" | "paren" | "and" | "or"
	// cmp: Var Op Lit (Flip: the literal is on the left)
	Var  string `json:"v,omitempty"`
	Op   string `json:"o,omitempty"`
	Lit  string `json:"s,omitempty"`
	Q    string `json:"q,omitempty"` // quote character
	Flip bool   `json:"f,omitempty"`
	// whitespace: W0 before the node's first token, W1/W2 around the operator or
	// keyword (W1 before, W2 after), W3 = inside "not<W3>in" (>= 1) or before ")".
	W0 string `json:"w0,omitempty"`
	W1 string `json:"w1,omitempty"`
	W2 string `json:"w2,omitempty"`
	W3 string `json:"w3,omitempty"`
	L  *M     `json:"l,omitempty"`
	R  *M     `json:"r,omitempty"`
}

func (m *M) level() int { // 0 expr, 1 and, 2 or
	switch m.K {
	case "and":
		return 1
	case "or":
		return 2
	}
	return 0
}

// wellFormed: the stratification holds, so that the rendering parses back to
// this very tree under the PEP 508 grammar.
func (m *M) wellFormed() bool {
	switch m.K {
	case "cmp":
		if m.Op == "not in" && m.W3 == "" {
			return false
		}
		return (m.Q == "'" || m.Q == `"`) && !strings.Contains(m.Lit, m.Q)
	case "paren":
		return m.L != nil && m.L.wellFormed()
	case "and":
		return m.L != nil && m.R != nil && m.L.level() == 0 && m.R.level() <= 1 && m.L.wellFormed() && m.R.wellFormed()
	case "or":
		return m.L != nil && m.R != nil && m.L.level() <= 1 && m.L.wellFormed() && m.R.wellFormed()
	}
	return false
}

func (m *M) render() string {
	switch m.K {
	case "cmp":
		op := m.Op
		if op == "not in" {
			op = "not" + m.W3 + "in"
		}
		lit := m.Q + m.Lit + m.Q
		if m.Flip {
			return m.W0 + lit + m.W1 + op + m.W2 + m.Var
		}
		return m.W0 + m.Var + m.W1 + op + m.W2 + lit
	case "paren":
		return m.W0 + "(" + m.L.render() + m.W3 + ")"
	case "and":
		return m.L.render() + m.W1 + "and" + m.R.render()
	case "or":
		return m.L.render() + m.W1 + "or" + m.R.render()
	}
	return ""
}

func (m *M) leaves(f func(*M)) {
	switch m.K {
	case "cmp":
		f(m)
	case "paren":
		m.L.leaves(f)
	default:
		m.L.leaves(f)
		m.R.leaves(f)
	}
}

func encodeAST(v any) string {
	b, err := json.Marshal(v)
	if err != nil {
		panic(err)
	}
	return string(b)
}

type tri int // packaging's outcome: false, true, or an exception

const (
	triFalse tri = iota
	triTrue
	triErr
)

func triOf(b bool) tri {
	if b {
		return triTrue
	}
	return triFalse
}

// refEvalOp is markers._eval_op(lhs, op, rhs).
func refEvalOp(lhs, op, rhs string) tri {
	if spec, ok := refSpecifier(op, rhs); ok {
		return triOf(spec.contains(lhs))
	}
	switch op {
	case "in":
		return triOf(strings.Contains(rhs, lhs))
	case "not in":
		return triOf(!strings.Contains(rhs, lhs))
	case "<":
		return triOf(lhs < rhs)
	case "<=":
		return triOf(lhs <= rhs)
	case "==":
		return triOf(lhs == rhs)
	case "!=":
		return triOf(lhs != rhs)
	case ">=":
		return triOf(lhs >= rhs)
	case ">":
		return triOf(lhs > rhs)
	}
	return triErr // UndefinedComparison ("~=", "===" without a valid specifier)
}

// leafOperands gives (lhs, rhs) after environment substitution.
func leafOperands(m *M, env map[string]string, extra string) (string, string, bool) {
	val, ok := env[m.Var]
	if m.Var == "extra" {
		val, ok = extra, true
	}
	if !ok {
		return "", "", false // UndefinedEnvironmentName
	}
	if m.Flip {
		return m.Lit, val, true
	}
	return val, m.Lit, true
}

// refEval1 is Marker.evaluate({"extra": extra}) over env: every leaf is
// evaluated (no short circuit), any exception propagates.
func refEval1(m *M, env map[string]string, extra string) tri {
	switch m.K {
	case "cmp":
		l, r, ok := leafOperands(m, env, extra)
		if !ok {
			return triErr
		}
		return refEvalOp(l, m.Op, r)
	case "paren":
		return refEval1(m.L, env, extra)
	}
	a, b := refEval1(m.L, env, extra), refEval1(m.R, env, extra)
	if a == triErr || b == triErr {
		return triErr
	}
	if m.K == "and" {
		return triOf(a == triTrue && b == triTrue)
	}
	return triOf(a == triTrue || b == triTrue)
}

// refEval: pip follows the dependency iff any(evaluate(extra=e) for e in extras
// or ("",)).
func refEval(m *M, env map[string]string, extras []string) tri {
	if len(extras) == 0 {
		extras = []string{""}
	}
	out := triFalse
	for _, e := range extras {
		switch refEval1(m, env, e) {
		case triErr:
			return triErr
		case triTrue:
			out = triTrue
		}
	}
	return out
}

// ---------------------------------------------------------------- requirements

// Req is the requirement AST with the whitespace choices of one rendering.
type Req struct {
	Name      string      `json:"n"`
	HasExtras bool        `json:"he,omitempty"`
	Extras    []string    `json:"e,omitempty"`
	Specs     [][2]string `json:"s,omitempty"` // (operator, version)
	Paren     bool        `json:"p,omitempty"`
	Marker    *M          `json:"m,omitempty"`
	// Whitespace choices. W[0] leading, W[1] after name, W[2] after "]",
	// W[3] after the specifier part, W[4] after ";", W[5] trailing.
	W [6]string `json:"w"`
	// EW[i] = ws before / after extra i (2 per extra; one entry if the list is empty).
	EW []string `json:"ew,omitempty"`
	// SW[i] = ws before operator, between operator and version, after version.
	SW []string `json:"sw,omitempty"`
}

func (r *Req) extrasInner() string {
	if len(r.Extras) == 0 {
		if len(r.EW) > 0 {
			return r.EW[0]
		}
		return ""
	}
	var parts []string
	for i, e := range r.Extras {
		parts = append(parts, r.EW[2*i]+e+r.EW[2*i+1])
	}
	return strings.Join(parts, ",")
}

func (r *Req) specsInner() string {
	var parts []string
	for i, s := range r.Specs {
		parts = append(parts, r.SW[3*i]+s[0]+r.SW[3*i+1]+s[1]+r.SW[3*i+2])
	}
	return strings.Join(parts, ",")
}

func (r *Req) render() string {
	s := r.W[0] + r.Name + r.W[1]
	if r.HasExtras {
		s += "[" + r.extrasInner() + "]" + r.W[2]
	}
	if len(r.Specs) > 0 {
		if r.Paren {
			s += "(" + r.specsInner() + ")"
		} else {
			s += r.specsInner()
		}
		s += r.W[3]
	}
	if r.Marker != nil {
		s += ";" + r.W[4] + r.Marker.render()
	}
	return s + r.W[5]
}

const wsChars = " \t"

func splitTrim(s string) []string {
	var out []string
	for _, p := range strings.Split(s, ",") {
		p = strings.Trim(p, wsChars)
		if p != "" {
			out = append(out, p)
		}
	}
	return out
}

func sortedSet(xs []string) []string {
	m := map[string]bool{}
	for _, x := range xs {
		m[x] = true
	}
	out := make([]string, 0, len(m))
	for x := range m {
		out = append(out, x)
	}
	sort.Strings(out)
	return out
}

// specSet canonicalises a specifier list text to a sorted set of op+version
// with the optional whitespace between operator and version removed.
func specSet(s string) []string {
	var out []string
	for _, p := range splitTrim(s) {
		i := 0
		for i < len(p) && strings.IndexByte("<>=!~", p[i]) >= 0 {
			i++
		}
		out = append(out, p[:i]+strings.Trim(p[i:], wsChars))
	}
	return sortedSet(out)
}
