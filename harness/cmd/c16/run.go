package main

import (
	"bufio"
	"encoding/json"
	"fmt"
	"math/rand"
	"os"
	"os/exec"
	"path/filepath"
	"strings"
	"sync"
	"time"

	"verifharness/fw"
)

func pick(r *rand.Rand, xs ...string) string { return xs[r.Intn(len(xs))] }

func ws(r *rand.Rand) string  { return pick(r, "", "", "", " ", " ", "  ", "\t", " \t", "\t ") }
func ws1(r *rand.Rand) string { return pick(r, " ", " ", "  ", "\t", " \t") }

const alnum = "abcdefghijklmnopqrstuvwxyzABCDEFGHIJKLMNOPQRSTUVWXYZ0123456789"

// genName: a PEP 508 identifier (starts and ends alphanumeric) with mixed case
// and runs of - _ .
func genName(r *rand.Rand) string {
	if r.Intn(6) == 0 {
		return pick(r, "foo", "Foo_Bar", "a.b-c", "A--b__c..d", "x1", "zope.interface", "P", "ruamel.yaml", "Django", "typing_extensions", "a-._b")
	}
	var b strings.Builder
	n := 1 + r.Intn(4)
	for i := 0; i < n; i++ {
		if i > 0 {
			k := 1
			if r.Intn(3) == 0 {
				k = 2 + r.Intn(2)
			}
			for j := 0; j < k; j++ {
				b.WriteByte("-_."[r.Intn(3)])
			}
		}
		k := 1 + r.Intn(4)
		for j := 0; j < k; j++ {
			b.WriteByte(alnum[r.Intn(len(alnum))])
		}
	}
	return b.String()
}

var reqVersions = []string{"1.0", "2", "1.2.3", "2.0rc1", "1.0.post1", "0.1.dev3", "1!2.0", "1.0+local.1", "3.9", "2023.1.1", "1.0a1", "0"}
var reqOps = []string{"==", "!=", "<=", ">=", "<", ">", "~=", "==="}

func genReq(r *rand.Rand) *Req {
	q := &Req{Name: genName(r)}
	for i := range q.W {
		q.W[i] = ws(r)
	}
	if r.Intn(3) == 0 {
		q.HasExtras = true
		k := r.Intn(4)
		for i := 0; i < k; i++ {
			q.Extras = append(q.Extras, pick(r, "e1", "E2", "x_y", "test", "dev.tools", "a-b", "Z"))
			q.EW = append(q.EW, ws(r), ws(r))
		}
		if k == 0 {
			q.EW = []string{ws(r)}
		}
	}
	if r.Intn(3) > 0 {
		n := 1 + r.Intn(3)
		for i := 0; i < n; i++ {
			op := reqOps[r.Intn(len(reqOps))]
			v := reqVersions[r.Intn(len(reqVersions))]
			switch {
			case (op == "==" || op == "!=") && r.Intn(4) == 0:
				v = pick(r, "1.*", "2.1.*", "1!3.*")
			case op == "~=":
				v = pick(r, "1.0", "1.2.3", "2.0rc1", "1.0.post1", "3.9")
			case op != "==" && op != "!=" && op != "===" && strings.Contains(v, "+"):
				v = "1.0"
			}
			q.Specs = append(q.Specs, [2]string{op, v})
			q.SW = append(q.SW, ws(r), ws(r), ws(r))
		}
		q.Paren = r.Intn(3) == 0
	}
	if r.Intn(3) == 0 {
		q.Marker = genMarker(r, 2, 2)
	}
	return q
}

// ---------------------------------------------------------------- markers

var platformVars = []string{"python_version", "python_full_version", "os_name", "sys_platform", "platform_machine",
	"platform_python_implementation", "implementation_name", "platform_system", "implementation_version",
	"platform_release", "platform_version"}
var allOps = []string{"==", "!=", "<", "<=", ">", ">=", "~=", "===", "in", "not in"}

var (
	litsVersion = []string{"3.9", "3.8", "3.10", "2.7", "3", "3.9.6", "3.9.6rc1", "3.9.*", "3.9.0", "3.9.7", "4", "3.9.6.post1", "3.9.dev1", "3.*", "abc", "3.9.5", "3.10.0a1"}
	// alternative PEP 440 spellings of versions (packaging normalises all of them)
	litsAltVersion = []string{"v3.9", "V3.9", "v3.0", "v3.8", "v3.10", "0!3.9", "1!3.9", "3.9.0", "3.9.6.0", "3.09", "03.9", "3.9rc1", "3.9.6c1", "3.9.post1", "3.9-1", "3.9.6-1", "3.9.dev0", "3.9.6.dev0", " 3.9", "3.9 ", " 3.9.6 ", "3.9.6.RC1", "3.9.6_rc1", "3.9.6.post0", "3.9.6.rev1", "3.9.6a", "3.10.0.alpha1", "3.9.6-rc.1", "v3.9.*", "3.9.6+local"}
	litsRelease    = []string{"6.9.10-1rodete5-amd64", "6.9.10", "5", "6", "amd64", "rodete", "7.0", "6.9.10-1"}
	litsPlatVer    = []string{"SMP", "Debian", "#1", "Ubuntu", "6.9.10", "#1 SMP PREEMPT_DYNAMIC Debian 6.9.10-1rodete5 (2024-09-04)"}
	litsString     = []string{"linux", "posix", "x86_64", "cpython", "CPython", "Linux", "win32", "nt", "lin", "3.9", "6.9.10", "linux2", "LINUX", "java", "darwin", "x86", "Lin", "cpython3", "a b"}
	litsAny        = []string{"v3.9", "3.9.0", "0!3.9", "3.9", "linux", "1.0", "x", "3.9.*", "a'b", "Linux", "posix", "3.9rc1", "a;b", "x]y[", "(z)", "1,2", ";", "<=>!~"}
	litsExtra      = []string{"x", "test", "y", "X", "dev"}
)

// paddedVersionLits: re-spellings of the environment's version values and of their
// neighbours with extra or fewer trailing zero release segments (3.9 / 3.9.0 / 3.9.0.0,
// 3.9.6.0, 3.9.6.0.0, 3 / 3.0 / 3.0.0), each plain and with .postN, .devN, aN, rcN and
// the wildcard: the zero-padding of release segments in every branch of the PEP 440
// comparison rules (post-release exclusion for >, pre-release exclusion for <, prefix
// matching for == V.* and ~=), where the literal has more or fewer release segments
// than the value it is compared with.
var paddedVersionLits = func() func() []string {
	var once sync.Once
	var out []string
	return func() []string {
		once.Do(func() {
			seen := map[string]bool{}
			var cores [][]int
			addCore := func(rel []int) {
				for len(rel) > 1 && rel[len(rel)-1] == 0 {
					rel = rel[:len(rel)-1]
				}
				k := fmt.Sprint(rel)
				if !seen[k] {
					seen[k] = true
					cores = append(cores, append([]int{}, rel...))
				}
			}
			env := refEnv()
			for _, v := range platformVars {
				pv, ok := refParseVersion(env[v])
				if !ok || pv.pre != nil || pv.post != nil || pv.dev != nil || pv.hasLoc || pv.epoch != 0 {
					continue
				}
				rel := pv.release
				addCore(rel)
				addCore(rel[:1])
				last := len(rel) - 1
				up := append([]int{}, rel...)
				up[last]++
				addCore(up)
				if rel[last] > 0 {
					down := append([]int{}, rel...)
					down[last]--
					addCore(down)
				}
			}
			for _, core := range cores {
				var parts []string
				for _, n := range core {
					parts = append(parts, fmt.Sprint(n))
				}
				base := strings.Join(parts, ".")
				for _, pad := range []string{"", ".0", ".0.0"} {
					for _, suf := range []string{"", ".post0", ".post1", ".dev1", "a1", "rc1", ".*"} {
						out = append(out, base+pad+suf)
					}
				}
			}
		})
		return out
	}
}()

func genLeaf(r *rand.Rand) *M {
	m := &M{K: "cmp", W0: ws(r), W1: ws(r), W2: ws(r), Q: pick(r, "'", `"`)}
	if r.Intn(8) == 0 {
		m.Var = "extra"
		m.Op = "=="
		if r.Intn(8) == 0 {
			m.Op = allOps[r.Intn(len(allOps))]
		}
		m.Lit = pick(r, litsExtra...)
	} else {
		m.Var = platformVars[r.Intn(len(platformVars))]
		m.Op = allOps[r.Intn(len(allOps))]
		switch m.Var {
		case "python_version", "python_full_version", "implementation_version":
			m.Lit = pick(r, litsVersion...)
			if r.Intn(4) == 0 {
				m.Lit = pick(r, litsAltVersion...)
			}
			if r.Intn(5) == 0 { // zero-padded re-spellings of the environment's versions
				m.Lit = pick(r, paddedVersionLits()...)
			}
		case "platform_release":
			m.Lit = pick(r, litsRelease...)
		case "platform_version":
			m.Lit = pick(r, litsPlatVer...)
		default:
			m.Lit = pick(r, litsString...)
		}
		if r.Intn(12) == 0 { // any literal with any variable
			m.Lit = pick(r, litsAny...)
		}
	}
	if strings.Contains(m.Lit, m.Q) {
		if m.Q == "'" {
			m.Q = `"`
		} else {
			m.Q = "'"
		}
	}
	if m.Op == "not in" {
		m.W3 = ws1(r)
	}
	m.Flip = r.Intn(5) == 0
	// PEP 508: "in"/"not" directly after a variable name or before one need a
	// separator to be a separate token for every tool; keep both forms but make
	// the tight form rare.
	if (m.Op == "in" || m.Op == "not in") && r.Intn(6) != 0 {
		if m.W1 == "" {
			m.W1 = " "
		}
		if m.W2 == "" {
			m.W2 = " "
		}
	}
	return m
}

// genMarker builds a tree of the given maximal grammar level (0 expr, 1 and, 2 or).
func genMarker(r *rand.Rand, level, depth int) *M {
	if level == 2 && depth > 0 && r.Intn(3) == 0 {
		return &M{K: "or", L: genMarker(r, 1, depth-1), W1: ws(r), R: genMarker(r, 2, depth-1)}
	}
	if level >= 1 && depth > 0 && r.Intn(3) == 0 {
		return &M{K: "and", L: genMarker(r, 0, depth-1), W1: ws(r), R: genMarker(r, 1, depth-1)}
	}
	if depth > 0 && r.Intn(4) == 0 {
		return &M{K: "paren", W0: ws(r), L: genMarker(r, 2, depth-1), W3: ws(r)}
	}
	return genLeaf(r)
}

func genExtras(r *rand.Rand) []string {
	switch r.Intn(6) {
	case 0, 1, 2:
		return nil
	case 3:
		return []string{pick(r, "x", "test", "y")}
	case 4:
		return []string{"x", "test"}
	}
	return []string{pick(r, "X", "dev", "other")}
}

// ---------------------------------------------------------------- malformed

func mutate(r *rand.Rand, s string) string {
	b := []byte(s)
	n := 1 + r.Intn(3)
	const inject = " \t[]();,<>=!~'\"*.-_aA1@#\x00\x80\xff\n"
	for i := 0; i < n; i++ {
		switch k := r.Intn(5); {
		case k == 0 && len(b) > 0: // delete
			p := r.Intn(len(b))
			b = append(b[:p], b[p+1:]...)
		case k == 1: // insert
			p := r.Intn(len(b) + 1)
			b = append(b[:p], append([]byte{inject[r.Intn(len(inject))]}, b[p:]...)...)
		case k == 2 && len(b) > 0: // replace
			b[r.Intn(len(b))] = inject[r.Intn(len(inject))]
		case k == 3 && len(b) > 0: // truncate
			b = b[:r.Intn(len(b))]
		case k == 4 && len(b) > 1: // duplicate a slice
			p := r.Intn(len(b))
			q := p + r.Intn(len(b)-p)
			b = append(b[:q], append(append([]byte{}, b[p:q]...), b[q:]...)...)
		}
	}
	return string(b)
}

func tokenStrings(tokens []string, k int, f func(string)) {
	var rec func(prefix string, d int)
	rec = func(prefix string, d int) {
		f(prefix)
		if d == k {
			return
		}
		for _, t := range tokens {
			rec(prefix+t, d+1)
		}
	}
	rec("", 0)
}

// Known parser quirks of packaging <= 21 relative to the PEP 508 grammar.
func markerQuirk(m *M) string {
	q := ""
	if m == nil {
		return q
	}
	env := refEnv()
	m.leaves(func(l *M) {
		if _, r, ok := leafOperands(l, env, ""); ok && prefixQuirk(l.Op, r) {
			q = "prefix-match-on-raw-text"
		}
		if l.Op == "not in" && l.W3 != " " {
			q = "not-in-spacing"
		}
	})
	return q
}

func reqQuirk(a *Req, s string) string {
	for i := 0; i+3 <= len(s); i++ {
		if s[i:i+3] != "===" {
			continue
		}
		j := i + 3
		for j < len(s) && (s[j] == ' ' || s[j] == '\t') {
			j++
		}
		for j < len(s) && s[j] != ' ' && s[j] != '\t' {
			if strings.IndexByte(",);", s[j]) >= 0 {
				return "eqeqeq-greedy"
			}
			j++
		}
	}
	return markerQuirk(a.Marker)
}

// ---------------------------------------------------------------- run

type pyQuery struct {
	quirk string // non-empty: a known parser quirk of packaging <= 21 applies to this text
	q     map[string]any
	want  map[string]any // what the harness's reference says
	desc  string
}

func run(c *fw.Ctx) {
	r := c.Rng
	env := refEnv()
	var py []pyQuery
	// The framework keeps at most 200 failures and stops recording unclassified ones once
	// the list is full, so failures in catalogued classes are handed to it only up to a
	// small quota per class; the rest are evaluated here and tallied.
	classSeen := map[string]int{}
	checkMarker := func(i int, line, res string) {
		bad, _ := recheck("marker-ref", []string{line}, []string{res})
		if !bad {
			c.Tally(1)
			return
		}
		cls := classify("marker-ref", []string{line}, []string{res})
		if cls != "" && classSeen[cls] >= 10 {
			c.Tally(1)
			c.Count("known-class-beyond-quota:" + cls)
			return
		}
		classSeen[cls]++
		c.Check("marker-ref", i)
	}

	// --- names
	nameCheck := func(x string) {
		i, res := c.Opf("C16 pname %s", fw.Hx(x))
		c.Count("pname")
		if !nameAlphabetRe.MatchString(x) {
			c.Check("nopanic", i)
			return
		}
		c.Check("name-ref", i)
		if strings.HasPrefix(res, "ok ") {
			j, _ := c.Opf("C16 pname %s", res[3:])
			c.Check("name-idem", i, j)
			c.Nontrivial("n:" + x)
		}
	}
	tokenStrings([]string{"a", "B", "7", "-", "_", "."}, c.N(4, 6), nameCheck)
	for n := c.N(3000, 100000); n > 0; n-- {
		x := genName(r)
		if r.Intn(4) == 0 { // any string over the alphabet, including leading/trailing runs
			b := make([]byte, r.Intn(10))
			for i := range b {
				b[i] = "aZ09-_.-_."[r.Intn(10)]
			}
			x = string(b)
		}
		nameCheck(x)
		if len(py) < 400 && validNameRe.MatchString(x) {
			py = append(py, pyQuery{q: map[string]any{"k": "name", "s": x}, want: map[string]any{"name": refNormalize(x)}, desc: "name " + x})
		}
	}
	for n := c.N(1000, 20000); n > 0; n-- { // arbitrary bytes: totality + correspondence
		nameCheck(mutate(r, genName(r)))
	}

	// --- requirement strings
	for n := c.N(6000, 200000); n > 0; n-- {
		a := genReq(r)
		s := a.render()
		i, res := c.Opf("C16 dep508 %s ast=%s", fw.Hx(s), fw.Hx(encodeAST(a)))
		c.Check("dep-ref", i)
		c.Count("dep508:" + strings.Fields(res)[0])
		shape := fmt.Sprintf("req:extras=%v,specs=%d,paren=%v,marker=%v", a.HasExtras, len(a.Specs), a.Paren, a.Marker != nil)
		c.Count(shape)
		if strings.HasPrefix(res, "ok") {
			c.Nontrivial("r:" + s)
		}
		if n%500 == 0 {
			c.Sample(fmt.Sprintf("dep508 %q -> %s", s, res))
		}
		if len(py) < 400+c.N(2500, 20000) {
			var wantSpecs []string
			for _, sp := range a.Specs {
				wantSpecs = append(wantSpecs, sp[0]+sp[1])
			}
			var mtext any
			if a.Marker != nil {
				mtext = a.Marker.render()
			}
			py = append(py, pyQuery{quirk: reqQuirk(a, s), q: map[string]any{"k": "req", "s": s, "mtext": mtext},
				want: map[string]any{"name": refNormalize(a.Name), "extras": sortedSet(a.Extras), "specs": sortedSet(wantSpecs), "marker": a.Marker != nil},
				desc: "req " + s})
		}
		// malformed neighbour: correspondence and totality only
		if n%2 == 0 {
			j, res2 := c.Opf("C16 dep508 %s", fw.Hx(mutate(r, s)))
			c.Check("nopanic", j)
			c.Count("dep508-malformed:" + strings.Fields(res2)[0])
		}
	}
	tokenStrings([]string{"a", " ", "[", "]", "(", ")", ";", ">=1", ","}, c.N(4, 6), func(s string) {
		j, res := c.Opf("C16 dep508 %s", fw.Hx(s))
		c.Check("nopanic", j)
		c.Count("dep508-exhaustive:" + strings.Fields(res)[0])
	})

	// --- markers
	nResolve := c.N(400, 5000)
	nPyMarkers := c.N(3000, 30000)
	inside := 0
	total := 0
	for n := c.N(5000, 150000); n > 0; n-- {
		m := genMarker(r, 2, 3)
		extras := genExtras(r)
		raw := m.render() + ws(r)
		line := markerLine("marker", raw, extras, m)
		i, res := c.Op(line)
		checkMarker(i, line, res)
		c.Count("marker:" + res)
		total++
		cls := markerClasses(m, env, extras)
		if len(cls) == 0 {
			inside++
			c.Count("marker:inside-partial-hypotheses")
		}
		for _, k := range sortedKeys(cls) {
			c.Count("marker-class:" + k)
		}
		m.leaves(func(l *M) { c.Count("leaf-op:" + l.Op) })
		if strings.HasPrefix(res, "ok") {
			c.Nontrivial("m:" + raw + "|" + strings.Join(extras, ","))
		}
		if n%600 == 0 {
			c.Sample(fmt.Sprintf("marker %q extras=%v -> %s", raw, extras, res))
		}
		if nResolve > 0 {
			nResolve--
			j, _ := c.Op(markerLine("resolve", raw, extras, nil))
			c.Check("resolve-eq-marker", i, j)
			c.Count("resolve")
		}
		if nPyMarkers > 0 {
			nPyMarkers--
			want := map[tri]string{triFalse: "F", triTrue: "T", triErr: "ERR"}[refEval(m, env, extras)]
			py = append(py, pyQuery{quirk: markerQuirk(m), q: map[string]any{"k": "marker", "s": raw, "extras": extras, "env": env}, want: map[string]any{"v": want}, desc: fmt.Sprintf("marker %q extras=%v", raw, extras)})
		}
		if n%3 == 0 { // malformed neighbour
			j, res2 := c.Op(markerLine("marker", mutate(r, raw), extras, nil))
			c.Check("nopanic", j)
			c.Count("marker-malformed:" + strings.Fields(res2)[0])
		}
	}
	// small-scope exhaustive: every variable x operator x literal x side as a single comparison
	allLits := sortedSet(append(append(append(append(append(append(append([]string{}, litsVersion...), litsAltVersion...), litsRelease...), litsPlatVer...), litsString...), litsAny...), litsExtra...))
	for _, v := range append(append([]string{}, platformVars...), "extra") {
		for _, op := range allOps {
			for _, lit := range allLits {
				for _, flip := range []bool{false, true} {
					m := &M{K: "cmp", Var: v, Op: op, Lit: lit, Q: "'", W1: " ", W2: " ", Flip: flip}
					if strings.Contains(lit, "'") {
						m.Q = `"`
					}
					if op == "not in" {
						m.W3 = " "
					}
					var extras []string
					if v == "extra" {
						extras = []string{"x"}
					}
					line := markerLine("marker", m.render(), extras, m)
					i, res := c.Op(line)
					checkMarker(i, line, res)
					c.Count("leaf-exhaustive:" + strings.Fields(res)[0])
					if len(markerClasses(m, env, extras)) == 0 {
						c.Count("leaf-exhaustive:inside-partial-hypotheses")
					}
				}
			}
		}
	}
	// the same for the zero-padded re-spellings, on the version-valued variables; a part of them
	// also through the resolver, and all of them to the packaging validation
	inAll := map[string]bool{}
	for _, l := range allLits {
		inAll[l] = true
	}
	nPyPadded := c.N(9000, 20000)
	for _, v := range platformVars {
		if _, isV := refParseVersion(env[v]); !isV {
			continue
		}
		for _, op := range allOps {
			for _, lit := range paddedVersionLits() {
				if inAll[lit] {
					continue
				}
				for _, flip := range []bool{false, true} {
					m := &M{K: "cmp", Var: v, Op: op, Lit: lit, Q: "'", W1: " ", W2: " ", Flip: flip}
					if op == "not in" {
						m.W3 = " "
					}
					raw := m.render()
					line := markerLine("marker", raw, nil, m)
					i, res := c.Op(line)
					checkMarker(i, line, res)
					c.Count("leaf-padded:" + strings.Fields(res)[0])
					if len(markerClasses(m, env, nil)) == 0 {
						c.Count("leaf-padded:inside-partial-hypotheses")
						c.Nontrivial("m:" + raw + "|")
					}
					if r.Intn(8) == 0 {
						j, _ := c.Op(markerLine("resolve", raw, nil, nil))
						c.Check("resolve-eq-marker", i, j)
						c.Count("resolve")
					}
					if nPyPadded > 0 && op != "in" && op != "not in" {
						nPyPadded--
						want := map[tri]string{triFalse: "F", triTrue: "T", triErr: "ERR"}[refEval(m, env, nil)]
						py = append(py, pyQuery{quirk: markerQuirk(m), q: map[string]any{"k": "marker", "s": raw, "extras": []string{}, "env": env}, want: map[string]any{"v": want}, desc: fmt.Sprintf("marker %q", raw)})
					}
				}
			}
		}
	}
	c.Note(fmt.Sprintf("markers inside the partial theorem's hypotheses: %d of %d", inside, total))
	tokenStrings([]string{"os_name", "'a'", "==", " in ", "not", " ", "and", "or", "(", ")", "extra", "python_version", "'3.9'", ">=", "~="}, c.N(4, 5), func(s string) {
		j, res := c.Op(markerLine("marker", s, []string{"a"}, nil))
		c.Check("nopanic", j)
		c.Count("marker-exhaustive:" + strings.Fields(res)[0])
	})

	// --- universes: several near-identical guarded requirements on ONE resolver
	nPyUniverse := c.N(1500, 10000)
	runUniverses(c, checkMarker, func(m *M, raw string, extras []string) {
		if nPyUniverse <= 0 {
			return
		}
		// packaging <= 21 parses with pyparsing, which expands tabs to column-dependent runs of
		// blanks before parsing (also inside quoted literals); the reference (PEP 508, packaging >= 22)
		// keeps the tab. Not a question the pinned packaging can answer: not sent.
		tab := false
		m.leaves(func(l *M) { tab = tab || strings.Contains(l.Lit, "\t") })
		if tab {
			c.Count("ref_validation:not-sent-tab-inside-literal")
			return
		}
		nPyUniverse--
		want := map[tri]string{triFalse: "F", triTrue: "T", triErr: "ERR"}[refEval(m, env, extras)]
		py = append(py, pyQuery{quirk: markerQuirk(m), q: map[string]any{"k": "marker", "s": raw, "extras": extras, "env": env}, want: map[string]any{"v": want}, desc: fmt.Sprintf("marker %q extras=%v", raw, extras)})
	})

	validateAgainstPackaging(c, py)
}

// validateAgainstPackaging compares the harness's reference semantics with the
// real packaging when it is installed. Evidence for the spec only: it never
// fails a check.
func validateAgainstPackaging(c *fw.Ctx, qs []pyQuery) {
	script := ""
	for _, cand := range []string{"refs/c16_packaging.py", "../refs/c16_packaging.py", "/verif/harness/refs/c16_packaging.py"} {
		if p, err := filepath.Abs(cand); err == nil {
			if _, err := os.Stat(p); err == nil {
				script = p
				break
			}
		}
	}
	py, err := exec.LookPath("python3")
	if script == "" || err != nil || len(qs) == 0 {
		c.Note("ref_validation: packaging adapter not available (python3 or refs/c16_packaging.py missing)")
		return
	}
	cmd := exec.Command(py, script)
	cmd.Env = append(os.Environ(), "PYTHONWARNINGS=ignore")
	stdin, _ := cmd.StdinPipe()
	stdout, _ := cmd.StdoutPipe()
	if err := cmd.Start(); err != nil {
		c.Note("ref_validation: cannot start python3: " + err.Error())
		return
	}
	done := make(chan struct{})
	go func() {
		w := bufio.NewWriter(stdin)
		for _, q := range qs {
			b, _ := json.Marshal(q.q)
			w.Write(b)
			w.WriteByte('\n')
		}
		w.Flush()
		stdin.Close()
		close(done)
	}()
	timer := time.AfterFunc(120*time.Second, func() { cmd.Process.Kill() })
	defer timer.Stop()
	sc := bufio.NewScanner(stdout)
	sc.Buffer(make([]byte, 1<<20), 1<<24)
	var first map[string]any
	if !sc.Scan() || json.Unmarshal(sc.Bytes(), &first) != nil || first["packaging"] == nil {
		c.Note("ref_validation: pip-vendored packaging not importable")
		cmd.Process.Kill()
		cmd.Wait()
		return
	}
	compared, disagree := 0, 0
	var examples []string
	cats := map[string]int{}
	note := func(q pyQuery, what string) {
		if q.quirk != "" && (strings.HasPrefix(what, "packaging rejects") || what == "marker text differs") {
			// PEP 508 allows it; packaging <= 21's pyparsing grammar does not
			// (literal "not in" with one space; "===" swallows up to whitespace).
			c.Count("ref_validation:skipped-" + q.quirk)
			return
		}
		disagree++
		cats[strings.SplitN(what, ":", 2)[0]]++
		if len(examples) < 8 || os.Getenv("VERIF_DEBUG") != "" {
			examples = append(examples, q.desc+": "+what)
		}
	}
	for k := 0; k < len(qs) && sc.Scan(); k++ {
		var got map[string]any
		if json.Unmarshal(sc.Bytes(), &got) != nil {
			break
		}
		q := qs[k]
		compared++
		switch q.q["k"] {
		case "name":
			if got["name"] != q.want["name"] {
				note(q, fmt.Sprintf("packaging %v, reference %v", got["name"], q.want["name"]))
			}
		case "req":
			if got["ok"] != true {
				note(q, "packaging rejects a string the generator considers valid")
				break
			}
			if got["name"] != q.want["name"] {
				note(q, fmt.Sprintf("name: packaging %v, reference %v", got["name"], q.want["name"]))
			}
			if fmt.Sprint(got["extras"]) != fmt.Sprint(q.want["extras"]) {
				note(q, fmt.Sprintf("extras: packaging %v, reference %v", got["extras"], q.want["extras"]))
			}
			if fmt.Sprint(got["specs"]) != fmt.Sprint(q.want["specs"]) {
				note(q, fmt.Sprintf("specs: packaging %v, reference %v", got["specs"], q.want["specs"]))
			}
			if (got["marker"] != nil) != q.want["marker"].(bool) {
				note(q, "marker presence differs")
			} else if got["marker"] != nil && got["marker_same"] != true {
				note(q, "marker text differs")
			}
		case "marker":
			g := fmt.Sprint(got["v"])
			if strings.HasPrefix(g, "ERR") {
				g = "ERR"
			}
			if g == "INVALID" {
				note(q, "packaging rejects a marker the generator considers valid")
			} else if g != q.want["v"] && q.quirk == "prefix-match-on-raw-text" {
				c.Count("ref_validation:skipped-" + q.quirk)
			} else if g != q.want["v"] {
				note(q, fmt.Sprintf("packaging %v, reference %v", got["v"], q.want["v"]))
			}
		}
	}
	<-done
	cmd.Wait()
	c.Count("ref_validation:compared")
	c.Note(fmt.Sprintf("ref_validation: packaging %v present; %d reference answers compared, %d disagreements %v %v", first["packaging"], compared, disagree, cats, examples))
}
