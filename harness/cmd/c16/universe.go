package main

// Universes of near-identical guarded requirements (third observation point of
// C16: presence of the guarded edge in pypi Resolver.Resolve output).
//
// The single-marker `resolve` op builds a fresh resolver for one marker, so it
// cannot see anything the resolver shares between markers: pypi.NewResolver owns
// resolver-wide caches keyed by text (parsed markers, …) that live across the
// requirements of one list and across Resolve calls. The op
//
//	probe universe (root=<csv hex extras> (g=<hex marker>[:<hex ast json>])+)+
//	        -> ok <r0>/<r1>/…    r_k = e (that Resolve failed) | one bit per guarded edge
//
// builds ONE universe root_k -> a_k[extras_k], a_k -> b_k_j guarded by marker
// k.j, ONE resolver, and resolves root_0, root_1, … in that order on it.
// It is Go-only (`probe`: the runner does not diff it against the Lean driver);
// the model's answer for each guarded edge is the single-marker `resolve` op of
// the same marker and extras, which IS diffed, and oracle universe-eq-single
// ties the two together (history independence of marker evaluation). Oracle
// universe-ref compares every guarded edge with the reference semantics.

import (
	"context"
	"fmt"
	"math/rand"
	"strings"
	"time"
	"unicode"

	"deps.dev/util/resolve"
	"deps.dev/util/resolve/dep"
	rpypi "deps.dev/util/resolve/pypi"

	"verifharness/fw"
)

type uReq struct {
	hexM string
	raw  string
	astH string // "" = none
}

type uRoot struct {
	csv    string // the hex csv of the extras, as in extras=<csv>
	extras []string
	reqs   []uReq
}

// parseUniverse reads the fields after "probe universe".
func parseUniverse(f []string) ([]uRoot, bool) {
	var roots []uRoot
	for _, x := range f {
		switch {
		case strings.HasPrefix(x, "root="):
			csv := x[len("root="):]
			_, list, ok := parseExtras("extras=" + csv)
			if !ok {
				return nil, false
			}
			roots = append(roots, uRoot{csv: csv, extras: list})
		case strings.HasPrefix(x, "g="):
			if len(roots) == 0 {
				return nil, false
			}
			parts := strings.Split(x[2:], ":")
			if len(parts) < 1 || len(parts) > 2 || parts[0] == "" {
				return nil, false
			}
			q := uReq{hexM: parts[0], raw: fw.Unhx(parts[0])}
			if len(parts) == 2 {
				q.astH = parts[1]
			}
			k := len(roots) - 1
			roots[k].reqs = append(roots[k].reqs, q)
		default:
			return nil, false
		}
	}
	if len(roots) == 0 {
		return nil, false
	}
	for _, rt := range roots {
		if len(rt.reqs) == 0 {
			return nil, false
		}
	}
	return roots, true
}

// execUniverse runs the real resolver: one LocalClient, one Resolver, one
// Resolve call per root in the order of the op line.
func execUniverse(roots []uRoot) string {
	lc := resolve.NewLocalClient()
	rootKey := func(k int) resolve.VersionKey { return vk(fmt.Sprintf("root%d", k), resolve.Concrete, "1.0") }
	aName := func(k int) string { return fmt.Sprintf("a%d", k) }
	bName := func(k, j int) string { return fmt.Sprintf("b%dx%d", k, j) }
	for k, rt := range roots {
		var t1 dep.Type
		if len(rt.extras) > 0 {
			t1.AddAttr(dep.EnabledDependencies, strings.Join(rt.extras, ","))
		}
		lc.AddVersion(resolve.Version{VersionKey: rootKey(k)}, []resolve.RequirementVersion{{VersionKey: vk(aName(k), resolve.Requirement, ""), Type: t1}})
		var reqs []resolve.RequirementVersion
		for j, q := range rt.reqs {
			var t2 dep.Type
			t2.AddAttr(dep.Environment, q.raw)
			reqs = append(reqs, resolve.RequirementVersion{VersionKey: vk(bName(k, j), resolve.Requirement, ""), Type: t2})
			lc.AddVersion(resolve.Version{VersionKey: vk(bName(k, j), resolve.Concrete, "1.0")}, nil)
		}
		lc.AddVersion(resolve.Version{VersionKey: vk(aName(k), resolve.Concrete, "1.0")}, reqs)
	}
	ch := make(chan string, 1)
	ctx, cancel := context.WithTimeout(context.Background(), 5*time.Second)
	defer cancel()
	go func() {
		defer func() {
			if r := recover(); r != nil {
				ch <- "panic"
			}
		}()
		rs := rpypi.NewResolver(lc) // the one resolver object of this universe
		var parts []string
		for k, rt := range roots {
			g, err := rs.Resolve(ctx, rootKey(k))
			parts = append(parts, universeRootResult(g, err, aName(k), func(j int) string { return bName(k, j) }, len(rt.reqs)))
		}
		ch <- "ok " + strings.Join(parts, "/")
	}()
	select {
	case s := <-ch:
		if ctx.Err() != nil {
			return "timeout"
		}
		return s
	case <-time.After(8 * time.Second):
		return "timeout"
	}
}

func universeRootResult(g *resolve.Graph, err error, a string, b func(int) string, n int) string {
	if err != nil || g == nil || g.Error != "" {
		return "e"
	}
	node := map[string]bool{}
	for _, nd := range g.Nodes {
		if len(nd.Errors) > 0 {
			return "e"
		}
		node[nd.Version.Name] = true
	}
	if !node[a] {
		return "e"
	}
	edge := map[string]bool{}
	for _, e := range g.Edges {
		if g.Nodes[e.From].Version.Name == a {
			edge[g.Nodes[e.To].Version.Name] = true
		}
	}
	var sb strings.Builder
	for j := 0; j < n; j++ {
		if edge[b(j)] != node[b(j)] {
			return "e"
		}
		sb.WriteString(bit(edge[b(j)]))
	}
	return sb.String()
}

// universeResult splits "ok r0/r1/…" into one entry per root.
func universeResult(res string, roots []uRoot) ([]string, bool) {
	if !strings.HasPrefix(res, "ok ") {
		return nil, false
	}
	parts := strings.Split(res[3:], "/")
	if len(parts) != len(roots) {
		return nil, false
	}
	for k, p := range parts {
		if p == "e" {
			continue
		}
		if len(p) != len(roots[k].reqs) || strings.Trim(p, "01") != "" {
			return nil, false
		}
	}
	return parts, true
}

// recheckUniverseRef: every guarded edge of every root agrees with the reference
// (packaging semantics in the fixed environment with that root's extras). A
// marker in a catalogued finding class (the negated hypotheses of
// marker_agrees_partial, decided on the marker alone) has no expectation here;
// it is still bound by universe-eq-single.
func recheckUniverseRef(f []string, res string) (bool, string) {
	if len(f) < 2 || f[0] != "probe" || f[1] != "universe" {
		return true, "malformed oracle instance"
	}
	roots, ok := parseUniverse(f[2:])
	if !ok {
		return true, "malformed universe op"
	}
	parts, ok := universeResult(res, roots)
	if !ok {
		return true, fmt.Sprintf("universe result %q does not have one entry per root / one bit per guarded edge", res)
	}
	env := refEnv()
	for k, rt := range roots {
		type exp struct {
			want    tri
			inClass bool
		}
		exps := make([]exp, len(rt.reqs))
		anyClass := false
		for j, q := range rt.reqs {
			if q.astH == "" {
				return true, "universe-ref needs an ast for every guarded requirement"
			}
			m, err := decodeM(q.astH)
			if err != nil {
				return true, "bad ast: " + err.Error()
			}
			if !m.wellFormed() || strings.Trim(q.raw, wsChars) != strings.Trim(m.render(), wsChars) {
				return true, "ast does not render to the op's marker (harness bug)"
			}
			exps[j] = exp{refEval(m, env, rt.extras), len(markerClasses(m, env, rt.extras)) > 0}
			anyClass = anyClass || exps[j].inClass
		}
		if parts[k] == "e" {
			if anyClass {
				continue
			}
			wantErr := false
			for _, e := range exps {
				wantErr = wantErr || e.want == triErr
			}
			if !wantErr {
				return true, fmt.Sprintf("root %d (extras %v): the resolution failed, packaging semantics evaluate all %d markers", k, rt.extras, len(rt.reqs))
			}
			continue
		}
		for j, e := range exps {
			if e.inClass {
				continue
			}
			want := map[tri]string{triFalse: "0", triTrue: "1", triErr: "an error"}[e.want]
			if got := parts[k][j : j+1]; got != want {
				return true, fmt.Sprintf("root %d requirement %d (extras %v): marker %q guarded edge present=%s, packaging semantics say %s (universe of %d near-identical markers on one resolver)",
					k, j, rt.extras, rt.reqs[j].raw, got, want, countReqs(roots))
			}
		}
	}
	return false, ""
}

func countReqs(roots []uRoot) int {
	n := 0
	for _, rt := range roots {
		n += len(rt.reqs)
	}
	return n
}

// recheckUniverseSingles: ops[0] is the universe, the others are single-marker
// `resolve` ops (fresh resolver each). Every root's outcome must be what the
// single resolutions of its markers (with the root's extras) say: marker
// evaluation does not depend on what the resolver saw before.
func recheckUniverseSingles(f [][]string, res []string) (bool, string) {
	if len(f) < 2 || len(f[0]) < 2 || f[0][0] != "probe" || f[0][1] != "universe" {
		return true, "malformed oracle instance"
	}
	roots, ok := parseUniverse(f[0][2:])
	if !ok {
		return true, "malformed universe op"
	}
	parts, ok := universeResult(res[0], roots)
	if !ok {
		return true, fmt.Sprintf("universe result %q does not have one entry per root / one bit per guarded edge", res[0])
	}
	single := map[string]string{}
	for i := 1; i < len(f); i++ {
		if len(f[i]) < 3 || f[i][0] != "resolve" || !strings.HasPrefix(f[i][2], "extras=") {
			return true, "malformed oracle instance"
		}
		single[f[i][1]+" "+f[i][2]] = res[i]
	}
	for k, rt := range roots {
		want := ""
		for _, q := range rt.reqs {
			s, ok := single[q.hexM+" extras="+rt.csv]
			switch {
			case !ok:
				return true, "malformed oracle instance: no single resolve op for " + q.hexM
			case s == "err":
				want = "e"
			case s == "ok 0" || s == "ok 1":
				if want != "e" {
					want += s[3:]
				}
			default:
				return true, "single resolve result " + s
			}
		}
		if parts[k] != want {
			var ms []string
			for _, q := range rt.reqs {
				ms = append(ms, fmt.Sprintf("%q", q.raw))
			}
			return true, fmt.Sprintf("root %d (extras %v) on the shared resolver: %s; the same markers on fresh resolvers: %s; markers %s", k, rt.extras, parts[k], want, strings.Join(ms, ", "))
		}
	}
	return false, ""
}

// ---------------------------------------------------------------- generator

func cloneM(m *M) *M {
	if m == nil {
		return nil
	}
	c := *m
	c.L, c.R = cloneM(m.L), cloneM(m.R)
	return &c
}

func stdLeaf(v, op, lit string, flip bool) *M {
	m := &M{K: "cmp", Var: v, Op: op, Lit: lit, Q: "'", W1: " ", W2: " ", Flip: flip}
	fixLeaf(m)
	return m
}

// fixLeaf restores the well-formedness side conditions after an edit.
func fixLeaf(m *M) {
	if m.Q != "'" && m.Q != `"` {
		m.Q = "'"
	}
	if strings.Contains(m.Lit, m.Q) {
		if m.Q == "'" {
			m.Q = `"`
		} else {
			m.Q = "'"
		}
	}
	if m.Op == "not in" {
		if strings.Trim(m.W3, wsChars) != "" || m.W3 == "" {
			m.W3 = " "
		}
	} else {
		m.W3 = ""
	}
	if m.Op == "in" || m.Op == "not in" {
		if m.W1 == "" {
			m.W1 = " "
		}
		if m.W2 == "" {
			m.W2 = " "
		}
	}
}

// buildFlat is the PEP 508 reading of item0 conn0 item1 conn1 …: `and` binds
// tighter than `or`, both nest to the right. Items are expr-level nodes.
func buildFlat(items []*M, conns []string) *M {
	var groups [][]*M
	cur := []*M{items[0]}
	for i, c := range conns {
		if c == "or" {
			groups = append(groups, cur)
			cur = nil
		}
		cur = append(cur, items[i+1])
	}
	groups = append(groups, cur)
	nest := func(k string, xs []*M) *M {
		out := xs[len(xs)-1]
		for i := len(xs) - 2; i >= 0; i-- {
			out = &M{K: k, L: xs[i], W1: " ", R: out}
		}
		return out
	}
	var ands []*M
	for _, g := range groups {
		ands = append(ands, nest("and", g))
	}
	out := nest("or", ands)
	// the right operand of a keyword needs a separator in front of it
	var sep func(m *M, need bool)
	sep = func(m *M, need bool) {
		switch m.K {
		case "cmp", "paren":
			if need && m.W0 == "" {
				m.W0 = " "
			}
		default:
			sep(m.L, need)
			sep(m.R, true)
		}
	}
	sep(out, false)
	return out
}

func parenOf(m *M) *M { return &M{K: "paren", L: m} }

func substrWords(r *rand.Rand, val string) string {
	w := strings.Split(val, " ")
	if len(w) < 2 {
		return val
	}
	i := r.Intn(len(w) - 1)
	j := i + 1 + r.Intn(len(w)-i-1)
	return strings.Join(w[i:j+1], " ")
}

// familyLeaf draws the base comparison of a family from the environment
// values themselves, so that it is true or false for a reason a perturbation of
// the text can undo.
func familyLeaf(r *rand.Rand, env map[string]string) *M {
	var blankVars []string
	for _, v := range platformVars {
		if strings.Contains(env[v], " ") {
			blankVars = append(blankVars, v)
		}
	}
	v := platformVars[r.Intn(len(platformVars))]
	switch {
	case len(blankVars) > 0 && r.Intn(20) < 7:
		v = blankVars[r.Intn(len(blankVars))]
	case r.Intn(12) == 0:
		return stdLeaf("extra", "==", pick(r, litsExtra...), r.Intn(4) == 0)
	case r.Intn(8) == 0:
		m := genLeaf(r)
		fixLeaf(m)
		return m
	}
	val := env[v]
	if _, isV := refParseVersion(val); isV {
		near := []string{val, val + ".0", val + ".1", "3.10", "3.8", "3.9", "3.9.6", "3.9.7", "3", "4", "3.09", "3.9.*"}
		if r.Intn(2) == 0 {
			near = paddedVersionLits()
		}
		return stdLeaf(v, pick(r, "==", "!=", "<", "<=", ">", ">=", "~="), pick(r, near...), r.Intn(3) == 0)
	}
	switch r.Intn(3) {
	case 0:
		return stdLeaf(v, pick(r, "==", "==", "!="), val, r.Intn(3) == 0)
	case 1:
		sub := val
		if strings.Contains(val, " ") {
			sub = substrWords(r, val)
		} else if len(val) > 2 {
			i := r.Intn(len(val) - 1)
			sub = val[i : i+2+r.Intn(len(val)-i-1)]
		}
		return stdLeaf(v, pick(r, "in", "in", "not in"), sub, true)
	}
	other := pick(r, litsString...)
	lit := val + " " + other
	if r.Intn(2) == 0 {
		lit = other + " " + val
	}
	return stdLeaf(v, pick(r, "in", "in", "not in"), lit, false)
}

func indexAll(s string, c byte) []int {
	var out []int
	for i := 0; i < len(s); i++ {
		if s[i] == c {
			out = append(out, i)
		}
	}
	return out
}

// perturbLeaf edits one comparison into a near-identical one. The returned tag
// names the axis (for the distribution histogram).
//
// Free-form edits of the literal (blanks, case, single characters) are applied
// where the comparison is a string comparison by construction: a variable whose
// environment value is not a PEP 440 version, a literal without a wildcard.
// On version-valued variables and on `extra` the literal is instead replaced
// by another member of the literal pools of the marker stream (alternative
// spellings, blanks around versions, other extras), whose single comparisons
// the small-scope exhaustive stream enumerates: the universes are about what the
// resolver shares between markers, not a second search for leaf-level
// disagreements outside the catalogued classes.
func perturbLeaf(r *rand.Rand, env map[string]string, l *M) string {
	defer fixLeaf(l)
	blanks := indexAll(l.Lit, ' ')
	axis := r.Intn(10)
	if len(blanks) > 0 && r.Intn(2) == 0 {
		axis = 0
	}
	_, versionVar := refParseVersion(env[l.Var])
	freeform := l.Var != "extra" && !versionVar && !strings.Contains(l.Lit, "*")
	fromPool := func() string {
		pool := litsAny
		switch {
		case l.Var == "extra":
			pool = litsExtra
		case versionVar:
			pool = append(append([]string{}, litsVersion...), litsAltVersion...)
			if r.Intn(2) == 0 {
				pool = paddedVersionLits()
			}
		}
		old := l.Lit
		for try := 0; try < 4 && l.Lit == old; try++ {
			l.Lit = pick(r, pool...)
		}
		return "lit-from-pool"
	}
	if !freeform && (axis <= 4 || axis == 9) {
		return fromPool()
	}
	switch axis {
	case 0, 1, 2: // white space inside the quoted literal
		if len(blanks) > 0 && r.Intn(10) < 7 {
			p := blanks[r.Intn(len(blanks))]
			switch r.Intn(4) {
			case 0, 1:
				l.Lit = l.Lit[:p] + "  " + l.Lit[p+1:]
				return "lit-blank-doubled"
			case 2:
				l.Lit = l.Lit[:p] + "\t" + l.Lit[p+1:]
				return "lit-blank-to-tab"
			}
			l.Lit = l.Lit[:p] + l.Lit[p+1:]
			return "lit-blank-removed"
		}
		switch r.Intn(4) {
		case 0:
			l.Lit = " " + l.Lit
			return "lit-blank-leading"
		case 1:
			l.Lit = l.Lit + " "
			return "lit-blank-trailing"
		case 2:
			l.Lit = "  " + l.Lit
			return "lit-blank-leading2"
		}
		if len(l.Lit) > 1 {
			p := 1 + r.Intn(len(l.Lit)-1)
			l.Lit = l.Lit[:p] + " " + l.Lit[p:]
			return "lit-blank-inserted"
		}
		l.Lit += " "
		return "lit-blank-trailing"
	case 3, 4: // case inside the literal
		old := l.Lit
		switch r.Intn(4) {
		case 0:
			l.Lit = strings.ToUpper(old)
		case 1:
			l.Lit = strings.ToLower(old)
		default:
			b := []rune(old)
			var letters []int
			for i, c := range b {
				if unicode.IsLetter(c) {
					letters = append(letters, i)
				}
			}
			if len(letters) > 0 {
				p := letters[r.Intn(len(letters))]
				if unicode.IsUpper(b[p]) {
					b[p] = unicode.ToLower(b[p])
				} else {
					b[p] = unicode.ToUpper(b[p])
				}
				l.Lit = string(b)
			}
		}
		if l.Lit != old {
			return "lit-case"
		}
		fallthrough
	case 5: // operand order
		l.Flip = !l.Flip
		return "operand-order"
	case 6: // quote style
		if !strings.ContainsAny(l.Lit, `'"`) {
			if l.Q == "'" {
				l.Q = `"`
			} else {
				l.Q = "'"
			}
			return "quote-style"
		}
		fallthrough
	case 7: // white space outside the literal
		l.W0, l.W1, l.W2 = ws(r), ws(r), ws(r)
		if l.Op == "not in" {
			l.W3 = ws1(r)
		}
		return "layout"
	case 8: // neighbouring operator
		nb := map[string][]string{"==": {"!=", "<=", ">="}, "!=": {"=="}, "<": {"<=", ">"}, "<=": {"<", ">="}, ">": {">=", "<"}, ">=": {">", "<="},
			"~=": {"==", ">="}, "===": {"=="}, "in": {"not in"}, "not in": {"in"}}
		if l.Var != "extra" {
			l.Op = pick(r, nb[l.Op]...)
			return "operator-neighbour"
		}
		fallthrough
	default: // one character of the literal
		if !freeform {
			return fromPool()
		}
		if len(l.Lit) > 0 {
			p := r.Intn(len(l.Lit))
			switch r.Intn(3) {
			case 0:
				l.Lit = l.Lit[:p] + l.Lit[p+1:]
			case 1:
				l.Lit = l.Lit[:p] + l.Lit[p:p+1] + l.Lit[p:]
			default:
				l.Lit = l.Lit[:p] + pick(r, "0", "x", ".", "-", "_") + l.Lit[p+1:]
			}
		}
		return "lit-char"
	}
}

type uVariant struct {
	m   *M
	how string
}

// familyVariants: a base marker and near-identical variants of it.
func familyVariants(r *rand.Rand, env map[string]string, want int) []uVariant {
	var out []uVariant
	if r.Intn(3) == 0 {
		// compound family: the same three comparisons under every grouping
		lv := []*M{familyLeaf(r, env), familyLeaf(r, env), familyLeaf(r, env)}
		cs := []string{pick(r, "and", "or"), pick(r, "and", "or")}
		if cs[0] == cs[1] && r.Intn(3) > 0 {
			cs[1] = map[string]string{"and": "or", "or": "and"}[cs[0]]
		}
		lf := func(i int) *M { return cloneM(lv[i]) }
		shapes := []func() (*M, string){
			func() (*M, string) { return buildFlat([]*M{lf(0), lf(1), lf(2)}, cs), "flat" },
			func() (*M, string) {
				return buildFlat([]*M{parenOf(buildFlat([]*M{lf(0), lf(1)}, cs[:1])), lf(2)}, cs[1:]), "paren-left"
			},
			func() (*M, string) {
				return buildFlat([]*M{lf(0), parenOf(buildFlat([]*M{lf(1), lf(2)}, cs[1:]))}, cs[:1]), "paren-right"
			},
			func() (*M, string) {
				return parenOf(buildFlat([]*M{lf(0), lf(1), lf(2)}, cs)), "paren-all"
			},
			func() (*M, string) {
				return buildFlat([]*M{parenOf(parenOf(lf(0))), lf(1), parenOf(lf(2))}, cs), "paren-leaves"
			},
			func() (*M, string) { return buildFlat([]*M{lf(2), lf(1), lf(0)}, cs), "operands-reversed" },
			func() (*M, string) {
				return buildFlat([]*M{lf(0), lf(1), lf(2)}, []string{cs[1], cs[0]}), "keywords-swapped"
			},
			func() (*M, string) {
				m := buildFlat([]*M{lf(0), lf(1), lf(2)}, cs)
				var ls []*M
				m.leaves(func(l *M) { ls = append(ls, l) })
				return m, "leaf:" + perturbLeaf(r, env, ls[r.Intn(len(ls))])
			},
			func() (*M, string) {
				// quote swallow: a double-quoted literal that spans what is, with single
				// quotes, the end of one comparison, a keyword and the start of the next
				a, b := lf(0), lf(1)
				if a.Flip || b.Flip || strings.ContainsAny(a.Lit+b.Lit, `'"`) {
					return buildFlat([]*M{lf(1), lf(0), lf(2)}, cs), "operands-swapped"
				}
				lit := a.Lit + "' " + cs[0] + " " + b.Var + " " + b.Op + " '" + b.Lit
				return buildFlat([]*M{stdLeaf(a.Var, a.Op, lit, false), lf(2)}, cs[1:]), "quote-swallow"
			},
		}
		for _, i := range r.Perm(len(shapes)) {
			if len(out) >= want {
				break
			}
			m, how := shapes[i]()
			out = append(out, uVariant{m, "tree:" + how})
		}
		return out
	}
	base := familyLeaf(r, env)
	out = append(out, uVariant{cloneM(base), "base"})
	for len(out) < want {
		m := cloneM(base)
		how := perturbLeaf(r, env, m)
		if r.Intn(4) == 0 {
			how += "+" + perturbLeaf(r, env, m)
		}
		switch r.Intn(8) {
		case 0:
			m = parenOf(m)
			how += "+paren"
		case 1:
			m = parenOf(parenOf(m))
			how += "+paren2"
		}
		out = append(out, uVariant{m, how})
	}
	return out
}

func universeLine(roots []uRoot) string {
	var sb strings.Builder
	sb.WriteString("C16 probe universe")
	for _, rt := range roots {
		sb.WriteString(" root=" + rt.csv)
		for _, q := range rt.reqs {
			sb.WriteString(" g=" + q.hexM)
			if q.astH != "" {
				sb.WriteString(":" + q.astH)
			}
		}
	}
	return sb.String()
}

func mkReq(m *M, raw string) uReq {
	return uReq{hexM: fw.Hx(raw), raw: raw, astH: fw.Hx(encodeAST(m))}
}

// runUniverses is the generator: families of near-identical markers with
// different reference truth values, placed in one requirement list or spread
// over several roots resolved in sequence on one resolver.
func runUniverses(c *fw.Ctx, checkMarker func(i int, line, res string), toPackaging func(m *M, raw string, extras []string)) {
	r := c.Rng
	env := refEnv()
	mixed, total := 0, 0
	for n := c.N(350, 6000); n > 0; n-- {
		var vs []uVariant
		seen := map[string]bool{}
		truth := map[tri]bool{}
		want := 3 + r.Intn(5)
		for try := 0; try < 4 && (len(vs) < want || len(truth) < 2); try++ {
			for _, v := range familyVariants(r, env, want) {
				if !v.m.wellFormed() {
					panic("C16 universe generator built an ill-formed marker: " + v.m.render())
				}
				raw := v.m.render()
				if seen[raw] {
					continue
				}
				seen[raw] = true
				vs = append(vs, v)
				if len(markerClasses(v.m, env, nil)) == 0 {
					truth[refEval(v.m, env, nil)] = true
				}
			}
			if try > 0 {
				c.Count("universe:second-family-added")
			}
		}
		if len(vs) > 10 {
			vs = vs[:10]
		}
		r.Shuffle(len(vs), func(i, j int) { vs[i], vs[j] = vs[j], vs[i] })
		// shape: one list, or 2-3 roots resolved in sequence on the one resolver
		nRoots := 1 + r.Intn(3)
		if nRoots > len(vs) {
			nRoots = len(vs)
		}
		roots := make([]uRoot, nRoots)
		for k := range roots {
			roots[k].extras = genExtras(r)
			roots[k].csv = hxList(roots[k].extras)
		}
		for i, v := range vs {
			k := i * nRoots / len(vs)
			raw := v.m.render()
			if r.Intn(4) == 0 {
				raw += ws(r)
			}
			roots[k].reqs = append(roots[k].reqs, mkReq(v.m, raw))
			c.Count("universe-variant:" + strings.SplitN(v.how, "+", 2)[0])
		}
		if nRoots > 1 && r.Intn(3) == 0 {
			// a text already seen comes back in the last root (other extras): the cached entry is reused
			q := roots[0].reqs[r.Intn(len(roots[0].reqs))]
			roots[nRoots-1].reqs = append(roots[nRoots-1].reqs, q)
			c.Count("universe:repeated-text")
		}
		line := universeLine(roots)
		u, res := c.Op(line)
		c.Check("universe-ref", u)
		idx := []int{u}
		got := map[tri]bool{}
		free := 0
		for _, rt := range roots {
			for _, q := range rt.reqs {
				m, _ := decodeM(q.astH)
				sl := markerLine("resolve", q.raw, rt.extras, m)
				i, sres := c.Op(sl)
				checkMarker(i, sl, sres)
				toPackaging(m, q.raw, rt.extras) // evidence for the reference on these literals
				idx = append(idx, i)
				if len(markerClasses(m, env, rt.extras)) == 0 {
					free++
					got[refEval(m, env, rt.extras)] = true
				}
			}
		}
		c.Check("universe-eq-single", idx...)
		total++
		c.Count(fmt.Sprintf("universe:roots=%d", nRoots))
		c.Count("universe:result-" + map[bool]string{true: "all-roots-resolved", false: "some-root-failed"}[!strings.Contains(res, "e")])
		if len(got) >= 2 {
			mixed++
			c.Count("universe:mixed-truth-values")
			c.Nontrivial("u:" + line)
		} else {
			c.Count("universe:uniform-truth-value")
		}
		if free == 0 {
			c.Count("universe:no-class-free-marker")
		}
		if n%60 == 0 {
			var ms []string
			for _, rt := range roots {
				for _, q := range rt.reqs {
					ms = append(ms, fmt.Sprintf("%q", q.raw))
				}
			}
			c.Sample(fmt.Sprintf("universe roots=%d [%s] -> %s", nRoots, strings.Join(ms, ", "), res))
		}
	}
	c.Note(fmt.Sprintf("universes of near-identical guarded requirements on one resolver: %d, of which %d with markers of different reference truth values", total, mixed))
}
