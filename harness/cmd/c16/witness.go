package main

import (
	"fmt"
	"strings"

	"verifharness/fw"
)

// printWitnesses prints the op lines of the catalogued witnesses (for
// props/C16.known.json and corpus/C16): `c16 witness`.
func printWitnesses() {
	leaf := func(v, op, lit string, flip bool) *M {
		m := &M{K: "cmp", Var: v, Op: op, Lit: lit, Q: "'", W1: " ", W2: " ", Flip: flip}
		if op == "not in" {
			m.W3 = " "
		}
		return m
	}
	type w struct {
		id     string
		m      *M
		extras []string
	}
	ws := []w{
		{"F-C16-in", leaf("python_version", "in", "3.9", false), nil},
		{"F-C16-in", leaf("python_full_version", "not in", "3.9.0", false), nil},
		{"F-C16-pre-lhs", leaf("implementation_version", "<", "3.9.6rc1", true), nil},
		{"F-C16-pre-lhs", leaf("python_version", "<=", "3.9.dev1", true), nil},
		{"F-C16-post-lhs-ne", leaf("implementation_version", "!=", "3.9.6.post1", true), nil},
		{"F-C16-blank-literal", leaf("python_version", "==", " 3.9", false), nil},
		{"F-C16-local-version", leaf("implementation_version", "==", "3.9.6+local", true), nil},
		{"F-C16-epoch-lhs", leaf("python_version", ">", "1!3.9", true), nil},
		{"F-C16-underscore-sep", leaf("implementation_version", ">=", "3.9.6_rc1", false), nil},
		{"F-C16-eqeqeq-case", leaf("platform_system", "===", "linux", false), nil},
		{"F-C16-eqeqeq-case", leaf("os_name", "===", "a b", false), nil},
		{"F-C16-legacy-rhs", leaf("platform_system", "!=", "6.9.10", false), nil},
		{"F-C16-legacy-rhs", leaf("platform_release", ">=", "5", false), nil},
		{"F-C16-legacy-rhs", leaf("os_name", "~=", "3.9", false), nil},
		{"F-C16-wild-ordered", leaf("python_version", "<", "3.9.*", false), nil},
		{"F-C16-wild-ordered", leaf("python_version", "~=", "3.*", false), nil},
		{"F-C16-extra-op", leaf("extra", "!=", "x", false), []string{"y"}},
		{"F-C16-extra-multi", &M{K: "and", L: leaf("extra", "==", "x", false), W1: " ", R: func() *M { m := leaf("extra", "==", "test", false); m.W0 = " "; return m }()}, []string{"x", "test"}},
	}
	for _, x := range ws {
		raw := x.m.render()
		line := markerLine("marker", raw, x.extras, x.m)
		fmt.Printf("%s\t%s\t%s\t%q\n", x.id, line, execOp(splitFields(line)), raw)
	}
	// universes (corpus/C16/universe.ops): near-identical markers with different truth values on
	// one resolver, in one requirement list and across roots, in both orders
	uni := func(rootsOf ...[]*M) {
		var roots []uRoot
		var singles []string
		for _, ms := range rootsOf {
			rt := uRoot{}
			for _, m := range ms {
				rt.reqs = append(rt.reqs, mkReq(m, m.render()))
				singles = append(singles, markerLine("resolve", m.render(), nil, nil))
			}
			roots = append(roots, rt)
		}
		line := universeLine(roots)
		fmt.Printf("universe-ref\t%s\n", line)
		fmt.Printf("universe-eq-single\t%s\t%s\n", line, strings.Join(singles, "\t"))
	}
	pv := refEnv()["platform_version"]
	sub := substrFirstTwoWords(pv)
	t := leaf("platform_version", "in", sub, true)
	f2 := leaf("platform_version", "in", strings.Replace(sub, " ", "  ", 1), true)
	ft := leaf("platform_version", "in", strings.Replace(sub, " ", "\t", 1), true)
	eq := leaf("platform_version", "==", pv, false)
	eq2 := leaf("platform_version", "==", strings.Replace(pv, " ", "  ", 1), false)
	uni([]*M{t, f2, ft})
	uni([]*M{f2, t})
	uni([]*M{t}, []*M{f2})
	uni([]*M{f2}, []*M{t}, []*M{ft})
	uni([]*M{eq, eq2}, []*M{eq2, eq})
	uni([]*M{leaf("platform_system", "==", "Linux", false), leaf("platform_system", "==", "linux", false), leaf("platform_system", "==", "Linux", true)},
		[]*M{leaf("os_name", "in", "posix nt", false), leaf("os_name", "in", "posix nt", true)})
	// zero-padded re-spellings (corpus/C16/padded.ops): post-release exclusion of >, pre-release
	// exclusion of <, prefix matching, with more / fewer release segments than the value
	for _, x := range []struct {
		v, op, lit string
		flip       bool
	}{
		{"python_full_version", ">", "3.9.6.0.post1", true}, {"python_version", ">", "3.9.0.0.post2", true}, {"python_version", ">", "3.9.0.post1", true},
		{"python_full_version", ">=", "3.9.6.0.post1", true}, {"python_full_version", "<", "3.9.6.0.post1", false}, {"python_full_version", "<", "3.9.6.0", false},
		{"python_full_version", "==", "3.9.6.0.0", false}, {"python_version", "==", "3.9.0.0", true}, {"python_version", "==", "3.9.0.*", false},
		{"python_full_version", "~=", "3.9.6.0", false}, {"python_version", "~=", "3.9.0", false}, {"python_full_version", "<=", "3.9.6.0.0", false},
		{"python_full_version", "!=", "3.9.6.0", false}, {"python_version", "<", "3.9.0.0.post1", false}, {"implementation_version", ">", "3.9.6.0.0.post0", true},
	} {
		m := leaf(x.v, x.op, x.lit, x.flip)
		fmt.Printf("padded\tmarker-ref\t%s\n", markerLine("marker", m.render(), nil, m))
	}
	// requirement-string seeds for the corpus (oracle dep-ref needs an AST; these are
	// correspondence seeds taken from metadata_test.go shapes)
	for _, s := range []string{"foo", " Foo_Bar [e1, E2] (>=1.0, <2) ; python_version >= '3.8' ", "a.b-c>=1;os_name=='a;b'", "x[", "x[a]b", ";", "name@ http://x", "a (>=1", "a ( >=1 ) ", "a()", "a[]", "  ", "\t"} {
		line := "C16 dep508 " + fw.Hx(s)
		fmt.Printf("seed\t%s\t%s\t%q\n", line, execOp(splitFields(line)), s)
	}
}

func splitFields(line string) []string {
	var out []string
	cur := ""
	for _, c := range line {
		if c == ' ' {
			if cur != "" {
				out = append(out, cur)
			}
			cur = ""
		} else {
			cur += string(c)
		}
	}
	if cur != "" {
		out = append(out, cur)
	}
	return out[1:]
}

// substrFirstTwoWords: the second and third blank-separated words of an environment value
// (for platform_version "#1 SMP PREEMPT_DYNAMIC …": "SMP PREEMPT_DYNAMIC").
func substrFirstTwoWords(val string) string {
	w := strings.Split(val, " ")
	if len(w) >= 3 {
		return w[1] + " " + w[2]
	}
	return val
}
