package main

// Translator generator C16PypiEnv: data of util/resolve/pypi that the Lean
// marker model iterates over (never algorithms):
//   - internal.Markers (env.gen.go): the fixed target environment
//   - environmentVariables (markers.go): key -> markerVar{name, value}
//   - markerOp constants in iota order, their String() texts (markerop_string.go)
//   - markerOpsByLength (markers.go)

import (
	rpypi "deps.dev/util/resolve/pypi"
	"fmt"
	"go/ast"
	"go/parser"
	"go/token"
	"path/filepath"
	"sort"
	"strconv"
	"strings"

	"verifharness/fw"
)

type pypiFacts struct {
	Markers   map[string]string
	EnvVars   [][3]string // key, name, value (source order)
	OpNames   []string    // markerOp constant names in iota order
	OpStrings []string    // String() of each
	ByLength  []int       // markerOpsByLength as markerOp values
}

func parseFile(path string) (*ast.File, error) {
	return parser.ParseFile(token.NewFileSet(), path, nil, parser.ParseComments)
}

func findValue(f *ast.File, tok token.Token, name string) ast.Expr {
	for _, d := range f.Decls {
		gd, ok := d.(*ast.GenDecl)
		if !ok || gd.Tok != tok {
			continue
		}
		for _, s := range gd.Specs {
			vs := s.(*ast.ValueSpec)
			for i, n := range vs.Names {
				if n.Name == name && i < len(vs.Values) {
					return vs.Values[i]
				}
			}
		}
	}
	return nil
}

func strLit(e ast.Expr) (string, bool) {
	bl, ok := e.(*ast.BasicLit)
	if !ok || bl.Kind != token.STRING {
		return "", false
	}
	s, err := strconv.Unquote(bl.Value)
	return s, err == nil
}

func extractPypiFacts(repo string) (*pypiFacts, error) {
	dir := filepath.Join(repo, "util", "resolve", "pypi")
	out := &pypiFacts{Markers: map[string]string{}}

	// internal.Markers
	ef, err := parseFile(filepath.Join(dir, "internal", "env.gen.go"))
	if err != nil {
		return nil, err
	}
	mk, ok := findValue(ef, token.VAR, "Markers").(*ast.CompositeLit)
	if !ok {
		// not written as a literal: take the values the linked code holds at run time
		mk = &ast.CompositeLit{}
		_, platform := rpypi.VerifEnvironment()
		for k, v := range platform {
			out.Markers[k] = v
		}
	}
	for _, el := range mk.Elts {
		kv, ok := el.(*ast.KeyValueExpr)
		if !ok {
			return nil, fmt.Errorf("Markers: element is not key: value")
		}
		k, ok1 := strLit(kv.Key)
		v, ok2 := strLit(kv.Value)
		if !ok1 || !ok2 {
			return nil, fmt.Errorf("Markers: non-literal entry")
		}
		if _, dup := out.Markers[k]; dup {
			return nil, fmt.Errorf("Markers: duplicate key %q", k)
		}
		out.Markers[k] = v
	}

	mf, err := parseFile(filepath.Join(dir, "markers.go"))
	if err != nil {
		return nil, err
	}
	// markerOp constants in iota order.
	for _, d := range mf.Decls {
		gd, ok := d.(*ast.GenDecl)
		if !ok || gd.Tok != token.CONST {
			continue
		}
		isOps := false
		for i, s := range gd.Specs {
			vs := s.(*ast.ValueSpec)
			if i == 0 {
				if id, ok := vs.Type.(*ast.Ident); ok && id.Name == "markerOp" && len(vs.Values) == 1 {
					if v, ok := vs.Values[0].(*ast.Ident); ok && v.Name == "iota" {
						isOps = true
					}
				}
			}
			if !isOps {
				break
			}
			if i > 0 && (vs.Type != nil || len(vs.Values) != 0) {
				return nil, fmt.Errorf("markerOp const block: entry %d is not an implicit iota repetition", i)
			}
			if len(vs.Names) != 1 {
				return nil, fmt.Errorf("markerOp const block: multiple names in one spec")
			}
			out.OpNames = append(out.OpNames, vs.Names[0].Name)
		}
	}
	if len(out.OpNames) == 0 {
		return nil, fmt.Errorf("markers.go: markerOp iota block not found")
	}
	opIndex := map[string]int{}
	for i, n := range out.OpNames {
		opIndex[n] = i
	}
	// markerOpsByLength
	bl, ok := findValue(mf, token.VAR, "markerOpsByLength").(*ast.CompositeLit)
	if !ok {
		return nil, fmt.Errorf("markers.go: markerOpsByLength is not a composite literal")
	}
	for _, el := range bl.Elts {
		id, ok := el.(*ast.Ident)
		if !ok {
			return nil, fmt.Errorf("markerOpsByLength: non-identifier element")
		}
		i, ok := opIndex[id.Name]
		if !ok {
			return nil, fmt.Errorf("markerOpsByLength: unknown op %s", id.Name)
		}
		out.ByLength = append(out.ByLength, i)
	}
	// environmentVariables
	ev, ok := findValue(mf, token.VAR, "environmentVariables").(*ast.CompositeLit)
	if !ok {
		// not written as a literal (built in init(), by a helper, ...): take the table the
		// linked code holds at run time (hook pypi.VerifEnvironment; sorted by key)
		ev = &ast.CompositeLit{}
		vars, _ := rpypi.VerifEnvironment()
		out.EnvVars = append(out.EnvVars, vars...)
	}
	seen := map[string]bool{}
	for _, el := range ev.Elts {
		kv, ok := el.(*ast.KeyValueExpr)
		if !ok {
			return nil, fmt.Errorf("environmentVariables: element is not key: value")
		}
		k, ok := strLit(kv.Key)
		if !ok {
			return nil, fmt.Errorf("environmentVariables: non-literal key")
		}
		if seen[k] {
			return nil, fmt.Errorf("environmentVariables: duplicate key %q", k)
		}
		seen[k] = true
		switch v := kv.Value.(type) {
		case *ast.CallExpr: // platformVar("name")
			fn, ok := v.Fun.(*ast.Ident)
			if !ok || fn.Name != "platformVar" || len(v.Args) != 1 {
				return nil, fmt.Errorf("environmentVariables[%q]: unexpected call", k)
			}
			arg, ok := strLit(v.Args[0])
			if !ok {
				return nil, fmt.Errorf("environmentVariables[%q]: non-literal argument", k)
			}
			val, ok := out.Markers[arg]
			if !ok {
				// platformVar panics at package init: no marker can be evaluated.
				return nil, fmt.Errorf("environmentVariables[%q]: platformVar(%q) is undefined in internal.Markers", k, arg)
			}
			out.EnvVars = append(out.EnvVars, [3]string{k, arg, val})
		case *ast.CompositeLit: // {name: "extra"}
			var name, value string
			for _, fe := range v.Elts {
				fkv, ok := fe.(*ast.KeyValueExpr)
				if !ok {
					return nil, fmt.Errorf("environmentVariables[%q]: positional literal", k)
				}
				s, ok := strLit(fkv.Value)
				if !ok {
					return nil, fmt.Errorf("environmentVariables[%q]: non-literal field", k)
				}
				switch fkv.Key.(*ast.Ident).Name {
				case "name":
					name = s
				case "value":
					value = s
				default:
					return nil, fmt.Errorf("environmentVariables[%q]: field %s", k, fkv.Key.(*ast.Ident).Name)
				}
			}
			out.EnvVars = append(out.EnvVars, [3]string{k, name, value})
		default:
			return nil, fmt.Errorf("environmentVariables[%q]: unexpected value expression", k)
		}
	}

	// String() texts from the stringer output.
	sf, err := parseFile(filepath.Join(dir, "markerop_string.go"))
	if err != nil {
		return nil, err
	}
	nameConst, ok := strLit(findValue(sf, token.CONST, "_markerOp_name"))
	if !ok {
		return nil, fmt.Errorf("markerop_string.go: _markerOp_name not found")
	}
	idx, ok := findValue(sf, token.VAR, "_markerOp_index").(*ast.CompositeLit)
	if !ok {
		return nil, fmt.Errorf("markerop_string.go: _markerOp_index not found")
	}
	var offs []int
	for _, el := range idx.Elts {
		b, ok := el.(*ast.BasicLit)
		if !ok {
			return nil, fmt.Errorf("_markerOp_index: non-literal")
		}
		n, err := strconv.Atoi(b.Value)
		if err != nil {
			return nil, err
		}
		offs = append(offs, n)
	}
	if len(offs) != len(out.OpNames)+1 {
		return nil, fmt.Errorf("markerop_string.go is stale: %d offsets for %d constants", len(offs), len(out.OpNames))
	}
	for i := 0; i+1 < len(offs); i++ {
		if offs[i] > offs[i+1] || offs[i+1] > len(nameConst) {
			return nil, fmt.Errorf("_markerOp_index out of range")
		}
		out.OpStrings = append(out.OpStrings, nameConst[offs[i]:offs[i+1]])
	}
	return out, nil
}

func leanBytesList(xs []string) string {
	parts := make([]string, len(xs))
	for i, x := range xs {
		parts[i] = fw.LeanBytes(x)
	}
	return "[" + strings.Join(parts, ",\n   ") + "]"
}

func genPypiEnv(repo string) (string, error) {
	f, err := extractPypiFacts(repo)
	if err != nil {
		return "", err
	}
	var b strings.Builder
	b.WriteString("/-! Data of deps.dev/util/resolve/pypi used by the marker model (property C16). -/\n")
	b.WriteString("namespace DepsDev.Gen.C16PypiEnv\n\n")
	keys := make([]string, 0, len(f.Markers))
	for k := range f.Markers {
		keys = append(keys, k)
	}
	sort.Strings(keys)
	b.WriteString("/-- `internal.Markers` (env.gen.go), sorted by key: the fixed target environment. -/\n")
	b.WriteString("def markers : List (List UInt8 × List UInt8) :=\n  [")
	for i, k := range keys {
		if i > 0 {
			b.WriteString(",\n   ")
		}
		fmt.Fprintf(&b, "(%s /- %s -/, %s /- %s -/)", fw.LeanBytes(k), commentSafe(k), fw.LeanBytes(f.Markers[k]), commentSafe(f.Markers[k]))
	}
	b.WriteString("]\n\n")
	b.WriteString("/-- `environmentVariables` (markers.go) in source order: (key, markerVar.name, markerVar.value). -/\n")
	b.WriteString("def envVars : List (List UInt8 × List UInt8 × List UInt8) :=\n  [")
	for i, e := range f.EnvVars {
		if i > 0 {
			b.WriteString(",\n   ")
		}
		fmt.Fprintf(&b, "(%s /- %s -/, %s, %s)", fw.LeanBytes(e[0]), commentSafe(e[0]), fw.LeanBytes(e[1]), fw.LeanBytes(e[2]))
	}
	b.WriteString("]\n\n")
	b.WriteString("/-- `markerOp` constant names in iota order (index = value). -/\n")
	b.WriteString("def opNames : List String :=\n  [")
	for i, n := range f.OpNames {
		if i > 0 {
			b.WriteString(", ")
		}
		b.WriteString(fw.LeanStr(n))
	}
	b.WriteString("]\n\n")
	b.WriteString("/-- `markerOp.String()` for each value (markerop_string.go). -/\n")
	b.WriteString("def opStrings : List (List UInt8) :=\n  " + leanBytesList(f.OpStrings) + "\n\n")
	b.WriteString("/-- `markerOpsByLength` as markerOp values. -/\n")
	b.WriteString("def markerOpsByLength : List Nat := [")
	for i, n := range f.ByLength {
		if i > 0 {
			b.WriteString(", ")
		}
		b.WriteString(strconv.Itoa(n))
	}
	b.WriteString("]\n\nend DepsDev.Gen.C16PypiEnv\n")
	return b.String(), nil
}

func commentSafe(s string) string {
	s = strings.ReplaceAll(s, "-/", "- /")
	s = strings.ReplaceAll(s, "/-", "/ -")
	var b strings.Builder
	for _, r := range s {
		if r < 0x20 || r > 0x7e {
			b.WriteByte('?')
		} else {
			b.WriteRune(r)
		}
	}
	return b.String()
}
