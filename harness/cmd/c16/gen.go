package main

// Translator generator C16PypiEnv: data of util/resolve/pypi that the Lean
// marker model iterates over (never algorithms):
//   - internal.Markers: the fixed target environment
//   - environmentVariables: key -> markerVar{name, value}
//   - the marker operator constants by value, their String() texts
//   - markerOpsByLength
//
// Everything that is a VALUE is read from the linked code at run time (the harness binary
// is rebuilt from the tree under test with the build tag `verif`), whatever way the
// source builds it (literal, init(), helper, generated tables, hand-written switch):
//   - the environment (both tables): hook pypi.VerifEnvironment;
//   - the by-length operator table and the String() text of every operator value: hook
//     pypi.VerifMarkerOps(n) (/repo fdda9ea).
// The hooks (util/resolve/pypi/verif_on.go, add-only, build tag verif) are part of the
// trusted base: they copy the package's own variables and call its own String method.
// The only thing read from the source is HOW MANY operators there are: the operator type
// is found by role in the type-checked package (the package-local integer type with
// constants of which some package-level variable is a slice or array), its constants are
// evaluated by go/types (iota, explicit values, named or converted constants alike) and
// must be the values 0..n-1. No identifier name, file name, literal shape or statement
// shape of /repo is relied on.
// The labels in `opNames` (the wire names between harness and driver, and the names the
// model's `opLess`… are checked against) are the PEP 508 operator each value prints as,
// not the identifier /repo happens to give the constant.

import (
	rpypi "deps.dev/util/resolve/pypi"
	"fmt"
	"go/constant"
	"go/types"
	"path/filepath"
	"sort"
	"strconv"
	"strings"

	"golang.org/x/tools/go/packages"
	"verifharness/fw"
)

type pypiFacts struct {
	Markers   map[string]string
	EnvVars   [][3]string // key, name, value (sorted by key)
	OpNames   []string    // label of each operator value (by the PEP 508 operator it prints as)
	OpStrings []string    // String() of each
	ByLength  []int       // markerOpsByLength as markerOp values
}

// pep508Ops: the label under which an operator is known to the harness, the driver and
// the model, by its text.
var pep508Ops = map[string]string{
	"<=": "markerOpLessEqual", "<": "markerOpLess", "!=": "markerOpNotEqual", "==": "markerOpEqualEqual",
	">=": "markerOpGreaterEqual", ">": "markerOpGreater", "~=": "markerOpTildeEqual", "===": "markerOpEqualEqualEqual",
	"in": "markerOpIn", "not in": "markerOpNotIn",
}

// localIntType returns t as a named type declared in p with an integer underlying type.
func localIntType(p *packages.Package, t types.Type) *types.Named {
	nt, ok := t.(*types.Named)
	if !ok || nt.Obj().Pkg() != p.Types {
		return nil
	}
	if b, ok := nt.Underlying().(*types.Basic); !ok || b.Info()&types.IsInteger == 0 {
		return nil
	}
	return nt
}

// constsOf: value -> names of the package-level constants of type t (declaration order
// within one value is the scope's, i.e. alphabetical; only used for messages).
func constsOf(p *packages.Package, t *types.Named) map[int64][]string {
	out := map[int64][]string{}
	for _, n := range p.Types.Scope().Names() {
		c, ok := p.Types.Scope().Lookup(n).(*types.Const)
		if !ok || !types.Identical(c.Type(), t) {
			continue
		}
		if v, ok := constant.Int64Val(constant.ToInt(c.Val())); ok {
			out[v] = append(out[v], n)
		}
	}
	return out
}

func extractPypiFacts(repo string) (*pypiFacts, error) {
	out := &pypiFacts{Markers: map[string]string{}}

	// the environment, as the linked code holds it
	vars, platform := rpypi.VerifEnvironment()
	for k, v := range platform {
		out.Markers[k] = v
	}
	seen := map[string]bool{}
	for _, e := range vars {
		if seen[e[0]] {
			return nil, fmt.Errorf("environmentVariables: duplicate key %q", e[0])
		}
		seen[e[0]] = true
		out.EnvVars = append(out.EnvVars, e)
	}
	sort.SliceStable(out.EnvVars, func(i, j int) bool { return out.EnvVars[i][0] < out.EnvVars[j][0] })

	p, err := fw.LoadPkg(filepath.Join(repo, "util", "resolve", "pypi"))
	if err != nil {
		return nil, err
	}
	// the operator type: the package-local integer type with constants of which some
	// package-level variable is a slice or array (the by-length table, however it is filled)
	var opType *types.Named
	for _, n := range p.Types.Scope().Names() {
		v, ok := p.Types.Scope().Lookup(n).(*types.Var)
		if !ok {
			continue
		}
		var elem types.Type
		switch u := v.Type().Underlying().(type) {
		case *types.Slice:
			elem = u.Elem()
		case *types.Array:
			elem = u.Elem()
		default:
			continue
		}
		if nt := localIntType(p, elem); nt != nil && len(constsOf(p, nt)) >= 2 {
			if opType != nil && !types.Identical(opType, nt) {
				return nil, fmt.Errorf("pypi: two candidate operator types (%s, %s)", opType.Obj().Name(), nt.Obj().Name())
			}
			opType = nt
		}
	}
	if opType == nil {
		return nil, fmt.Errorf("pypi: no package-level table of operator constants found")
	}
	byVal := constsOf(p, opType)
	n := len(byVal)
	for v := 0; v < n; v++ {
		if len(byVal[int64(v)]) == 0 {
			return nil, fmt.Errorf("pypi: the constants of %s are not the values 0..%d", opType.Obj().Name(), n-1)
		}
	}
	// the table and the texts, as the linked code holds / computes them
	byLength, texts := rpypi.VerifMarkerOps(n)
	if len(texts) != n {
		return nil, fmt.Errorf("pypi.VerifMarkerOps(%d) returned %d texts", n, len(texts))
	}
	out.OpStrings = texts
	for _, v := range byLength {
		if v < 0 || v >= n {
			return nil, fmt.Errorf("pypi: the by-length table holds %d, not a declared operator", v)
		}
		out.ByLength = append(out.ByLength, v)
	}
	// labels by role
	used := map[string]bool{}
	for v, s := range out.OpStrings {
		label, ok := pep508Ops[s]
		if !ok {
			label = "markerOpUnknown"
		}
		if used[label] {
			label = fmt.Sprintf("%s#%d", label, v) // two values print alike / two non-operators: the ties will refuse
		}
		used[label] = true
		out.OpNames = append(out.OpNames, label)
	}
	return out, nil
}

func leanBytesList(xs []string) string {
	parts := make([]string, len(xs))
	for i, x := range xs {
		parts[i] = fw.LeanBytes(x)
	}
	return "[" + strings.Join(parts, ",\n   ") + "]"
}

func genPypiEnv(repo string) (string, error) {
	f, err := extractPypiFacts(repo)
	if err != nil {
		return "", err
	}
	var b strings.Builder
	b.WriteString("/-! Data of deps.dev/util/resolve/pypi used by the marker model (property C16). -/\n")
	b.WriteString("namespace DepsDev.Gen.C16PypiEnv\n\n")
	keys := make([]string, 0, len(f.Markers))
	for k := range f.Markers {
		keys = append(keys, k)
	}
	sort.Strings(keys)
	b.WriteString("/-- `internal.Markers` as the linked code holds it, sorted by key: the fixed target environment. -/\n")
	b.WriteString("def markers : List (List UInt8 × List UInt8) :=\n  [")
	for i, k := range keys {
		if i > 0 {
			b.WriteString(",\n   ")
		}
		fmt.Fprintf(&b, "(%s /- %s -/, %s /- %s -/)", fw.LeanBytes(k), commentSafe(k), fw.LeanBytes(f.Markers[k]), commentSafe(f.Markers[k]))
	}
	b.WriteString("]\n\n")
	b.WriteString("/-- `environmentVariables` as the linked code holds it, sorted by key: (key, markerVar.name, markerVar.value). -/\n")
	b.WriteString("def envVars : List (List UInt8 × List UInt8 × List UInt8) :=\n  [")
	for i, e := range f.EnvVars {
		if i > 0 {
			b.WriteString(",\n   ")
		}
		fmt.Fprintf(&b, "(%s /- %s -/, %s, %s)", fw.LeanBytes(e[0]), commentSafe(e[0]), fw.LeanBytes(e[1]), fw.LeanBytes(e[2]))
	}
	b.WriteString("]\n\n")
	b.WriteString("/-- label of each `markerOp` value (index = value): the PEP 508 operator its `String()` prints. -/\n")
	b.WriteString("def opNames : List String :=\n  [")
	for i, n := range f.OpNames {
		if i > 0 {
			b.WriteString(", ")
		}
		b.WriteString(fw.LeanStr(n))
	}
	b.WriteString("]\n\n")
	b.WriteString("/-- `markerOp.String()` for each value. -/\n")
	b.WriteString("def opStrings : List (List UInt8) :=\n  " + leanBytesList(f.OpStrings) + "\n\n")
	b.WriteString("/-- `markerOpsByLength` as markerOp values. -/\n")
	b.WriteString("def markerOpsByLength : List Nat := [")
	for i, n := range f.ByLength {
		if i > 0 {
			b.WriteString(", ")
		}
		b.WriteString(strconv.Itoa(n))
	}
	b.WriteString("]\n\nend DepsDev.Gen.C16PypiEnv\n")
	return b.String(), nil
}

func commentSafe(s string) string {
	s = strings.ReplaceAll(s, "-/", "- /")
	s = strings.ReplaceAll(s, "/-", "/ -")
	var b strings.Builder
	for _, r := range s {
		if r < 0x20 || r > 0x7e {
			b.WriteByte('?')
		} else {
			b.WriteRune(r)
		}
	}
	return b.String()
}
