package main

// Translator generator C16PypiEnv: data of util/resolve/pypi that the Lean
// marker model iterates over (never algorithms):
//   - internal.Markers: the fixed target environment
//   - environmentVariables: key -> markerVar{name, value}
//   - the marker operator constants by value, their String() texts
//   - markerOpsByLength
//
// Nothing is found by the name of an unexported identifier, by a file name or by the
// shape of a const block:
//   - the environment (both tables) is the VALUE the linked code holds at run time
//     (hook pypi.VerifEnvironment), whatever way the source builds it;
//   - the operator type and the by-length table are found by role in the type-checked
//     package: the one package-level variable that is a slice of a package-local integer
//     type with constants;
//   - the constants and the elements of the table are evaluated by go/types (iota,
//     explicit values, named or converted constants alike);
//   - the String() texts are read from the String method of that type, in whichever
//     of the usual forms it is written (stringer's name/index tables, a switch over
//     the constants, a keyed table).
// The labels in `opNames` (the wire names between harness and driver, and the names the
// model's `opLess`… are checked against) are the PEP 508 operator each value prints as,
// not the identifier /repo happens to give the constant.
//
// NOT covered (would need a hook, see below): a by-length table that is not a literal of
// constants (built in init() or by a helper), a String method of another form.
// Hook that would make both a run-time reading, to be added to
// /repo/util/resolve/pypi/verif_on.go:
//
//	// VerifMarkerOps returns markerOpsByLength as integers and markerOp(v).String() for v = 0..n-1.
//	func VerifMarkerOps(n int) (byLength []int, texts []string)

import (
	rpypi "deps.dev/util/resolve/pypi"
	"fmt"
	"go/ast"
	"go/constant"
	"go/types"
	"path/filepath"
	"sort"
	"strconv"
	"strings"

	"golang.org/x/tools/go/packages"
	"verifharness/fw"
)

type pypiFacts struct {
	Markers   map[string]string
	EnvVars   [][3]string // key, name, value (sorted by key)
	OpNames   []string    // label of each operator value (by the PEP 508 operator it prints as)
	OpStrings []string    // String() of each
	ByLength  []int       // markerOpsByLength as markerOp values
}

// pep508Ops: the label under which an operator is known to the harness, the driver and
// the model, by its text.
var pep508Ops = map[string]string{
	"<=": "markerOpLessEqual", "<": "markerOpLess", "!=": "markerOpNotEqual", "==": "markerOpEqualEqual",
	">=": "markerOpGreaterEqual", ">": "markerOpGreater", "~=": "markerOpTildeEqual", "===": "markerOpEqualEqualEqual",
	"in": "markerOpIn", "not in": "markerOpNotIn",
}

// localIntType returns t as a named type declared in p with an integer underlying type.
func localIntType(p *packages.Package, t types.Type) *types.Named {
	nt, ok := t.(*types.Named)
	if !ok || nt.Obj().Pkg() != p.Types {
		return nil
	}
	if b, ok := nt.Underlying().(*types.Basic); !ok || b.Info()&types.IsInteger == 0 {
		return nil
	}
	return nt
}

// constsOf: value -> names of the package-level constants of type t (declaration order
// within one value is the scope's, i.e. alphabetical; only used for messages).
func constsOf(p *packages.Package, t *types.Named) map[int64][]string {
	out := map[int64][]string{}
	for _, n := range p.Types.Scope().Names() {
		c, ok := p.Types.Scope().Lookup(n).(*types.Const)
		if !ok || !types.Identical(c.Type(), t) {
			continue
		}
		if v, ok := constant.Int64Val(constant.ToInt(c.Val())); ok {
			out[v] = append(out[v], n)
		}
	}
	return out
}

// varInit returns the initialiser expression of a package-level variable.
func varInit(p *packages.Package, o types.Object) ast.Expr {
	for _, f := range p.Syntax {
		for _, d := range f.Decls {
			gd, ok := d.(*ast.GenDecl)
			if !ok {
				continue
			}
			for _, s := range gd.Specs {
				vs, ok := s.(*ast.ValueSpec)
				if !ok {
					continue
				}
				for i, n := range vs.Names {
					if p.TypesInfo.Defs[n] == o && i < len(vs.Values) {
						return vs.Values[i]
					}
				}
			}
		}
	}
	return nil
}

// intElems evaluates a composite literal of constant integers (positional or with
// constant index keys, as long as every position is given).
func intElems(p *packages.Package, e ast.Expr) ([]int, bool) {
	cl, ok := ast.Unparen(e).(*ast.CompositeLit)
	if !ok {
		return nil, false
	}
	at := map[int]int{}
	next := 0
	for _, el := range cl.Elts {
		val := el
		if kv, ok := el.(*ast.KeyValueExpr); ok {
			k, ok := fw.EvalInt(p, kv.Key)
			if !ok {
				return nil, false
			}
			next, val = int(k), kv.Value
		}
		v, ok := fw.EvalInt(p, val)
		if !ok {
			return nil, false
		}
		if _, dup := at[next]; dup {
			return nil, false
		}
		at[next] = int(v)
		next++
	}
	out := make([]int, len(at))
	for i := range out {
		v, ok := at[i]
		if !ok {
			return nil, false
		}
		out[i] = v
	}
	return out, true
}

// opTexts reads T.String() for the values 0..n-1.
func opTexts(p *packages.Package, t *types.Named, n int) ([]string, error) {
	var fd *ast.FuncDecl
	for _, f := range p.Syntax {
		for _, d := range f.Decls {
			x, ok := d.(*ast.FuncDecl)
			if !ok || x.Recv == nil || x.Name.Name != "String" || x.Body == nil || len(x.Recv.List) != 1 {
				continue
			}
			if tv, ok := p.TypesInfo.Types[x.Recv.List[0].Type]; ok && types.Identical(tv.Type, t) {
				fd = x
			}
		}
	}
	if fd == nil {
		return nil, fmt.Errorf("pypi: type %s has no String method", t.Obj().Name())
	}
	texts := map[int]string{}
	deflt, hasDeflt := "", false
	var tableErr error
	ast.Inspect(fd.Body, func(nd ast.Node) bool {
		switch x := nd.(type) {
		case *ast.SliceExpr:
			// stringer: NAME[INDEX[i]:INDEX[i+1]] with a constant NAME and a table INDEX
			name, ok := fw.EvalStr(p, x.X)
			lo, ok2 := ast.Unparen(x.Low).(*ast.IndexExpr)
			if !ok || !ok2 {
				return true
			}
			id, ok := ast.Unparen(lo.X).(*ast.Ident)
			if !ok {
				return true
			}
			offs, ok := intElems(p, varInit(p, p.TypesInfo.Uses[id]))
			if !ok {
				return true
			}
			if len(offs) != n+1 {
				tableErr = fmt.Errorf("the String tables of %s are stale: %d offsets for %d constants", t.Obj().Name(), len(offs), n)
				return true
			}
			for i := 0; i+1 < len(offs); i++ {
				if offs[i] < 0 || offs[i] > offs[i+1] || offs[i+1] > len(name) {
					tableErr = fmt.Errorf("the String index table of %s is out of range", t.Obj().Name())
					return true
				}
				texts[i] = name[offs[i]:offs[i+1]]
			}
		case *ast.CaseClause:
			// switch i { case A, B: return "text" }
			if len(x.Body) != 1 {
				return true
			}
			rs, ok := x.Body[0].(*ast.ReturnStmt)
			if !ok || len(rs.Results) != 1 {
				return true
			}
			s, ok := fw.EvalStr(p, rs.Results[0])
			if !ok {
				return true
			}
			if x.List == nil {
				deflt, hasDeflt = s, true
			}
			for _, e := range x.List {
				if tv, ok := p.TypesInfo.Types[e]; ok && tv.Value != nil && types.Identical(tv.Type, t) {
					if v, ok := constant.Int64Val(constant.ToInt(tv.Value)); ok {
						texts[int(v)] = s
					}
				}
			}
		case *ast.IndexExpr:
			// TABLE[i] with TABLE a package-level literal of constant strings (keyed or positional)
			id, ok := ast.Unparen(x.X).(*ast.Ident)
			if !ok {
				return true
			}
			o, ok := p.TypesInfo.Uses[id].(*types.Var)
			if !ok || o.Parent() != p.Types.Scope() {
				return true
			}
			cl, ok := ast.Unparen(varInit(p, o)).(*ast.CompositeLit)
			if !ok {
				return true
			}
			next := 0
			for _, el := range cl.Elts {
				val := el
				if kv, ok := el.(*ast.KeyValueExpr); ok {
					k, ok := fw.EvalInt(p, kv.Key)
					if !ok {
						return true
					}
					next, val = int(k), kv.Value
				}
				if s, ok := fw.EvalStr(p, val); ok {
					texts[next] = s
				}
				next++
			}
		}
		return true
	})
	if tableErr != nil {
		return nil, tableErr
	}
	out := make([]string, n)
	for v := 0; v < n; v++ {
		s, ok := texts[v]
		if !ok && hasDeflt {
			s, ok = deflt, true
		}
		if !ok {
			return nil, fmt.Errorf("pypi: cannot read %s(%d).String() from the source (not stringer tables, a switch over constants or a keyed table); a run-time hook is needed", t.Obj().Name(), v)
		}
		out[v] = s
	}
	return out, nil
}

func extractPypiFacts(repo string) (*pypiFacts, error) {
	out := &pypiFacts{Markers: map[string]string{}}

	// the environment, as the linked code holds it
	vars, platform := rpypi.VerifEnvironment()
	for k, v := range platform {
		out.Markers[k] = v
	}
	seen := map[string]bool{}
	for _, e := range vars {
		if seen[e[0]] {
			return nil, fmt.Errorf("environmentVariables: duplicate key %q", e[0])
		}
		seen[e[0]] = true
		out.EnvVars = append(out.EnvVars, e)
	}
	sort.SliceStable(out.EnvVars, func(i, j int) bool { return out.EnvVars[i][0] < out.EnvVars[j][0] })

	p, err := fw.LoadPkg(filepath.Join(repo, "util", "resolve", "pypi"))
	if err != nil {
		return nil, err
	}
	// the operator type and the by-length table: the package-level []T variable with T a
	// package-local integer type that has constants
	var opType *types.Named
	var table *types.Var
	for _, n := range p.Types.Scope().Names() {
		v, ok := p.Types.Scope().Lookup(n).(*types.Var)
		if !ok {
			continue
		}
		var elem types.Type
		switch u := v.Type().Underlying().(type) {
		case *types.Slice:
			elem = u.Elem()
		case *types.Array:
			elem = u.Elem()
		default:
			continue
		}
		if nt := localIntType(p, elem); nt != nil && len(constsOf(p, nt)) >= 2 {
			if table != nil {
				return nil, fmt.Errorf("pypi: two candidate operator tables (%s, %s)", table.Name(), v.Name())
			}
			opType, table = nt, v
		}
	}
	if table == nil {
		return nil, fmt.Errorf("pypi: no package-level table of operator constants found")
	}
	byVal := constsOf(p, opType)
	n := len(byVal)
	for v := 0; v < n; v++ {
		if len(byVal[int64(v)]) == 0 {
			return nil, fmt.Errorf("pypi: the constants of %s are not the values 0..%d", opType.Obj().Name(), n-1)
		}
	}
	if out.OpStrings, err = opTexts(p, opType, n); err != nil {
		return nil, err
	}
	// labels by role
	used := map[string]bool{}
	for v, s := range out.OpStrings {
		label, ok := pep508Ops[s]
		if !ok {
			label = "markerOpUnknown"
		}
		if used[label] {
			label = fmt.Sprintf("%s#%d", label, v) // two values print alike / two non-operators: the ties will refuse
		}
		used[label] = true
		out.OpNames = append(out.OpNames, label)
	}
	// the by-length table
	elems, ok := intElems(p, varInit(p, table))
	if !ok {
		return nil, fmt.Errorf("pypi: %s is not a literal of constants; reading it needs the hook pypi.VerifMarkerOps (see gen.go)", table.Name())
	}
	for _, v := range elems {
		if v < 0 || v >= n {
			return nil, fmt.Errorf("pypi: %s holds %d, not a declared operator", table.Name(), v)
		}
		out.ByLength = append(out.ByLength, v)
	}
	return out, nil
}

func leanBytesList(xs []string) string {
	parts := make([]string, len(xs))
	for i, x := range xs {
		parts[i] = fw.LeanBytes(x)
	}
	return "[" + strings.Join(parts, ",\n   ") + "]"
}

func genPypiEnv(repo string) (string, error) {
	f, err := extractPypiFacts(repo)
	if err != nil {
		return "", err
	}
	var b strings.Builder
	b.WriteString("/-! Data of deps.dev/util/resolve/pypi used by the marker model (property C16). -/\n")
	b.WriteString("namespace DepsDev.Gen.C16PypiEnv\n\n")
	keys := make([]string, 0, len(f.Markers))
	for k := range f.Markers {
		keys = append(keys, k)
	}
	sort.Strings(keys)
	b.WriteString("/-- `internal.Markers` as the linked code holds it, sorted by key: the fixed target environment. -/\n")
	b.WriteString("def markers : List (List UInt8 × List UInt8) :=\n  [")
	for i, k := range keys {
		if i > 0 {
			b.WriteString(",\n   ")
		}
		fmt.Fprintf(&b, "(%s /- %s -/, %s /- %s -/)", fw.LeanBytes(k), commentSafe(k), fw.LeanBytes(f.Markers[k]), commentSafe(f.Markers[k]))
	}
	b.WriteString("]\n\n")
	b.WriteString("/-- `environmentVariables` as the linked code holds it, sorted by key: (key, markerVar.name, markerVar.value). -/\n")
	b.WriteString("def envVars : List (List UInt8 × List UInt8 × List UInt8) :=\n  [")
	for i, e := range f.EnvVars {
		if i > 0 {
			b.WriteString(",\n   ")
		}
		fmt.Fprintf(&b, "(%s /- %s -/, %s, %s)", fw.LeanBytes(e[0]), commentSafe(e[0]), fw.LeanBytes(e[1]), fw.LeanBytes(e[2]))
	}
	b.WriteString("]\n\n")
	b.WriteString("/-- label of each `markerOp` value (index = value): the PEP 508 operator its `String()` prints. -/\n")
	b.WriteString("def opNames : List String :=\n  [")
	for i, n := range f.OpNames {
		if i > 0 {
			b.WriteString(", ")
		}
		b.WriteString(fw.LeanStr(n))
	}
	b.WriteString("]\n\n")
	b.WriteString("/-- `markerOp.String()` for each value. -/\n")
	b.WriteString("def opStrings : List (List UInt8) :=\n  " + leanBytesList(f.OpStrings) + "\n\n")
	b.WriteString("/-- `markerOpsByLength` as markerOp values. -/\n")
	b.WriteString("def markerOpsByLength : List Nat := [")
	for i, n := range f.ByLength {
		if i > 0 {
			b.WriteString(", ")
		}
		b.WriteString(strconv.Itoa(n))
	}
	b.WriteString("]\n\nend DepsDev.Gen.C16PypiEnv\n")
	return b.String(), nil
}

func commentSafe(s string) string {
	s = strings.ReplaceAll(s, "-/", "- /")
	s = strings.ReplaceAll(s, "/-", "/ -")
	var b strings.Builder
	for _, r := range s {
		if r < 0x20 || r > 0x7e {
			b.WriteByte('?')
		} else {
			b.WriteRune(r)
		}
	}
	return b.String()
}
