package main

// Independent reference implementation (spec side) of the parts of PEP 440 that
// packaging's marker evaluation uses: Version parsing/ordering and
// Specifier(...).contains(...) with the semantics of packaging 20.9 / 21.3 (the
// packaging that pip 21.1.3 vendors, which the library says it translates).
// Nothing here imports deps.dev/util/semver: it is the oracle's ground truth,
// transcribed from packaging/version.py and packaging/specifiers.py, and is
// validated against the real packaging (when installed) on every run.

import (
	"regexp"
	"strconv"
	"strings"
)

const versionPattern = `v?(?:(?:(?P<epoch>[0-9]+)!)?(?P<release>[0-9]+(?:\.[0-9]+)*)(?P<pre>[-_\.]?(?P<pre_l>(?:a|b|c|rc|alpha|beta|pre|preview))[-_\.]?(?P<pre_n>[0-9]+)?)?(?P<post>(?:-(?P<post_n1>[0-9]+))|(?:[-_\.]?(?P<post_l>post|rev|r)[-_\.]?(?P<post_n2>[0-9]+)?))?(?P<dev>[-_\.]?(?P<dev_l>dev)[-_\.]?(?P<dev_n>[0-9]+)?)?)(?:\+(?P<local>[a-z0-9]+(?:[-_\.][a-z0-9]+)*))?`

// Python's \s for str patterns on ASCII input.
const pyWs = `[ \t\n\r\f\v]*`

var versionRe = regexp.MustCompile(`(?i)^` + pyWs + versionPattern + pyWs + `$`)

// pre/post/dev pieces of the Specifier regex (no named groups there).
const (
	spRelease = `v?(?:[0-9]+!)?[0-9]+(?:\.[0-9]+)*`
	spRel2    = `v?(?:[0-9]+!)?[0-9]+(?:\.[0-9]+)+`
	spPre     = `(?:[-_\.]?(?:a|b|c|rc|alpha|beta|pre|preview)[-_\.]?[0-9]*)?`
	spPost    = `(?:(?:-[0-9]+)|(?:[-_\.]?(?:post|rev|r)[-_\.]?[0-9]*))?`
	spDev     = `(?:[-_\.]?dev[-_\.]?[0-9]*)?`
	spLocal   = `(?:\+[a-z0-9]+(?:[-_\.][a-z0-9]+)*)?`
)

var (
	specArbRe   = regexp.MustCompile(`(?i)^` + pyWs + `[^ \t\n\r\f\v]*` + pyWs + `$`)
	specEqRe    = regexp.MustCompile(`(?i)^` + pyWs + spRelease + spPre + spPost + `(?:` + spDev + spLocal + `|\.\*)?` + pyWs + `$`)
	specTildeRe = regexp.MustCompile(`(?i)^` + pyWs + spRel2 + spPre + spPost + spDev + pyWs + `$`)
	specOrdRe   = regexp.MustCompile(`(?i)^` + pyWs + spRelease + spPre + spPost + spDev + pyWs + `$`)
)

type pyVersion struct {
	epoch   int
	release []int
	pre     *[2]interface{} // letter, number
	post    *int
	dev     *int
	local   []interface{} // int or string
	hasLoc  bool
}

func atoi(s string) int {
	// Numbers in the generated pools are small; saturate instead of failing so
	// that a huge literal cannot crash the oracle.
	n, err := strconv.Atoi(s)
	if err != nil {
		return 1 << 62
	}
	return n
}

// refParseVersion is packaging.version.Version(s); ok=false ⇔ InvalidVersion.
func refParseVersion(s string) (*pyVersion, bool) {
	m := versionRe.FindStringSubmatch(s)
	if m == nil {
		return nil, false
	}
	g := func(name string) string { return m[versionRe.SubexpIndex(name)] }
	v := &pyVersion{}
	if e := g("epoch"); e != "" {
		v.epoch = atoi(e)
	}
	for _, p := range strings.Split(g("release"), ".") {
		v.release = append(v.release, atoi(p))
	}
	if g("pre") != "" {
		l, n := strings.ToLower(g("pre_l")), 0
		if g("pre_n") != "" {
			n = atoi(g("pre_n"))
		}
		switch l {
		case "alpha":
			l = "a"
		case "beta":
			l = "b"
		case "c", "pre", "preview":
			l = "rc"
		}
		v.pre = &[2]interface{}{l, n}
	}
	if g("post") != "" {
		n := 0
		if g("post_n1") != "" {
			n = atoi(g("post_n1"))
		} else if g("post_n2") != "" {
			n = atoi(g("post_n2"))
		}
		v.post = &n
	}
	if g("dev") != "" {
		n := 0
		if g("dev_n") != "" {
			n = atoi(g("dev_n"))
		}
		v.dev = &n
	}
	if loc := g("local"); loc != "" {
		v.hasLoc = true
		for _, p := range regexp.MustCompile(`[\._-]`).Split(strings.ToLower(loc), -1) {
			if isDigits(p) {
				v.local = append(v.local, atoi(p))
			} else {
				v.local = append(v.local, p)
			}
		}
	}
	return v, true
}

func isDigits(s string) bool {
	if s == "" {
		return false
	}
	for i := 0; i < len(s); i++ {
		if s[i] < '0' || s[i] > '9' {
			return false
		}
	}
	return true
}

func (v *pyVersion) isPre() bool  { return v.pre != nil || v.dev != nil }
func (v *pyVersion) isPost() bool { return v.post != nil }

// public / base versions as new values.
func (v *pyVersion) public() *pyVersion {
	w := *v
	w.local, w.hasLoc = nil, false
	return &w
}
func (v *pyVersion) base() *pyVersion {
	return &pyVersion{epoch: v.epoch, release: v.release}
}

// String is str(Version): the normalised text.
func (v *pyVersion) String() string {
	var b strings.Builder
	if v.epoch != 0 {
		b.WriteString(strconv.Itoa(v.epoch) + "!")
	}
	for i, r := range v.release {
		if i > 0 {
			b.WriteByte('.')
		}
		b.WriteString(strconv.Itoa(r))
	}
	if v.pre != nil {
		b.WriteString(v.pre[0].(string) + strconv.Itoa(v.pre[1].(int)))
	}
	if v.post != nil {
		b.WriteString(".post" + strconv.Itoa(*v.post))
	}
	if v.dev != nil {
		b.WriteString(".dev" + strconv.Itoa(*v.dev))
	}
	if v.hasLoc {
		b.WriteByte('+')
		for i, p := range v.local {
			if i > 0 {
				b.WriteByte('.')
			}
			switch x := p.(type) {
			case int:
				b.WriteString(strconv.Itoa(x))
			case string:
				b.WriteString(x)
			}
		}
	}
	return b.String()
}

// cmpKey components (packaging.version._cmpkey). Sentinels: -inf = -1<<60.. we
// encode each component as a small tuple of ints/strings compared in order.
const (
	negInf = -2
	posInf = 2
)

type keyPart struct {
	inf int // -2 = -Infinity, 2 = Infinity, 0 = a real value
	s   string
	n   int
}

func cmpPart(a, b keyPart) int {
	if a.inf != b.inf {
		if a.inf < b.inf {
			return -1
		}
		return 1
	}
	if a.inf != 0 {
		return 0
	}
	if a.s != b.s {
		if a.s < b.s {
			return -1
		}
		return 1
	}
	switch {
	case a.n < b.n:
		return -1
	case a.n > b.n:
		return 1
	}
	return 0
}

func refCmpVersion(a, b *pyVersion) int {
	if a.epoch != b.epoch {
		if a.epoch < b.epoch {
			return -1
		}
		return 1
	}
	ra, rb := stripZeros(a.release), stripZeros(b.release)
	for i := 0; i < len(ra) && i < len(rb); i++ {
		if ra[i] != rb[i] {
			if ra[i] < rb[i] {
				return -1
			}
			return 1
		}
	}
	if len(ra) != len(rb) {
		if len(ra) < len(rb) {
			return -1
		}
		return 1
	}
	pre := func(v *pyVersion) keyPart {
		switch {
		case v.pre == nil && v.post == nil && v.dev != nil:
			return keyPart{inf: negInf}
		case v.pre == nil:
			return keyPart{inf: posInf}
		}
		return keyPart{s: v.pre[0].(string), n: v.pre[1].(int)}
	}
	if c := cmpPart(pre(a), pre(b)); c != 0 {
		return c
	}
	post := func(v *pyVersion) keyPart {
		if v.post == nil {
			return keyPart{inf: negInf}
		}
		return keyPart{n: *v.post}
	}
	if c := cmpPart(post(a), post(b)); c != 0 {
		return c
	}
	dev := func(v *pyVersion) keyPart {
		if v.dev == nil {
			return keyPart{inf: posInf}
		}
		return keyPart{n: *v.dev}
	}
	if c := cmpPart(dev(a), dev(b)); c != 0 {
		return c
	}
	// local: None -> -Infinity; else tuple of (i, "") for ints, (-Infinity, s) for strings.
	if !a.hasLoc || !b.hasLoc {
		switch {
		case !a.hasLoc && !b.hasLoc:
			return 0
		case !a.hasLoc:
			return -1
		}
		return 1
	}
	for i := 0; i < len(a.local) && i < len(b.local); i++ {
		x, y := a.local[i], b.local[i]
		xi, xIsInt := x.(int)
		yi, yIsInt := y.(int)
		switch {
		case xIsInt && yIsInt:
			if xi != yi {
				if xi < yi {
					return -1
				}
				return 1
			}
		case xIsInt: // (i, "") > (-inf, s)
			return 1
		case yIsInt:
			return -1
		default:
			if x.(string) != y.(string) {
				if x.(string) < y.(string) {
					return -1
				}
				return 1
			}
		}
	}
	switch {
	case len(a.local) < len(b.local):
		return -1
	case len(a.local) > len(b.local):
		return 1
	}
	return 0
}

func stripZeros(r []int) []int {
	n := len(r)
	for n > 0 && r[n-1] == 0 {
		n--
	}
	return r[:n]
}

// specifier is packaging.specifiers.Specifier(op+version) after validation.
type specifier struct {
	op, version string
}

// refSpecifier mirrors Specifier.__init__: ok=false ⇔ InvalidSpecifier. The
// argument is the concatenation op+rhs exactly as markers._eval_op builds it.
func refSpecifier(op, rhs string) (specifier, bool) {
	var re *regexp.Regexp
	switch op {
	case "===":
		re = specArbRe
	case "==", "!=":
		re = specEqRe
	case "~=":
		re = specTildeRe
	case "<=", ">=", "<", ">":
		re = specOrdRe
	default:
		return specifier{}, false // "in", "not in": never a Specifier
	}
	if !re.MatchString(rhs) {
		return specifier{}, false
	}
	return specifier{op, strings.Trim(rhs, " \t\n\r\f\v")}, true
}

// prereleases is the Specifier.prereleases property with _prereleases=None.
func (s specifier) prereleases() bool {
	switch s.op {
	case "==", ">=", "<=", "~=", "===":
		v := s.version
		if s.op == "==" && strings.HasSuffix(v, ".*") {
			v = v[:len(v)-2]
		}
		if pv, ok := refParseVersion(v); ok {
			return pv.isPre()
		}
		// parse() falls back to LegacyVersion, whose is_prerelease is False.
	}
	return false
}

// contains is Specifier.contains(item) with prereleases=None.
func (s specifier) contains(item string) bool {
	pv, isVersion := refParseVersion(item)
	if isVersion && pv.isPre() && !s.prereleases() {
		return false
	}
	if s.op == "===" {
		// _compare_arbitrary: str(prospective).lower() == str(spec).lower();
		// str(LegacyVersion(x)) == x, str(Version(x)) is the normalised text.
		l := item
		if isVersion {
			l = pv.String()
		}
		return strings.ToLower(l) == strings.ToLower(s.version)
	}
	if !isVersion {
		// _require_version_compare: a LegacyVersion never matches.
		return false
	}
	return s.compare(pv)
}

var splitPreRe = regexp.MustCompile(`^([0-9]+)((?:a|b|c|rc)[0-9]+)$`)

func versionSplit(v string) []string {
	var out []string
	for _, item := range strings.Split(v, ".") {
		if m := splitPreRe.FindStringSubmatch(item); m != nil {
			out = append(out, m[1], m[2])
		} else {
			out = append(out, item)
		}
	}
	return out
}

func isNotSuffix(seg string) bool {
	for _, p := range []string{"dev", "a", "b", "rc", "post"} {
		if strings.HasPrefix(seg, p) {
			return false
		}
	}
	return true
}

func takeDigits(xs []string) (head, rest []string) {
	i := 0
	for i < len(xs) && isDigits(xs[i]) {
		i++
	}
	return xs[:i], xs[i:]
}

func padVersion(l, r []string) ([]string, []string) {
	lh, lr := takeDigits(l)
	rh, rr := takeDigits(r)
	var lo, ro []string
	lo = append(lo, lh...)
	for i := len(lh); i < len(rh); i++ {
		lo = append(lo, "0")
	}
	lo = append(lo, lr...)
	ro = append(ro, rh...)
	for i := len(rh); i < len(lh); i++ {
		ro = append(ro, "0")
	}
	ro = append(ro, rr...)
	return lo, ro
}

func eqStrs(a, b []string) bool {
	if len(a) != len(b) {
		return false
	}
	for i := range a {
		if a[i] != b[i] {
			return false
		}
	}
	return true
}

func (s specifier) compare(p *pyVersion) bool {
	mustV := func(t string) *pyVersion {
		v, ok := refParseVersion(t)
		if !ok {
			// The Specifier regex admits a few texts Version() rejects (none in
			// the generated pools); packaging would raise InvalidVersion.
			panic("ref: Version(" + t + ") invalid inside a valid Specifier")
		}
		return v
	}
	switch s.op {
	case "==":
		return s.equal(p)
	case "!=":
		return !s.equal(p)
	case "<=":
		return refCmpVersion(p.public(), mustV(s.version)) <= 0
	case ">=":
		return refCmpVersion(p.public(), mustV(s.version)) >= 0
	case "<":
		spec := mustV(s.version)
		if !(refCmpVersion(p, spec) < 0) {
			return false
		}
		if !spec.isPre() && p.isPre() && refCmpVersion(p.base(), spec.base()) == 0 {
			return false
		}
		return true
	case ">":
		spec := mustV(s.version)
		if !(refCmpVersion(p, spec) > 0) {
			return false
		}
		if !spec.isPost() && p.isPost() && refCmpVersion(p.base(), spec.base()) == 0 {
			return false
		}
		if p.hasLoc && refCmpVersion(p.base(), spec.base()) == 0 {
			return false
		}
		return true
	case "~=":
		// PEP 440: "~= V.N" is ">= V.N, == V.*" on the *normalised* version.
		// packaging <= 21 splits the raw text, so a non-canonical spelling
		// ("v3.9", "0!3.9", "3.9.6-rc.1") yields a garbage prefix; the
		// reference follows PEP 440 (and packaging >= 22) here, see
		// prefixQuirk.
		parts := versionSplit(normText(s.version))
		var keep []string
		for _, x := range parts {
			if !isNotSuffix(x) {
				break
			}
			keep = append(keep, x)
		}
		if len(keep) > 0 {
			keep = keep[:len(keep)-1]
		}
		prefix := strings.Join(keep, ".") + ".*"
		ge := specifier{">=", s.version}
		eq := specifier{"==", prefix}
		return ge.compare(p) && eq.compare(p)
	}
	panic("ref: operator " + s.op)
}

// normText is str(Version(t)) (t itself if it is not a version).
func normText(t string) string {
	if v, ok := refParseVersion(t); ok {
		return v.String()
	}
	return t
}

// prefixQuirk: packaging <= 21 does prefix matching ("== V.*", "~= V") on the
// specifier's raw text; it differs from PEP 440 when that text is not in
// normal form.
func prefixQuirk(op, rhs string) bool {
	sp, ok := refSpecifier(op, rhs)
	if !ok {
		return false
	}
	switch {
	case op == "~=":
		return normText(sp.version) != sp.version
	case (op == "==" || op == "!=") && strings.HasSuffix(sp.version, ".*"):
		t := sp.version[:len(sp.version)-2]
		return normText(t) != t
	}
	return false
}

func (s specifier) equal(p *pyVersion) bool {
	if strings.HasSuffix(s.version, ".*") {
		pub := p.public()
		splitSpec := versionSplit(normText(s.version[:len(s.version)-2]))
		splitP := versionSplit(pub.String())
		if len(splitP) > len(splitSpec) {
			splitP = splitP[:len(splitSpec)]
		}
		ps, pp := padVersion(splitSpec, splitP)
		return eqStrs(pp, ps)
	}
	spec, ok := refParseVersion(s.version)
	if !ok {
		panic("ref: Version(" + s.version + ")")
	}
	if !spec.hasLoc {
		p = p.public()
	}
	return refCmpVersion(p, spec) == 0
}
