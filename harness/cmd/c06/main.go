// c06 is the correspondence/oracle harness for property C06 (an npm resolution
// graph is a valid, loadable node_modules installation). Wire format of the op
// line: harness/universe/npm_universe.go; of the result line: result.go.
package main

import (
	"context"
	"errors"
	"os"
	"strconv"
	"strings"
	"syscall"
	"time"

	"deps.dev/util/resolve/npm"

	"verifharness/fw"
	"verifharness/universe"
)

const rule = "streams: (1) known-finding witnesses and corpus (npm/testdata universes incl. the bundle and alias ones, all roots; witnesses; " +
	"recorded disagreements); (2) npm/testdata read live through verifx, every version as root; (3) small-scope random universes " +
	"(2-4 packages, 1-3 versions), every version as root; (4) random universes per the quantifier (5-12 packages, 1-5 versions incl. " +
	"prereleases, Blocked, latest/next/beta dist-tags, regular/Opt/Dev/peer-/bundle-scoped requirements and the duplicates package.json " +
	"allows across its sections, every operator kind incl. hyphen, x-ranges, ||, tags, unsatisfiable and unparsable ones, scoped and " +
	"mixed-case names; cycles and version conflicts arise from uniform target choice), one third with KnownAs aliases (alias names " +
	"colliding with package names included), one eighth with optional peer/bundle-scoped requirements; (5) the same plus bundled " +
	"(derived) packages: bundle content two levels deep, copies missing from the registry, copies installed under another name, " +
	"requirements the bundled copy does or does not satisfy; (6) conflict cycles: small alias-free universes of (mostly exact) pins: the " +
	"template cycle p0@v->p1@v->...->p0@other-v with self-requirements (2-4 packages, randomly damaged) and dense random pins " +
	"(3-4 packages x 2-3 versions), every version as root - some of these resolutions do not terminate (F-C06-conflict-cycle). Quick tier: 12 random roots per universe of streams 4-5; thorough: every " +
	"version. One `classify` op per universe evaluates the theorems' hypotheses on both sides. A case is distinct by its op line; " +
	"non-trivial = resolution returned a graph with at least one edge, counted by distinct result line. Universes satisfy U1-U3. " +
	"The op line carries the model's fuel (queue pops): 2+|edges| of Go's own graph when Go finishes, 80 when Go is cut off after 0.3 s of CPU time."

// Deadline of one resolution; a hit is the result `timeout`. The budget is CPU time of
// this process (the harness runs one resolution at a time), not wall-clock time: a machine
// that stalls cannot turn a finishing resolution (microseconds of CPU) into `timeout`, and a
// genuinely non-terminating one is cut off after cpuBudget of work instead of a long wall
// wait. wallCap bounds the wait if the process gets no CPU at all.
var cpuBudget = 300 * time.Millisecond

const wallCap = 20 * time.Second

// Fuel. The Lean model of the main loop is fuel-bounded (one unit per queue pop)
// and the op line carries the fuel: a run pops at most 1 + |edges| times (every
// push is caused by an edge), so for a resolution on which Go finishes the
// harness gives 2 + |edges|; for one that hits the deadline it gives hangFuel,
// and the model must not finish within that many pops (it answers `timeout`).
// The cost of the path-keyed model grows like pops^4 on the ever-deeper trees of
// the non-terminating cases, hence the small number.
const hangFuel = 80

var memoLine, memoRes string

// exec runs the real resolver on one op.
func exec(f []string) string {
	if len(f) == 3 && f[0] == "classify" {
		h, err := hypsOf(f[1], f[2])
		if err != nil {
			return "bad-op"
		}
		return h.String()
	}
	if len(f) != 5 || f[0] != "resolve" || !strings.HasPrefix(f[3], "root=") || !strings.HasPrefix(f[4], "fuel=") {
		return "bad-op"
	}
	key := strings.Join(f[:4], " ")
	if key == memoLine {
		return memoRes
	}
	t, u, err := universe.NpmDecode(f[1], f[2])
	if err != nil {
		return "bad-op"
	}
	rn, rv, ok := parseRoot(t, f[3])
	if !ok {
		return "bad-op"
	}
	res := resolveOn(t, u, rn, rv)
	memoLine, memoRes = key, res
	return res
}

func parseRoot(t *universe.Table, f string) (string, string, bool) {
	nv := strings.Split(strings.TrimPrefix(f, "root="), "@")
	if len(nv) != 2 {
		return "", "", false
	}
	n, ok1 := atoiStr(t, nv[0])
	v, ok2 := atoiStr(t, nv[1])
	return n, v, ok1 && ok2
}

func cpuTime() time.Duration {
	var ru syscall.Rusage
	if err := syscall.Getrusage(syscall.RUSAGE_SELF, &ru); err != nil {
		return 0
	}
	return time.Duration(ru.Utime.Nano() + ru.Stime.Nano())
}

// resolveOn runs the resolver under the CPU budget.
func resolveOn(t *universe.Table, u *universe.NpmUniverse, rn, rv string) string {
	return resolveWithin(t, u, rn, rv, cpuBudget, wallCap)
}

// resolveWithin cancels the resolution when the process has used `cpu` of CPU time since the
// call started, or after `wall`.
func resolveWithin(t *universe.Table, u *universe.NpmUniverse, rn, rv string, cpu, wall time.Duration) string {
	lc := u.Client()
	var tree []npm.VerifTreeEntry
	ctx, cancel := context.WithTimeout(context.Background(), wall)
	defer cancel()
	done := make(chan struct{})
	defer close(done)
	start := cpuTime()
	go func() {
		tick := time.NewTicker(10 * time.Millisecond)
		defer tick.Stop()
		for {
			select {
			case <-done:
				return
			case <-tick.C:
				if cpuTime()-start >= cpu {
					cancel()
					return
				}
			}
		}
	}()
	ctx = npm.VerifWithTree(ctx, func(es []npm.VerifTreeEntry) { tree = es })
	g, err := npm.NewResolver(lc).Resolve(ctx, universe.NpmVK(rn, rv))
	if err != nil {
		if errors.Is(err, context.DeadlineExceeded) || ctx.Err() != nil {
			return "timeout"
		}
		return "err"
	}
	return render(t, g, tree)
}

// opLine builds the op line; the fuel is chosen from Go's own result (see hangFuel).
func opLine(table, body string, t *universe.Table, name, ver string) string {
	base := "C06 resolve " + table + " " + body + " root=" + t.Ix(name) + "@" + t.Ix(ver)
	res := exec(append(strings.Fields(base)[1:], "fuel=0"))
	fuel := hangFuel
	if strings.HasPrefix(res, "ok ") {
		fuel = 2 + edgeCount(res)
	}
	return base + " fuel=" + strconv.Itoa(fuel)
}

func edgeCount(res string) int {
	f := strings.Fields(res)
	if len(f) < 3 || f[2] == "E=-" {
		return 0
	}
	return strings.Count(f[2], ",") + 1
}

func main() {
	if len(os.Args) > 1 && tool(os.Args[1:]) {
		return
	}
	fw.Main(&fw.Prop{
		ID:       "C06",
		Rule:     rule,
		Exec:     exec,
		Run:      run,
		Recheck:  recheck,
		Classify: classify,
	})
}
