// c06 is the correspondence/oracle harness for property C06 (an npm resolution
// graph is a valid, loadable node_modules installation). Wire format of the op
// line: harness/universe/npm_universe.go; of the result line: result.go.
package main

import (
	"context"
	"errors"
	"os"
	"strconv"
	"strings"
	"time"

	"deps.dev/util/resolve/npm"

	"verifharness/fw"
	"verifharness/universe"
)

const rule = "streams: (1) known-finding witnesses and corpus (npm/testdata universes incl. the bundle and alias ones, all roots; witnesses; " +
	"recorded disagreements); (2) npm/testdata read live through verifx, every version as root; (3) small-scope random universes " +
	"(2-4 packages, 1-3 versions), every version as root; (4) random universes per the quantifier (5-12 packages, 1-5 versions incl. " +
	"prereleases, Blocked, latest/next/beta dist-tags, regular/Opt/Dev/peer-/bundle-scoped requirements and the duplicates package.json " +
	"allows across its sections, every operator kind incl. hyphen, x-ranges, ||, tags, unsatisfiable and unparsable ones, scoped and " +
	"mixed-case names; cycles and version conflicts arise from uniform target choice), one third with KnownAs aliases (alias names " +
	"colliding with package names included), one eighth with optional peer/bundle-scoped requirements; (5) the same plus bundled " +
	"(derived) packages: bundle content two levels deep, copies missing from the registry, copies installed under another name, " +
	"requirements the bundled copy does or does not satisfy. Quick tier: 12 random roots per universe of streams 4-5; thorough: every " +
	"version. One `classify` op per universe evaluates the theorems' hypotheses on both sides. A case is distinct by its op line; " +
	"non-trivial = resolution returned a graph with at least one edge, counted by distinct result line. Universes satisfy U1-U3. " +
	"The op line carries the model's fuel (queue pops): 2+|edges| of Go's own graph when Go finishes, 80 when Go hits its 1 s deadline."

// deadline of one resolution; a hit is the result `timeout`.
const deadline = 1 * time.Second

// Fuel. The Lean model of the main loop is fuel-bounded (one unit per queue pop)
// and the op line carries the fuel: a run pops at most 1 + |edges| times (every
// push is caused by an edge), so for a resolution on which Go finishes the
// harness gives 2 + |edges|; for one that hits the deadline it gives hangFuel,
// and the model must not finish within that many pops (it answers `timeout`).
// The cost of the path-keyed model grows like pops^4 on the ever-deeper trees of
// the non-terminating cases, hence the small number.
const hangFuel = 80

var memoLine, memoRes string

// exec runs the real resolver on one op.
func exec(f []string) string {
	if len(f) == 3 && f[0] == "classify" {
		h, err := hypsOf(f[1], f[2])
		if err != nil {
			return "bad-op"
		}
		return h.String()
	}
	if len(f) != 5 || f[0] != "resolve" || !strings.HasPrefix(f[3], "root=") || !strings.HasPrefix(f[4], "fuel=") {
		return "bad-op"
	}
	key := strings.Join(f[:4], " ")
	if key == memoLine {
		return memoRes
	}
	t, u, err := universe.NpmDecode(f[1], f[2])
	if err != nil {
		return "bad-op"
	}
	rn, rv, ok := parseRoot(t, f[3])
	if !ok {
		return "bad-op"
	}
	res := resolveOn(t, u, rn, rv)
	memoLine, memoRes = key, res
	return res
}

func parseRoot(t *universe.Table, f string) (string, string, bool) {
	nv := strings.Split(strings.TrimPrefix(f, "root="), "@")
	if len(nv) != 2 {
		return "", "", false
	}
	n, ok1 := atoiStr(t, nv[0])
	v, ok2 := atoiStr(t, nv[1])
	return n, v, ok1 && ok2
}

// resolveOn runs the resolver under the deadline; a run that hits it is repeated once
// with a much longer one, so that a machine stalled for a second cannot turn a finishing
// resolution into `timeout` (a genuinely non-terminating one costs 1 s + 5 s).
func resolveOn(t *universe.Table, u *universe.NpmUniverse, rn, rv string) string {
	res := resolveWithin(t, u, rn, rv, deadline)
	if res == "timeout" {
		res = resolveWithin(t, u, rn, rv, 5*deadline)
	}
	return res
}

func resolveWithin(t *universe.Table, u *universe.NpmUniverse, rn, rv string, deadline time.Duration) string {
	lc := u.Client()
	var tree []npm.VerifTreeEntry
	ctx, cancel := context.WithTimeout(context.Background(), deadline)
	defer cancel()
	ctx = npm.VerifWithTree(ctx, func(es []npm.VerifTreeEntry) { tree = es })
	g, err := npm.NewResolver(lc).Resolve(ctx, universe.NpmVK(rn, rv))
	if err != nil {
		if errors.Is(err, context.DeadlineExceeded) || ctx.Err() != nil {
			return "timeout"
		}
		return "err"
	}
	return render(t, g, tree)
}

// opLine builds the op line; the fuel is chosen from Go's own result (see hangFuel).
func opLine(table, body string, t *universe.Table, name, ver string) string {
	base := "C06 resolve " + table + " " + body + " root=" + t.Ix(name) + "@" + t.Ix(ver)
	res := exec(append(strings.Fields(base)[1:], "fuel=0"))
	fuel := hangFuel
	if strings.HasPrefix(res, "ok ") {
		fuel = 2 + edgeCount(res)
	}
	return base + " fuel=" + strconv.Itoa(fuel)
}

func edgeCount(res string) int {
	f := strings.Fields(res)
	if len(f) < 3 || f[2] == "E=-" {
		return 0
	}
	return strings.Count(f[2], ",") + 1
}

func main() {
	if len(os.Args) > 1 && tool(os.Args[1:]) {
		return
	}
	fw.Main(&fw.Prop{
		ID:       "C06",
		Rule:     rule,
		Exec:     exec,
		Run:      run,
		Recheck:  recheck,
		Classify: classify,
	})
}
