// c06 is the correspondence/oracle harness for property C06 (an npm resolution
// graph is a valid, loadable node_modules installation). Wire format of the op
// line: harness/universe/npm_universe.go; of the result line: result.go.
package main

import (
	"context"
	"errors"
	"strings"
	"time"

	"deps.dev/util/resolve/npm"

	"verifharness/fw"
	"verifharness/universe"
)

const rule = "streams: (1) known-finding witnesses and corpus (npm/testdata universes, all roots, + recorded shrunk cases); " +
	"(2) npm/testdata read live through verifx, every version as root; (3) small-scope random universes (2-4 packages, 1-3 versions); " +
	"(4) random universes per the quantifier (5-12 packages, 1-5 versions incl. prereleases, Blocked, latest/next/beta dist-tags, " +
	"regular/Opt/Dev/peer-/bundle-scoped requirements, every operator kind incl. hyphen, x-ranges, ||, tags, unsatisfiable and " +
	"unparsable ones, scoped and mixed-case names; cycles and version conflicts arise from uniform target choice), alias-free and " +
	"with KnownAs aliases (alias names colliding with package names included), and with bundled (derived) packages; every version of every " +
	"universe is resolved as root. A case is distinct by its op line; non-trivial = resolution returned a graph with at least one edge, " +
	"counted by distinct result line. Universes satisfy U1-U3. A universe on which Go finishes but needs more queue pops than the " +
	"driver's fuel is not emitted (counted as dropped.too-large)."

// deadline of one resolution; a hit is the result `timeout`.
const deadline = 2 * time.Second

// maxEdges bounds the graphs that are emitted: the model runs with
// driverFuel = 600 pops and a run pops at most 1 + |edges| times.
const maxEdges = 590

var memoLine, memoRes string

// exec runs the real resolver on one op.
func exec(f []string) string {
	if len(f) != 4 || f[0] != "resolve" || !strings.HasPrefix(f[3], "root=") {
		return "bad-op"
	}
	key := strings.Join(f, " ")
	if key == memoLine {
		return memoRes
	}
	t, u, err := universe.NpmDecode(f[1], f[2])
	if err != nil {
		return "bad-op"
	}
	rn, rv, ok := parseRoot(t, f[3])
	if !ok {
		return "bad-op"
	}
	res := resolveOn(t, u, rn, rv)
	memoLine, memoRes = key, res
	return res
}

func parseRoot(t *universe.Table, f string) (string, string, bool) {
	nv := strings.Split(strings.TrimPrefix(f, "root="), "@")
	if len(nv) != 2 {
		return "", "", false
	}
	n, ok1 := atoiStr(t, nv[0])
	v, ok2 := atoiStr(t, nv[1])
	return n, v, ok1 && ok2
}

func resolveOn(t *universe.Table, u *universe.NpmUniverse, rn, rv string) string {
	lc := u.Client()
	var tree []npm.VerifTreeEntry
	ctx, cancel := context.WithTimeout(context.Background(), deadline)
	defer cancel()
	ctx = npm.VerifWithTree(ctx, func(es []npm.VerifTreeEntry) { tree = es })
	g, err := npm.NewResolver(lc).Resolve(ctx, universe.NpmVK(rn, rv))
	if err != nil {
		if errors.Is(err, context.DeadlineExceeded) || ctx.Err() != nil {
			return "timeout"
		}
		return "err"
	}
	return render(t, g, tree)
}

func opLine(table, body string, t *universe.Table, name, ver string) string {
	return "C06 resolve " + table + " " + body + " root=" + t.Ix(name) + "@" + t.Ix(ver)
}

func main() {
	fw.Main(&fw.Prop{
		ID:       "C06",
		Rule:     rule,
		Exec:     exec,
		Run:      run,
		Recheck:  recheck,
		Classify: classify,
	})
}
