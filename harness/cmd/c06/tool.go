package main

import (
	"fmt"
	"io"
	"os"
	"runtime"
	"sort"
	"strconv"
	"time"
	"strings"

	"deps.dev/util/resolve"
	"deps.dev/util/resolve/schema"

	"verifharness/universe"
)

// Maintenance modes of the binary (not used by ./check):
//
//	c06 encode <name> <version> < universe.txt     schema notation → one op line on stdout
//	c06 decode < ops.txt                           op lines → root and universe in schema notation
//	c06 probe <seconds> < op.txt                   run the resolver once under a long wall deadline; outcome and allocation
//	c06 search <pkgs> <vers> <samples|0> [noself]  small-scope search for non-terminating resolutions among pinned universes
//	c06 shrink <clause> < op.txt                   delta-debug the universe while the clause still fails
//	c06 testdata-corpus                             npm/testdata universes, all roots → corpus records on stdout
func tool(args []string) bool {
	switch args[0] {
	case "encode":
		if len(args) != 3 {
			fmt.Fprintln(os.Stderr, "usage: c06 encode <name> <version> < universe.txt")
			os.Exit(2)
		}
		b, _ := io.ReadAll(os.Stdin)
		sch, err := schema.New(string(b), resolve.NPM)
		if err != nil {
			fmt.Fprintln(os.Stderr, err)
			os.Exit(2)
		}
		u := universe.NpmFromClient(sch.NewClient())
		tb, body, ok := universe.NpmEncode(u)
		if !ok {
			fmt.Fprintln(os.Stderr, "unstable encoding")
			os.Exit(2)
		}
		t, _ := universe.DecodeTable(tb)
		fmt.Println(opLine(tb, body, t, args[1], args[2]))
		return true
	case "decode":
		// c06 decode < file with op lines: prints root and universe text of each
		b, _ := io.ReadAll(os.Stdin)
		for _, line := range strings.Split(string(b), "\n") {
			if cd, err := decodeCase(strings.TrimSpace(line), ""); err == nil {
				fmt.Printf("root %s@%s\n%s\n", cd.root[0], cd.root[1], cd.u.Text())
			}
		}
		return true
	case "search":
		searchHangs(args[1:])
		return true
	case "probe":
		// c06 probe <seconds> < op.txt: run the resolver once under a long deadline; report heap growth
		b, _ := io.ReadAll(os.Stdin)
		cd, err := decodeCase(strings.TrimSpace(string(b)), "")
		if err != nil {
			fmt.Fprintln(os.Stderr, err)
			os.Exit(2)
		}
		secs, _ := strconv.Atoi(args[1])
		var m0, m1 runtime.MemStats
		runtime.ReadMemStats(&m0)
		start := time.Now()
		res := resolveWithin(cd.t, cd.u, cd.root[0], cd.root[1], 100*time.Duration(secs)*time.Second, time.Duration(secs)*time.Second)
		runtime.ReadMemStats(&m1)
		if len(res) > 80 {
			res = res[:80] + "…"
		}
		fmt.Printf("%s after %v; heap allocated during the run %d MB\n", res, time.Since(start).Round(time.Millisecond), (m1.TotalAlloc-m0.TotalAlloc)>>20)
		return true
	case "shrink":
		// c06 shrink <clause> < file with one op line: prints the shrunk op line and universe
		b, _ := io.ReadAll(os.Stdin)
		cd, err := decodeCase(strings.TrimSpace(string(b)), "")
		if err != nil {
			fmt.Fprintln(os.Stderr, err)
			os.Exit(2)
		}
		if args[1] == "terminates" {
			cpuBudget = 200 * time.Millisecond // many hanging candidates: keep each attempt short
		}
		su, sn, sv := shrink(cd.u, cd.root[0], cd.root[1], args[1])
		tb, body, ok := universe.NpmEncode(su)
		if !ok {
			os.Exit(2)
		}
		t, _ := universe.DecodeTable(tb)
		fmt.Println(opLine(tb, body, t, sn, sv))
		fmt.Fprintf(os.Stderr, "root %s@%s\n%s", sn, sv, su.Text())
		return true
	case "testdata-corpus":
		tds, err := testdataUniverses()
		if err != nil {
			fmt.Fprintln(os.Stderr, err)
			os.Exit(2)
		}
		var names []string
		for n := range tds {
			names = append(names, n)
		}
		sort.Strings(names)
		for _, n := range names {
			u := tds[n]
			tb, body, ok := universe.NpmEncode(u)
			if !ok {
				continue
			}
			t, _ := universe.DecodeTable(tb)
			fmt.Printf("# npm/testdata universe %s\n", n)
			for _, v := range u.Versions {
				if v.Attr.Has(universe.VerDerived) {
					continue
				}
				fmt.Printf("-\t%s\n", opLine(tb, body, t, v.Name, v.Version))
			}
		}
		return true
	}
	return false
}
