package main

import (
	"fmt"
	"sort"
	"strconv"
	"strings"

	"deps.dev/util/resolve"
	"deps.dev/util/resolve/npm"

	"verifharness/universe"
)

// Result line (all strings as indices into the op line's table):
//
//	ok N=<node>,<node>…  E=<edge>,<edge>…  T=<entry>,<entry>…         (`-` = empty list)
//	node  = <name>@<ver>{!<pkg>@<req>}          in NodeID order, errors in the order they were added
//	edge  = <from>><to>:<req>:<mask>:<k=v+k=v…|->    in the order they were added
//	entry = <path>:<name>@<ver>#<id>:<flags>:<protected>:<aliasProtected>
//	        path = slot names from the root joined by `/` (`.` = the root); flags ⊆ "a" (alias slot) "b" (bundled) "p" (processed),
//	        `-` = none; the two sets as sorted indices joined by `+`; entries sorted by (path, alias flag)
//
// A fourth field ` X=<name>@<ver>+…` lists Graph.Error's unused bundled versions (sorted index pairs).
//
// Node ids and the order of edges and errors are produced deterministically by
// Resolve (no map iteration is involved) and are compared as they are; what
// comes out of Go maps (children, protected sets) is sorted. Error messages are
// not part of the result.

func atoiStr(t *universe.Table, s string) (string, bool) {
	i, err := strconv.Atoi(s)
	if err != nil {
		return "", false
	}
	return t.Str(i)
}

func joinOr(sep string, xs []string) string {
	if len(xs) == 0 {
		return "-"
	}
	return strings.Join(xs, sep)
}

func renderAttrs(t *universe.Table, a universe.AttrSet) string {
	var ps []string
	for _, x := range a.Attrs {
		ps = append(ps, fmt.Sprintf("%d=%s", x.Key, t.Ix(x.Val)))
	}
	return fmt.Sprintf("%d:%s", a.Mask, joinOr("+", ps))
}

func ixSet(t *universe.Table, names []string) string {
	var is []int
	var unk []string
	for _, n := range names {
		if i, err := strconv.Atoi(t.Ix(n)); err == nil {
			is = append(is, i)
		} else {
			unk = append(unk, "?")
		}
	}
	sort.Ints(is)
	out := unk
	for _, i := range is {
		out = append(out, strconv.Itoa(i))
	}
	return joinOr("+", out)
}

type treeKeyed struct {
	key []int
	s   string
}

func lexLe(a, b []int) bool {
	for i := 0; ; i++ {
		if i == len(a) {
			return true
		}
		if i == len(b) {
			return false
		}
		if a[i] != b[i] {
			return a[i] < b[i]
		}
	}
}

func render(t *universe.Table, g *resolve.Graph, tree []npm.VerifTreeEntry) string {
	var ns, es []string
	for _, n := range g.Nodes {
		s := t.Ix(n.Version.Name) + "@" + t.Ix(n.Version.Version)
		for _, e := range n.Errors {
			s += "!" + t.Ix(e.Req.Name) + "@" + t.Ix(e.Req.Version)
		}
		ns = append(ns, s)
	}
	for _, e := range g.Edges {
		es = append(es, fmt.Sprintf("%d>%d:%s:%s", e.From, e.To, t.Ix(e.Requirement), renderAttrs(t, universe.DepTypeOf(e.Type))))
	}
	var ts []treeKeyed
	for _, e := range tree {
		var key []int
		var ps []string
		for _, p := range e.Path {
			ix := t.Ix(p)
			ps = append(ps, ix)
			i, _ := strconv.Atoi(ix)
			key = append(key, i)
		}
		flags := ""
		if e.Alias {
			flags += "a"
			key = append(key, 1)
		} else {
			key = append(key, 0)
		}
		if e.Bundled {
			flags += "b"
		}
		if e.Processed {
			flags += "p"
		}
		if flags == "" {
			flags = "-"
		}
		path := "."
		if len(ps) > 0 {
			path = strings.Join(ps, "/")
		}
		ts = append(ts, treeKeyed{key, fmt.Sprintf("%s:%s@%s#%d:%s:%s:%s", path, t.Ix(e.Name), t.Ix(e.Version), e.ID, flags,
			ixSet(t, e.Protected), ixSet(t, e.AliasProtected))})
	}
	sort.SliceStable(ts, func(i, j int) bool { return !lexLe(ts[j].key, ts[i].key) })
	var tl []string
	for _, x := range ts {
		tl = append(tl, x.s)
	}
	s := "ok N=" + joinOr(",", ns) + " E=" + joinOr(",", es) + " T=" + joinOr(",", tl)
	if g.Error != "" {
		// Graph.Error lists the unused bundled versions ("unused bundled version <name> <version>",
		// sorted, comma separated): rendered as index pairs sorted numerically.
		type pr struct{ n, v int }
		var ps []pr
		bad := false
		for _, m := range strings.Split(g.Error, ",") {
			m, ok := strings.CutPrefix(m, "unused bundled version ")
			i := strings.LastIndex(m, " ")
			if !ok || i < 0 {
				bad = true
				continue
			}
			n, e1 := strconv.Atoi(t.Ix(m[:i]))
			v, e2 := strconv.Atoi(t.Ix(m[i+1:]))
			if e1 != nil || e2 != nil {
				bad = true
			}
			ps = append(ps, pr{n, v})
		}
		sort.Slice(ps, func(i, j int) bool {
			if ps[i].n != ps[j].n {
				return ps[i].n < ps[j].n
			}
			return ps[i].v < ps[j].v
		})
		var xs []string
		for _, p := range ps {
			xs = append(xs, fmt.Sprintf("%d@%d", p.n, p.v))
		}
		if bad {
			xs = append(xs, "?")
		}
		s += " X=" + strings.Join(xs, "+")
	}
	return s
}

// ---- parsing a result line back (oracles work on op line + result line only)

type rNode struct {
	Name, Ver string
	Errs      [][2]string // pkg, req
}

type rEdge struct {
	From, To int
	Req      string
	Type     universe.AttrSet
}

type rEntry struct {
	Path      []string
	Name, Ver string
	ID        int
	Alias     bool
	Processed bool
	Prot      []string
	AProt     []string
}

type result struct {
	Nodes []rNode
	Edges []rEdge
	Tree  []rEntry
}

func splitList(s string, sep string) []string {
	if s == "-" {
		return nil
	}
	return strings.Split(s, sep)
}

func parseResult(t *universe.Table, res string) (*result, error) {
	f := strings.Fields(res)
	if len(f) < 4 || f[0] != "ok" || !strings.HasPrefix(f[1], "N=") || !strings.HasPrefix(f[2], "E=") || !strings.HasPrefix(f[3], "T=") {
		return nil, fmt.Errorf("not an ok result")
	}
	r := &result{}
	str := func(s string) string {
		v, ok := atoiStr(t, s)
		if !ok {
			panic("bad index in result: " + s)
		}
		return v
	}
	var perr error
	func() {
		defer func() {
			if x := recover(); x != nil {
				perr = fmt.Errorf("%v", x)
			}
		}()
		for _, ns := range splitList(f[1][2:], ",") {
			parts := strings.Split(ns, "!")
			nv := strings.Split(parts[0], "@")
			n := rNode{Name: str(nv[0]), Ver: str(nv[1])}
			for _, e := range parts[1:] {
				pq := strings.Split(e, "@")
				n.Errs = append(n.Errs, [2]string{str(pq[0]), str(pq[1])})
			}
			r.Nodes = append(r.Nodes, n)
		}
		for _, es := range splitList(f[2][2:], ",") {
			p := strings.Split(es, ":")
			ft := strings.Split(p[0], ">")
			from, _ := strconv.Atoi(ft[0])
			to, _ := strconv.Atoi(ft[1])
			mask, _ := strconv.Atoi(p[2])
			e := rEdge{From: from, To: to, Req: str(p[1]), Type: universe.AttrSet{Mask: mask}}
			for _, kv := range splitList(p[3], "+") {
				x := strings.Split(kv, "=")
				k, _ := strconv.Atoi(x[0])
				e.Type.Attrs = append(e.Type.Attrs, universe.Attr{Key: k, Val: str(x[1])})
			}
			r.Edges = append(r.Edges, e)
		}
		for _, ts := range splitList(f[3][2:], ",") {
			p := strings.Split(ts, ":")
			en := rEntry{}
			if p[0] != "." {
				for _, s := range strings.Split(p[0], "/") {
					en.Path = append(en.Path, str(s))
				}
			}
			nvid := strings.Split(p[1], "#")
			nv := strings.Split(nvid[0], "@")
			en.Name, en.Ver = str(nv[0]), str(nv[1])
			en.ID, _ = strconv.Atoi(nvid[1])
			en.Alias = strings.Contains(p[2], "a")
			en.Processed = strings.Contains(p[2], "p")
			for _, s := range splitList(p[3], "+") {
				en.Prot = append(en.Prot, str(s))
			}
			for _, s := range splitList(p[4], "+") {
				en.AProt = append(en.AProt, str(s))
			}
			r.Tree = append(r.Tree, en)
		}
	}()
	if perr != nil {
		return nil, perr
	}
	return r, nil
}
