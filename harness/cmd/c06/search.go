package main

import (
	"context"
	"fmt"
	"math/rand"
	"strconv"
	"time"

	"deps.dev/util/resolve"
	"deps.dev/util/resolve/npm"

	"verifharness/universe"
)

// searchHangs (tool mode `search <pkgs> <vers> <samples|0=exhaustive>`): small-scope search for
// non-terminating resolutions among universes whose requirements are exact version pins
// (every version has at most one requirement per package, self-requirements included).
func searchHangs(args []string) {
	np, _ := strconv.Atoi(args[0])
	nv, _ := strconv.Atoi(args[1])
	samples, _ := strconv.Atoi(args[2])
	noself := len(args) > 3 && args[3] == "noself"
	names := []string{"a", "b", "c", "d"}[:np]
	vers := []string{"1.0.0", "2.0.0", "3.0.0"}[:nv]
	slots := np * nv       // versions in the universe
	choices := nv + 1      // per (version, package): none or one of the versions
	digits := slots * np   // one digit per (version, package)
	build := func(code []int) *universe.NpmUniverse {
		u := &universe.NpmUniverse{}
		k := 0
		for _, p := range names {
			for _, v := range vers {
				x := universe.NpmVersion{Name: p, Version: v}
				for _, q := range names {
					if c := code[k]; c > 0 {
						x.Imports = append(x.Imports, universe.NpmImport{Name: q, Req: vers[c-1]})
					}
					k++
				}
				u.Versions = append(u.Versions, x)
			}
		}
		return u
	}
	hangs, tried, unclassified := 0, 0, 0
	best := 1 << 30
	selfDigit := func(i int) bool { return (i/np)/nv == i%np } // digit i: version slot i/np (package (i/np)/nv), target package i%np
	try := func(code []int) {
		if noself {
			for i, c := range code {
				if c > 0 && selfDigit(i) {
					return
				}
			}
		}
		u := build(code)
		lc := u.Client()
		for _, v := range vers { // roots: versions of the first package (the others by symmetry)
			tried++
			ctx, cancel := context.WithTimeout(context.Background(), 100*time.Millisecond)
			_, err := npm.NewResolver(lc).Resolve(ctx, resolve.VersionKey{PackageKey: resolve.PackageKey{System: resolve.NPM, Name: names[0]}, VersionType: resolve.Concrete, Version: v})
			cancel()
			if err != nil && ctx.Err() != nil {
				hangs++
				if tb, body, ok := universe.NpmEncode(u.Normalize()); ok {
					nu := u.Normalize()
					inClass := false
					if h, err := hypsOf(tb, body); err == nil {
						for i, x := range nu.Versions {
							if x.Name == names[0] && x.Version == v && h.ConflictCycle[i] {
								inClass = true
							}
						}
					}
					if !inClass {
						unclassified++
						fmt.Printf("UNCLASSIFIED hang, root %s@%s\n%s\n", names[0], v, u.Text())
					}
				}
				n := 0
				for _, c := range code {
					if c > 0 {
						n++
					}
				}
				if n < best {
					best = n
					fmt.Printf("hang with %d requirements, root %s@%s\n%s\n", n, names[0], v, u.Text())
				}
			}
		}
	}
	code := make([]int, digits)
	if samples == 0 {
		for {
			try(code)
			i := 0
			for ; i < digits; i++ {
				code[i]++
				if code[i] < choices {
					break
				}
				code[i] = 0
			}
			if i == digits {
				break
			}
		}
	} else {
		r := rand.New(rand.NewSource(1))
		for s := 0; s < samples; s++ {
			for i := range code {
				code[i] = 0
				if r.Intn(2) == 0 && !(noself && selfDigit(i)) {
					code[i] = 1 + r.Intn(nv)
				}
			}
			try(code)
		}
	}
	fmt.Printf("%d packages x %d versions: %d resolutions, %d hangs, %d of them outside ConflictCycle\n", np, nv, tried, hangs, unclassified)
}
