package main

import (
	"fmt"
	"math/rand"
	"os"
	"sort"
	"strings"

	"deps.dev/util/resolve"
	"deps.dev/util/resolve/verifx"

	"verifharness/fw"
	"verifharness/universe"
)

// repoRoot is the tree under test (env VERIF_REPO; default /repo).
func repoRoot() string {
	if r := os.Getenv("VERIF_REPO"); r != "" {
		return r
	}
	return "/repo"
}

// testdataUniverses reads the repository's own npm test universes through the
// verifx hook (sorted by name).
func testdataUniverses() (map[string]*universe.NpmUniverse, error) {
	testdataDir := repoRoot() + "/util/resolve/npm/testdata/"
	a, err := verifx.ParseTestFiles(resolve.NPM,
		testdataDir+"resolve_test.data", testdataDir+"resolve_test.want",
		testdataDir+"derivedfrom_test.data", testdataDir+"derivedfrom_test.want",
		testdataDir+"deleted_test.data", testdataDir+"deleted_test.want",
		testdataDir+"alias.data", testdataDir+"alias.want")
	if err != nil {
		return nil, err
	}
	out := map[string]*universe.NpmUniverse{}
	for name, lc := range a.Universe {
		out[name] = universe.NpmFromClient(lc)
	}
	return out, nil
}

type runner struct {
	c      *fw.Ctx
	shrunk int
}

func features(u *universe.NpmUniverse) string {
	switch {
	case u.HasBundle():
		return "bundle"
	case u.HasAlias():
		return "alias"
	}
	return "plain"
}

// one resolves one root of an encoded universe, evaluates every clause, and
// records failures (shrunk first when they are not in a known class).
func (r *runner) one(stream string, u *universe.NpmUniverse, table, body string, t *universe.Table, name, ver string) {
	c := r.c
	line := opLine(table, body, t, name, ver)
	i, res := c.Op(line)
	feat := features(u)
	c.Count("stream." + stream)
	c.Count("universe." + feat)
	switch {
	case res == "err":
		c.Count("result.err")
	case res == "timeout":
		c.Count("result.timeout")
	case strings.HasPrefix(res, "ok "):
		c.Count("result.ok")
		f := strings.Fields(res)
		ne := 0
		if f[2] != "E=-" {
			ne = strings.Count(f[2], ",") + 1
			c.Nontrivial(res)
		}
		nt := strings.Count(f[3], ",") + 1
		depth := 0
		for _, en := range strings.Split(f[3][2:], ",") {
			if d := strings.Count(strings.SplitN(en, ":", 2)[0], "/") + 1; !strings.HasPrefix(en, ".:") && d > depth {
				depth = d
			}
		}
		c.Count(fmt.Sprintf("edges.%s", bucket(ne)))
		c.Count(fmt.Sprintf("tree.depth.%d", min(depth, 6)))
		if strings.Contains(f[1], "!") {
			c.Count("graph.with-errors")
		}
		if nt > 1 && depth > 1 {
			c.Count("tree.nested")
		}
	default:
		c.Count("result.other")
	}
	cd := &caseData{t, u, [2]string{name, ver}, res}
	bad := evalClauses(cd)
	c.Tally(int64(len(clauses) - len(bad)))
	if len(bad) == 0 {
		return
	}
	var ks []string
	for k := range bad {
		ks = append(ks, k)
	}
	sort.Strings(ks)
	for _, k := range ks {
		c.Count("clause-failed." + k + "." + feat)
		cls := classify(k, []string{line}, []string{res})
		if cls == "" && r.shrunk < 6 {
			// unclassified: shrink the universe while the clause still fails, record the small case
			r.shrunk++
			su, sn, sv := shrink(u, name, ver, k)
			if st, sb, ok := universe.NpmEncode(su); ok {
				stt, _ := universe.DecodeTable(st)
				sl := opLine(st, sb, stt, sn, sv)
				if si, _ := c.Op(sl); !c.Check(k, si) {
					continue
				}
			}
		}
		c.Check(k, i)
	}
}

func bucket(n int) string {
	switch {
	case n == 0:
		return "0"
	case n <= 3:
		return "1-3"
	case n <= 10:
		return "4-10"
	case n <= 30:
		return "11-30"
	case n <= 100:
		return "31-100"
	}
	return "100+"
}

// all resolves roots of the universe: every version, or at most maxRoots random ones.
func (r *runner) all(stream string, u *universe.NpmUniverse, maxRoots int) {
	if !universe.NpmU1U2(u) || !universe.NpmU3(u) {
		r.c.Count("dropped.not-wf")
		return
	}
	table, body, ok := universe.NpmEncode(u)
	if !ok {
		r.c.Count("dropped.unstable-encoding")
		return
	}
	t, err := universe.DecodeTable(table)
	if err != nil {
		panic(err)
	}
	if _, res := r.c.Op("C06 classify " + table + " " + body); strings.HasPrefix(res, "ok ") {
		for _, kv := range strings.Fields(res)[1:] {
			if bs, ok := strings.CutPrefix(kv, "conflictcycle="); ok {
				for _, b := range bs {
					r.c.Count("hyp.conflictcycle.root=" + string(b))
				}
				continue
			}
			r.c.Count("hyp." + kv)
		}
	}
	idx := r.c.Rng.Perm(len(u.Versions))
	if maxRoots > 0 && len(idx) > maxRoots {
		idx = idx[:maxRoots]
	}
	sort.Ints(idx)
	for _, i := range idx {
		v := u.Versions[i]
		if v.Attr.Has(universe.VerDerived) {
			continue // a derived package is not a root anybody resolves
		}
		r.one(stream, u, table, body, t, v.Name, v.Version)
	}
}

func run(c *fw.Ctx) {
	r := &runner{c: c}
	// (2) the repository's own universes
	tds, err := testdataUniverses()
	if err != nil {
		c.Note("npm/testdata could not be read: " + err.Error())
	} else {
		var names []string
		for n := range tds {
			names = append(names, n)
		}
		sort.Strings(names)
		for _, n := range names {
			r.all("testdata", tds[n], 0)
		}
	}
	// (3) small scope
	for k := 0; k < c.N(450, 8000); k++ {
		r.all("small", universe.GenNpm(c.Rng, universe.NpmGenOpts{Small: true, Aliases: k%4 == 3}), 0)
	}
	// (4) per the quantifier
	for k := 0; k < c.N(400, 2400); k++ {
		r.all("random", universe.GenNpm(c.Rng, universe.NpmGenOpts{Aliases: k%3 == 2}), c.N(12, 0))
	}
	// (5) with bundled (derived) packages: graph clauses only; answered by the extended model
	for k := 0; k < c.N(160, 1500); k++ {
		r.all("bundle", universe.GenNpm(c.Rng, universe.NpmGenOpts{Bundles: true, Small: k%3 == 0}), c.N(12, 0))
	}
	// (6) conflict cycles (F-C06-conflict-cycle): the template cycle and dense pinned universes
	for k := 0; k < c.N(16, 150); k++ {
		r.all("conflict", universe.GenNpmConflict(c.Rng), 0)
	}
	if os.Getenv("C06_SAMPLES") != "" {
		c.Note("samples requested")
	}
	u := universe.GenNpm(rand.New(rand.NewSource(c.Seed)), universe.NpmGenOpts{})
	c.Sample("a generated universe:\n" + u.Text())
}

// shrink deletes versions, imports and attributes while the clause still fails
// for some root (the root is kept unless a smaller failing root exists).
func shrink(u *universe.NpmUniverse, name, ver, clause string) (*universe.NpmUniverse, string, string) {
	fails := func(x *universe.NpmUniverse, n, v string) bool {
		if findVersion(x, n, v) == nil || !universe.NpmU1U2(x) || !universe.NpmU3(x) {
			return false
		}
		tb, body, ok := universe.NpmEncode(x)
		if !ok {
			return false
		}
		t, err := universe.DecodeTable(tb)
		if err != nil {
			return false
		}
		line := opLine(tb, body, t, n, v)
		res := exec(strings.Fields(line)[1:])
		_, bad := evalClauses(&caseData{t, x, [2]string{n, v}, res})[clause]
		return bad
	}
	clone := func(x *universe.NpmUniverse) *universe.NpmUniverse {
		y := &universe.NpmUniverse{}
		for _, v := range x.Versions {
			w := v
			w.Attr = v.Attr.Clone()
			w.Imports = nil
			for _, d := range v.Imports {
				e := d
				e.Type = d.Type.Clone()
				w.Imports = append(w.Imports, e)
			}
			y.Versions = append(y.Versions, w)
		}
		return y
	}
	cur := clone(u)
	for changed := true; changed; {
		changed = false
		// delete a version
		for i := 0; i < len(cur.Versions); i++ {
			if cur.Versions[i].Name == name && cur.Versions[i].Version == ver {
				continue
			}
			y := clone(cur)
			y.Versions = append(y.Versions[:i], y.Versions[i+1:]...)
			y = y.Normalize()
			if fails(y, name, ver) {
				cur, changed = y, true
				i--
			}
		}
		// delete an import
		for i := 0; i < len(cur.Versions); i++ {
			for j := 0; j < len(cur.Versions[i].Imports); j++ {
				y := clone(cur)
				im := y.Versions[i].Imports
				y.Versions[i].Imports = append(im[:j], im[j+1:]...)
				y = y.Normalize()
				if fails(y, name, ver) {
					cur, changed = y, true
					j--
				}
			}
		}
		// drop attributes
		for i := 0; i < len(cur.Versions); i++ {
			if !cur.Versions[i].Attr.IsRegular() {
				y := clone(cur)
				y.Versions[i].Attr = universe.AttrSet{}
				y = y.Normalize()
				if fails(y, name, ver) {
					cur, changed = y, true
				}
			}
			for j := 0; j < len(cur.Versions[i].Imports); j++ {
				d := cur.Versions[i].Imports[j]
				if d.Type.IsRegular() {
					continue
				}
				y := clone(cur)
				y.Versions[i].Imports[j].Type = universe.AttrSet{}
				y = y.Normalize()
				if fails(y, name, ver) {
					cur, changed = y, true
				}
			}
		}
	}
	return cur, name, ver
}
