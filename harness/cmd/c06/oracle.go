package main

import (
	"fmt"
	"sort"
	"strings"

	"deps.dev/util/semver"

	"verifharness/universe"
)

// The direct oracle: the clauses of C06 evaluated on Go's own output (op line +
// result line), with requirement matching and version ordering done here through
// util/semver directly (neither the resolver nor match.go is consulted).
//
//	terminates  the resolution returned before the deadline
//	E1  every edge leads to a version of the required package that satisfies the requirement
//	    (range, dist-tag/exact string, or `*`)
//	E2  every non-dev, non-peer requirement of every node's version has an edge or an error on that node
//	E3  every node is reachable from node 0
//	E4  an edge created by a fresh install (Selector attribute) goes to: the `latest`-tagged version if it
//	    satisfies the requirement, else the highest satisfying non-Blocked version, else the highest satisfying
//	T1  no two tree entries share (directory, slot name)                      [bundle-free universes]
//	T2  Node's walk-up lookup of the dependency's effective name from the dependent's directory lands on
//	    the tree entry of the edge's target                                      [bundle-free universes]
var clauses = []string{"terminates", "E1", "E2", "E3", "E4", "T1", "T2"}

type caseData struct {
	t    *universe.Table
	u    *universe.NpmUniverse
	root [2]string
	res  string
}

func decodeCase(op, res string) (*caseData, error) {
	f := strings.Fields(op)
	if len(f) != 6 || f[0] != "C06" || f[1] != "resolve" {
		return nil, fmt.Errorf("not a resolve op")
	}
	t, u, err := universe.NpmDecode(f[2], f[3])
	if err != nil {
		return nil, err
	}
	rn, rv, ok := parseRoot(t, f[4])
	if !ok {
		return nil, fmt.Errorf("bad root")
	}
	return &caseData{t, u, [2]string{rn, rv}, res}, nil
}

func findVersion(u *universe.NpmUniverse, name, ver string) *universe.NpmVersion {
	for i := range u.Versions {
		if u.Versions[i].Name == name && u.Versions[i].Version == ver {
			return &u.Versions[i]
		}
	}
	return nil
}

func hasTag(v *universe.NpmVersion, tag string) bool {
	tags, ok := v.Attr.Get(universe.VerTags)
	if !ok {
		return false
	}
	for _, t := range strings.Split(tags, ",") {
		if t == tag {
			return true
		}
	}
	return false
}

// satisfies: does the concrete version satisfy the requirement string?
func satisfies(req string, v *universe.NpmVersion) bool {
	if req == "*" {
		return true
	}
	c, err := semver.NPM.ParseConstraint(req)
	if err == nil {
		return c.Match(v.Version)
	}
	return req == v.Version || hasTag(v, req)
}

// satisfying returns the versions of pkg that a FRESH install may choose from.
// For a requirement that is not a range the registry resolves a dist-tag (or an
// exact string) to a single version.
func satisfying(u *universe.NpmUniverse, pkg, req string) []*universe.NpmVersion {
	var out []*universe.NpmVersion
	c, err := semver.NPM.ParseConstraint(req)
	for i := range u.Versions {
		v := &u.Versions[i]
		if v.Name != pkg {
			continue
		}
		if err == nil {
			if c.Match(v.Version) {
				out = append(out, v)
			}
		} else if req == v.Version || hasTag(v, req) {
			out = append(out, v)
		}
	}
	return out
}

func semverLess(a, b string) bool {
	va, ea := semver.NPM.Parse(a)
	vb, eb := semver.NPM.Parse(b)
	if (ea == nil) != (eb == nil) {
		return ea == nil
	}
	if ea == nil {
		if c := va.Compare(vb); c != 0 {
			return c < 0
		}
	}
	return a < b
}

// expectedPick is the specification of a fresh install.
func expectedPick(u *universe.NpmUniverse, pkg, req string) (*universe.NpmVersion, bool) {
	s := satisfying(u, pkg, req)
	if len(s) == 0 {
		return nil, false
	}
	for _, v := range s {
		if hasTag(v, "latest") {
			return v, true
		}
	}
	sort.Slice(s, func(i, j int) bool { return semverLess(s[i].Version, s[j].Version) })
	for i := len(s) - 1; i >= 0; i-- {
		if s[i].Attr.Mask&universe.VerBlocked == 0 {
			return s[i], true
		}
	}
	return s[len(s)-1], true
}

func stripSelector(a universe.AttrSet) universe.AttrSet {
	out := universe.AttrSet{Mask: a.Mask}
	for _, x := range a.Attrs {
		if x.Key != universe.DepSelector {
			out.Attrs = append(out.Attrs, x)
		}
	}
	return out
}

// importsOf returns the imports of the dependent that an edge may stand for:
// same requirement string and same type up to the Selector attribute.
func importsOf(u *universe.NpmUniverse, n rNode, e rEdge) []universe.NpmImport {
	v := findVersion(u, n.Name, n.Ver)
	if v == nil {
		return nil
	}
	et := stripSelector(e.Type)
	var out []universe.NpmImport
	for _, d := range v.Imports {
		if d.Req == e.Req && stripSelector(d.Type).Equal(et) {
			out = append(out, d)
		}
	}
	return out
}

// evalClauses evaluates every clause; the map holds a detail for each violated clause.
func evalClauses(cd *caseData) map[string]string {
	bad := map[string]string{}
	if cd.res == "timeout" {
		bad["terminates"] = "resolution did not return within the deadline"
		return bad
	}
	if !strings.HasPrefix(cd.res, "ok ") {
		if cd.res != "err" {
			bad["terminates"] = "unexpected result " + cd.res
		}
		return bad
	}
	r, err := parseResult(cd.t, cd.res)
	if err != nil {
		bad["E3"] = "unparsable result: " + err.Error()
		return bad
	}
	u := cd.u
	note := func(k, s string) {
		if _, ok := bad[k]; !ok {
			bad[k] = s
		}
	}
	inRange := func(i int) bool { return i >= 0 && i < len(r.Nodes) }
	// E3
	seen := make([]bool, len(r.Nodes))
	if len(r.Nodes) > 0 {
		seen[0] = true
		st := []int{0}
		for len(st) > 0 {
			n := st[len(st)-1]
			st = st[:len(st)-1]
			for _, e := range r.Edges {
				if e.From == n && inRange(e.To) && !seen[e.To] {
					seen[e.To] = true
					st = append(st, e.To)
				}
			}
		}
	}
	for i, s := range seen {
		if !s {
			note("E3", fmt.Sprintf("node %d %s@%s is not reachable from the root", i, r.Nodes[i].Name, r.Nodes[i].Ver))
		}
	}
	bundles := u.HasBundle()
	// derivedFrom: the package a derived (bundled) version stands for
	derivedFrom := func(name, ver string) (string, bool) {
		if v := findVersion(u, name, ver); v != nil {
			return v.Attr.Get(universe.VerDerived)
		}
		return "", false
	}
	// E1, E4
	for _, e := range r.Edges {
		if !inRange(e.From) || !inRange(e.To) {
			note("E3", "edge endpoint out of range")
			continue
		}
		from, to := r.Nodes[e.From], r.Nodes[e.To]
		ds := importsOf(u, from, e)
		tv := findVersion(u, to.Name, to.Ver)
		orig, derived := derivedFrom(to.Name, to.Ver)
		ok1 := false
		for _, d := range ds {
			if derived {
				// a bundled copy: it stands for package `orig` at its own version string (with the
				// registry's tags if the registry has that version)
				ov := findVersion(u, orig, to.Ver)
				if ov == nil {
					ov = &universe.NpmVersion{Name: orig, Version: to.Ver}
				}
				if d.Name == orig && satisfies(d.Req, ov) {
					ok1 = true
				}
			} else if tv != nil && d.Name == to.Name && satisfies(d.Req, tv) {
				ok1 = true
			}
		}
		if !ok1 {
			note("E1", fmt.Sprintf("edge %s@%s -[%s]-> %s@%s: target does not satisfy any requirement %q of the dependent on package %s",
				from.Name, from.Ver, e.Req, to.Name, to.Ver, e.Req, to.Name))
		}
		if e.Type.Has(universe.DepSelector) && !derived {
			ok4 := false
			want := ""
			for _, d := range ds {
				if w, ok := expectedPick(u, d.Name, d.Req); ok {
					want = w.Name + "@" + w.Version
					if w.Name == to.Name && w.Version == to.Ver {
						ok4 = true
					}
				}
			}
			if !ok4 {
				note("E4", fmt.Sprintf("fresh install for %s@%s -[%s]->: got %s@%s, expected %s", from.Name, from.Ver, e.Req, to.Name, to.Ver, want))
			}
		}
	}
	// E2
	for i, n := range r.Nodes {
		v := findVersion(u, n.Name, n.Ver)
		if v == nil {
			continue
		}
		for _, d := range v.Imports {
			if d.Dev() || d.Scope() == "peer" || isBundleContent(u, d) {
				continue
			}
			found := false
			for _, e := range r.Edges {
				if e.From != i || !inRange(e.To) {
					continue
				}
				t := r.Nodes[e.To]
				if o, ok := derivedFrom(t.Name, t.Ver); t.Name == d.Name || (ok && o == d.Name) {
					found = true
				}
			}
			for _, ne := range n.Errs {
				if ne[0] == d.Name {
					found = true
				}
			}
			if !found {
				note("E2", fmt.Sprintf("node %d %s@%s: requirement %s@%s has neither an edge nor an error", i, n.Name, n.Ver, d.Name, d.Req))
			}
		}
	}
	if bundles {
		return bad
	}
	// T1
	byPath := map[string]int{}
	byID := map[int]int{}
	for i, en := range r.Tree {
		k := strings.Join(en.Path, "\x00")
		if j, dup := byPath[k]; dup {
			note("T1", fmt.Sprintf("directory %v holds two packages under the name %q: %s@%s and %s@%s", en.Path[:len(en.Path)-1],
				en.Path[len(en.Path)-1], r.Tree[j].Name, r.Tree[j].Ver, en.Name, en.Ver))
		} else {
			byPath[k] = i
		}
		if _, dup := byID[en.ID]; dup {
			note("T2", fmt.Sprintf("two tree entries carry node id %d", en.ID))
		}
		byID[en.ID] = i
	}
	// T2
	for _, e := range r.Edges {
		if !inRange(e.From) || !inRange(e.To) {
			continue
		}
		fi, ok1 := byID[e.From]
		ti, ok2 := byID[e.To]
		if !ok1 || !ok2 {
			note("T2", fmt.Sprintf("graph node %d or %d has no tree entry", e.From, e.To))
			continue
		}
		ds := importsOf(u, r.Nodes[e.From], e)
		ok := false
		landed := ""
		for _, d := range ds {
			name := d.EffName()
			dir := append([]string(nil), r.Tree[fi].Path...)
			for {
				k := strings.Join(append(append([]string(nil), dir...), name), "\x00")
				if j, hit := byPath[k]; hit {
					if j == ti {
						ok = true
					}
					landed = fmt.Sprintf("%v (%s@%s)", r.Tree[j].Path, r.Tree[j].Name, r.Tree[j].Ver)
					break
				}
				if len(dir) == 0 {
					landed = "nothing"
					break
				}
				dir = dir[:len(dir)-1]
			}
		}
		if !ok {
			note("T2", fmt.Sprintf("edge %s@%s -[%s]-> %s@%s: lookup from %v lands on %s, the edge points to %v",
				r.Nodes[e.From].Name, r.Nodes[e.From].Ver, e.Req, r.Nodes[e.To].Name, r.Nodes[e.To].Ver,
				r.Tree[fi].Path, landed, r.Tree[ti].Path))
		}
	}
	return bad
}

// isBundleContent: the requirement is not a dependency but the description of a
// bundle's content: a plain requirement matching exactly one version, a derived one.
func isBundleContent(u *universe.NpmUniverse, d universe.NpmImport) bool {
	if !d.Type.IsRegular() {
		return false
	}
	s := satisfying(u, d.Name, d.Req)
	return len(s) == 1 && s[0].Attr.Has(universe.VerDerived)
}

// recheck evaluates one clause from the op line and its Go result alone.
func recheck(oracle string, ops, res []string) (bool, string) {
	if len(ops) != 1 {
		return true, "C06 oracles take one op"
	}
	known := false
	for _, c := range clauses {
		known = known || c == oracle
	}
	if !known {
		return true, "unknown oracle " + oracle
	}
	cd, err := decodeCase(ops[0], res[0])
	if err != nil {
		return true, "undecodable op: " + err.Error()
	}
	bad := evalClauses(cd)
	if d, ok := bad[oracle]; ok {
		return true, d + "\nroot " + cd.root[0] + "@" + cd.root[1] + "\n" + cd.u.Text()
	}
	return false, ""
}

// classify names the known-finding class: the negation of a hypothesis of the
// partial theorem of the clause (Props/C06.lean): terminates — AliasFree, BundleFree,
// NoConflictCycle; E1, T2 — AliasFree; E2 — OptPlain, AliasFree; E4 — LatestLast, AliasFree.
func classify(oracle string, ops, res []string) string {
	if len(ops) != 1 {
		return ""
	}
	f := strings.Fields(ops[0])
	if len(f) != 6 {
		return ""
	}
	h, err := hypsOf(f[2], f[3])
	if err != nil {
		return ""
	}
	switch oracle {
	case "terminates":
		if !h.AliasFree {
			return "F-C04-npm-alias-cycle"
		}
		if !h.BundleFree {
			return "F-C04-npm-bundle-cycle"
		}
		if cd, err := decodeCase(ops[0], res[0]); err == nil {
			for i, v := range cd.u.Versions {
				if v.Name == cd.root[0] && v.Version == cd.root[1] && i < len(h.ConflictCycle) && h.ConflictCycle[i] {
					return "F-C06-conflict-cycle"
				}
			}
		}
	case "E4":
		if !h.LatestLast {
			return "F-C06-latest-prerelease"
		}
		if !h.AliasFree {
			return "F-C06-alias-wrongpkg"
		}
	case "E2":
		if !h.OptPlain {
			return "F-C06-optpeer-shadow"
		}
		if !h.AliasFree {
			return "F-C06-alias-wrongpkg"
		}
	case "E1", "T2":
		if !h.AliasFree {
			return "F-C06-alias-wrongpkg"
		}
	}
	// a bundle that installs a package under another name creates an alias slot as well
	if cd, err := decodeCase(ops[0], res[0]); err == nil && (oracle == "E1" || oracle == "E2") && hasBundleAlias(cd.u) {
		return "F-C06-alias-wrongpkg"
	}
	return ""
}

// hasBundleAlias: some derived package version `…>name` is derived from a package of another name.
func hasBundleAlias(u *universe.NpmUniverse) bool {
	for _, v := range u.Versions {
		if d, ok := v.Attr.Get(universe.VerDerived); ok {
			if i := strings.LastIndex(v.Name, ">"); i >= 0 && v.Name[i+1:] != d {
				return true
			}
		}
	}
	return false
}
