package main

import (
	"fmt"
	"strings"

	"verifharness/universe"
)

// Hypotheses of the theorems of lean/DepsDev/Props/C06.lean, evaluated on the op
// line (universe records and match table). The op `C06 classify t=… <U>` prints
// them and the Lean driver answers the same op with the Lean definitions'
// own decision procedures, so the two are kept equal by the correspondence.
type hyps struct {
	WF, AliasFree, LatestLast, OptPlain, BundleFree bool
}

type mrow struct {
	pkg, req string
	vs       []string
}

func mrows(body string) []mrow {
	var rows []mrow
	for _, rec := range strings.Split(body, ";") {
		p := strings.Split(rec, ":")
		if len(p) != 4 || p[0] != "m" || p[3] == "!" {
			continue
		}
		var vs []string
		if p[3] != "_" {
			vs = strings.Split(p[3], ",")
		}
		rows = append(rows, mrow{p[1], p[2], vs})
	}
	return rows
}

// hypsOf evaluates the hypotheses; indices are compared as strings.
func hypsOf(table, body string) (hyps, error) {
	t, u, err := universe.NpmDecode(table, body)
	if err != nil {
		return hyps{}, err
	}
	rows := mrows(body)
	// concreteForLatest: the row (pkg, "latest" = index 4) with exactly one version
	latest := map[string]string{}
	for _, r := range rows {
		if r.req == "4" && len(r.vs) == 1 {
			latest[r.pkg] = r.vs[0]
		}
	}
	attrOf := func(pkg, ver string) (universe.AttrSet, bool) {
		for _, v := range u.Versions {
			if t.Ix(v.Name) == pkg && t.Ix(v.Version) == ver {
				return v.Attr, true
			}
		}
		return universe.AttrSet{}, false
	}
	h := hyps{AliasFree: !u.HasAlias(), BundleFree: !u.HasBundle(), LatestLast: true, OptPlain: true}
	// U1
	u1 := true
	seen := map[[2]string]bool{}
	for _, v := range u.Versions {
		k := [2]string{v.Name, v.Version}
		if seen[k] {
			u1 = false
		}
		seen[k] = true
	}
	// U2 (as the resolver can observe it), LatestLast, TableWf
	u2, twf := true, true
	for _, r := range rows {
		for _, v := range r.vs {
			if _, ok := attrOf(r.pkg, v); !ok {
				twf = false
			}
		}
		l, ok := latest[r.pkg]
		if !ok {
			continue
		}
		la, _ := attrOf(r.pkg, l)
		has := false
		for _, v := range r.vs {
			va, _ := attrOf(r.pkg, v)
			if va.Equal(la) && v != l {
				u2 = false
			}
			if v == l {
				has = true
			}
		}
		if has && r.vs[len(r.vs)-1] != l {
			h.LatestLast = false
		}
	}
	for _, v := range u.Versions {
		for _, d := range v.Imports {
			if !d.Dev() && d.Opt() && (d.Scope() == "peer" || d.Scope() == "bundle") {
				h.OptPlain = false
			}
		}
	}
	h.WF = u1 && u2 && universe.NpmU3(u) && twf
	return h, nil
}

func bit(b bool) string {
	if b {
		return "1"
	}
	return "0"
}

func (h hyps) String() string {
	return fmt.Sprintf("ok wf=%s aliasfree=%s latestlast=%s optplain=%s bundlefree=%s",
		bit(h.WF), bit(h.AliasFree), bit(h.LatestLast), bit(h.OptPlain), bit(h.BundleFree))
}
