package main

import (
	"fmt"
	"strings"

	"verifharness/universe"
)

// Hypotheses of the theorems of lean/DepsDev/Props/C06.lean, evaluated on the op
// line (universe records and match table). The op `C06 classify t=… <U>` prints
// them and the Lean driver answers the same op with the Lean definitions'
// own decision procedures, so the two are kept equal by the correspondence.
type hyps struct {
	WF, AliasFree, LatestLast, OptPlain, BundleFree bool
	// ConflictCycle[i]: the i-th version (order of the `v:` records) as root reaches a conflict cycle
	ConflictCycle []bool
}

type mrow struct {
	pkg, req string
	vs       []string
}

func mrows(body string) []mrow {
	var rows []mrow
	for _, rec := range strings.Split(body, ";") {
		p := strings.Split(rec, ":")
		if len(p) != 4 || p[0] != "m" || p[3] == "!" {
			continue
		}
		var vs []string
		if p[3] != "_" {
			vs = strings.Split(p[3], ",")
		}
		rows = append(rows, mrow{p[1], p[2], vs})
	}
	return rows
}

// hypsOf evaluates the hypotheses; indices are compared as strings.
func hypsOf(table, body string) (hyps, error) {
	t, u, err := universe.NpmDecode(table, body)
	if err != nil {
		return hyps{}, err
	}
	rows := mrows(body)
	// concreteForLatest: the row (pkg, "latest" = index 4) with exactly one version
	latest := map[string]string{}
	for _, r := range rows {
		if r.req == "4" && len(r.vs) == 1 {
			latest[r.pkg] = r.vs[0]
		}
	}
	attrOf := func(pkg, ver string) (universe.AttrSet, bool) {
		for _, v := range u.Versions {
			if t.Ix(v.Name) == pkg && t.Ix(v.Version) == ver {
				return v.Attr, true
			}
		}
		return universe.AttrSet{}, false
	}
	h := hyps{AliasFree: !u.HasAlias(), BundleFree: !u.HasBundle(), LatestLast: true, OptPlain: true}
	// U1
	u1 := true
	seen := map[[2]string]bool{}
	for _, v := range u.Versions {
		k := [2]string{v.Name, v.Version}
		if seen[k] {
			u1 = false
		}
		seen[k] = true
	}
	// U2 (as the resolver can observe it), LatestLast, TableWf
	u2, twf := true, true
	for _, r := range rows {
		for _, v := range r.vs {
			if _, ok := attrOf(r.pkg, v); !ok {
				twf = false
			}
		}
		l, ok := latest[r.pkg]
		if !ok {
			continue
		}
		la, _ := attrOf(r.pkg, l)
		has := false
		for _, v := range r.vs {
			va, _ := attrOf(r.pkg, v)
			if va.Equal(la) && v != l {
				u2 = false
			}
			if v == l {
				has = true
			}
		}
		if has && r.vs[len(r.vs)-1] != l {
			h.LatestLast = false
		}
	}
	for _, v := range u.Versions {
		for _, d := range v.Imports {
			if !d.Dev() && d.Opt() && (d.Scope() == "peer" || d.Scope() == "bundle") {
				h.OptPlain = false
			}
		}
	}
	h.WF = u1 && u2 && universe.NpmU3(u) && twf
	h.ConflictCycle = conflictCycles(t, u, rows, latest, attrOf)
	return h, nil
}

// conflictCycles mirrors DepsDev.Props.C06.conflictCycleFrom for every version of the universe
// (in the order of the `v:` records): among the surviving requirements of the versions the root
// reaches in the pick graph (version -> the version a fresh install for one of its requirements
// would pick), the pick graph restricted to packages on which some requirement rejects the pick
// of another, self-loops removed, has a cycle. Everything is computed from the op line's
// records, as the Lean side does.
func conflictCycles(t *universe.Table, u *universe.NpmUniverse, rows []mrow, latest map[string]string,
	attrOf func(pkg, ver string) (universe.AttrSet, bool)) []bool {
	type vk struct{ n, v string }
	type req struct {
		from     vk
		pkg, req string // indices as strings
	}
	var reqs []req
	for _, v := range u.Versions {
		for _, d := range universe.NpmRegularImports(v.Imports) {
			reqs = append(reqs, req{vk{t.Ix(v.Name), t.Ix(v.Version)}, t.Ix(d.Name), t.Ix(d.Req)})
		}
	}
	rowOf := func(pkg, rq string) ([]string, bool) {
		for _, r := range rows {
			if r.pkg == pkg && r.req == rq {
				return r.vs, true
			}
		}
		return nil, false // error row (`!`) or missing
	}
	// wouldPick (resolve.go lines 321-332) on the table row
	type pk struct{ pkg, req string }
	pickMemo := map[pk]*string{}
	pickOf := func(pkg, rq string) (string, bool) {
		if p, ok := pickMemo[pk{pkg, rq}]; ok {
			if p == nil {
				return "", false
			}
			return *p, true
		}
		res := func() *string {
			vs, ok := rowOf(pkg, rq)
			if !ok || len(vs) == 0 {
				return nil
			}
			l, hasLatest := latest[pkg]
			la, _ := attrOf(pkg, l)
			for i := len(vs) - 1; i >= 0; i-- {
				va, _ := attrOf(pkg, vs[i])
				equal := va.IsRegular()
				if hasLatest {
					equal = vs[i] == l || va.Equal(la)
				}
				if equal || va.Mask&universe.VerBlocked == 0 {
					return &vs[i]
				}
			}
			return &vs[len(vs)-1]
		}()
		pickMemo[pk{pkg, rq}] = res
		if res == nil {
			return "", false
		}
		return *res, true
	}
	rejects := func(pkg, rq, w string) bool {
		if rq == "1" { // "*"
			return false
		}
		vs, ok := rowOf(pkg, rq)
		if !ok {
			return false
		}
		for _, v := range vs {
			if v == w {
				return false
			}
		}
		return true
	}
	type edge struct{ a, b vk }
	var full []edge
	for _, r := range reqs {
		if w, ok := pickOf(r.pkg, r.req); ok {
			full = append(full, edge{r.from, vk{r.pkg, w}})
		}
	}
	closure := func(es []edge, start vk) map[vk]bool {
		seen := map[vk]bool{start: true}
		for changed := true; changed; {
			changed = false
			for _, f := range es {
				if seen[f.a] && !seen[f.b] {
					seen[f.b], changed = true, true
				}
			}
		}
		return seen
	}
	out := make([]bool, len(u.Versions))
	for i, root := range u.Versions {
		reach := closure(full, vk{t.Ix(root.Name), t.Ix(root.Version)})
		var rs []req
		for _, r := range reqs {
			if reach[r.from] {
				rs = append(rs, r)
			}
		}
		conflicted := map[string]bool{}
		for _, r1 := range rs {
			w, ok := pickOf(r1.pkg, r1.req)
			if !ok || conflicted[r1.pkg] {
				continue
			}
			for _, r2 := range rs {
				if r2.pkg == r1.pkg && rejects(r2.pkg, r2.req, w) {
					conflicted[r1.pkg] = true
					break
				}
			}
		}
		var es []edge
		for _, r := range rs {
			if !conflicted[r.from.n] || !conflicted[r.pkg] {
				continue
			}
			if w, ok := pickOf(r.pkg, r.req); ok && r.from != (vk{r.pkg, w}) {
				es = append(es, edge{r.from, vk{r.pkg, w}})
			}
		}
		for _, e := range es {
			if closure(es, e.b)[e.a] {
				out[i] = true
				break
			}
		}
	}
	return out
}

func bits(bs []bool) string {
	var sb strings.Builder
	for _, b := range bs {
		sb.WriteString(bit(b))
	}
	return sb.String()
}

func bit(b bool) string {
	if b {
		return "1"
	}
	return "0"
}

func (h hyps) String() string {
	return fmt.Sprintf("ok wf=%s aliasfree=%s latestlast=%s optplain=%s bundlefree=%s conflictcycle=%s",
		bit(h.WF), bit(h.AliasFree), bit(h.LatestLast), bit(h.OptPlain), bit(h.BundleFree), bits(h.ConflictCycle))
}
