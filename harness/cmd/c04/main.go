// C04: parsing and matching entry points are total: errors, never panics or hangs.
package main

import (
	"bytes"
	"context"
	"encoding/xml"
	"fmt"
	"strconv"
	"strings"
	"time"

	"deps.dev/util/maven"
	"deps.dev/util/pypi"
	"deps.dev/util/resolve"
	mavenres "deps.dev/util/resolve/maven"
	npmres "deps.dev/util/resolve/npm"
	pypires "deps.dev/util/resolve/pypi"
	"deps.dev/util/resolve/schema"
	"deps.dev/util/semver"

	"verifharness/fw"
	"verifharness/semvergen"
	"verifharness/semverops"
)

// exec: semver ops are modelled (the Lean driver computes ok/err/panic for them);
// `probe <entry> <hex> [<hex>]` ops call entry points that are not modelled (the
// driver answers `returned`): result `returned` unless the call panics or hangs.
func exec(f []string) string {
	if f[0] == "probe" {
		return probe(f[1:])
	}
	if r, ok := semverops.Exec(f); ok {
		return r
	}
	return "bad-op"
}

func withDeadline(d time.Duration, fn func(ctx context.Context)) string {
	ctx, cancel := context.WithTimeout(context.Background(), d)
	defer cancel()
	done := make(chan any, 1)
	go func() {
		defer func() { done <- recover() }()
		fn(ctx)
	}()
	select {
	case r := <-done:
		if r != nil {
			return "panic"
		}
		return "returned"
	case <-time.After(d + 3*time.Second):
		return "timeout"
	}
}

var resolveSys = map[string]resolve.System{"npm": resolve.NPM, "maven": resolve.Maven, "pypi": resolve.PyPI}

func probe(f []string) string {
	arg := func(i int) string {
		if i < len(f) {
			return fw.Unhx(f[i])
		}
		return ""
	}
	switch f[0] {
	case "semver.big":
		// semver.big <Sys> <operator> <n>: a version of n dot-separated components behind an
		// operator (counters narrower than int wrap at 2^15 and 2^16 components); Go-only because
		// the Lean model needs minutes on inputs of this size
		sys, ok := semverops.SysNames[arg(1)]
		n, err := strconv.Atoi(arg(3))
		if !ok || err != nil || n < 1 || n > 200000 {
			return "bad-op"
		}
		v := "1" + strings.Repeat(".1", n-1)
		if sys == semver.Go {
			v = "v" + v
		}
		if c, err := sys.ParseConstraint(arg(2) + v); err == nil {
			c.Match(v)
			_ = c.Set().String()
			c.HasPrerelease()
		}
		if pv, err := sys.Parse(v); err == nil {
			pv.Canon(true)
			pv.Compare(pv)
			sys.MinVersion(pv)
		}
		sys.Compare(v, v+".1")
	case "semver.api":
		// semver.api <Sys> <constraint> <version> <Sys2> <version2>: the rest of util/semver's
		// exported API (accessors, printers, Set methods, cross-system Compare, MinVersion) on
		// whatever the parsers return
		sys, ok := semverops.SysNames[arg(1)]
		sys2, ok2 := semverops.SysNames[arg(4)]
		if !ok || !ok2 {
			return "bad-op"
		}
		v, verr := sys.Parse(arg(3))
		w, werr := sys2.Parse(arg(5))
		for _, parse := range []func(string) (*semver.Constraint, error){sys.ParseConstraint, sys.ParseSetConstraint} {
			c, err := parse(arg(2))
			if err != nil {
				continue
			}
			_ = c.String()
			c.IsSimple()
			c.HasPrerelease()
			c.Match(arg(3))
			set := c.Set()
			_ = set.String()
			set.Empty()
			set.Match(arg(3))
			if verr == nil {
				c.MatchVersion(v)
				c.MatchVersionPrerelease(v)
				set.MatchVersion(v)
			}
			if c2, err := sys.ParseConstraint(arg(5)); err == nil {
				t := c2.Set()
				u := c.Set()
				u.Union(t)
				_ = u.String()
				u.Empty()
				i := c.Set()
				i.Intersect(t)
				_ = i.String()
				i.Empty()
				if verr == nil {
					u.MatchVersion(v)
					i.MatchVersion(v)
				}
				(&semver.Constraint{}).Set()
			}
		}
		if verr == nil {
			_ = v.String()
			v.Canon(true)
			v.Canon(false)
			v.IsWildcard()
			v.IsPrerelease()
			v.IsBuild()
			v.Prerelease()
			v.Epoch()
			v.Major()
			sys.MinVersion(v)
			v.Compare(v)
			v.Difference(v)
			if werr == nil {
				v.Compare(w)
				w.Compare(v)
				if sys == sys2 {
					v.Difference(w)
				}
			}
		}
		sys.Compare(arg(3), arg(5))
		sys.Difference(arg(3), arg(5))
	case "pypi.ParseDependency":
		pypi.ParseDependency(arg(1))
	case "pypi.ParseMetadata":
		pypi.ParseMetadata(context.Background(), arg(1))
	case "pypi.CanonVersion":
		pypi.CanonVersion(arg(1))
	case "pypi.CanonPackageName":
		pypi.CanonPackageName(arg(1))
	case "pypi.SdistVersion":
		pypi.SdistVersion(arg(1), arg(2))
	case "pypi.ParseWheelName":
		pypi.ParseWheelName(arg(1))
	case "pypi.SdistMetadata":
		pypi.SdistMetadata(context.Background(), arg(1), strings.NewReader(arg(2)))
	case "pypi.WheelMetadata":
		b := []byte(arg(1))
		pypi.WheelMetadata(context.Background(), bytes.NewReader(b), int64(len(b)))
	case "maven.pom":
		// decode, merge profiles, interpolate, process dependencies (imports answered with an error)
		var p maven.Project
		if err := xml.Unmarshal([]byte(arg(1)), &p); err != nil {
			return "returned"
		}
		p.MergeProfiles("11", maven.ActivationOS{Name: "linux", Family: "unix", Arch: "amd64", Version: "5"})
		var parent maven.Project
		if xml.Unmarshal([]byte(arg(2)), &parent) == nil {
			p.MergeParent(parent)
		}
		p.Interpolate()
		p.ProcessDependencies(func(g, a, v maven.String) (maven.DependencyManagement, error) {
			if arg(2) != "" && parent.DependencyManagement.Dependencies != nil {
				return parent.DependencyManagement, nil
			}
			return maven.DependencyManagement{}, fmt.Errorf("no such bom")
		})
		maven.MakeProjectKey(arg(1), arg(2))
	case "schema.New":
		for _, sys := range []resolve.System{resolve.NPM, resolve.Maven, resolve.PyPI} {
			if s, err := schema.New(arg(1), sys); err == nil {
				c := s.NewClient()
				s.ValidateClient(c)
			}
		}
	case "schema.ParseResolve":
		for _, sys := range []resolve.System{resolve.NPM, resolve.Maven, resolve.PyPI} {
			schema.ParseResolve(arg(1), sys)
		}
	case "resolve":
		// resolve <sys> <schema text>: every concrete version of the universe as root
		sys, ok := resolveSys[arg(1)]
		if !ok {
			return "bad-op"
		}
		s, err := schema.New(arg(2), sys)
		if err != nil {
			return "returned"
		}
		cl := s.NewClient()
		out := "returned"
		var rs resolve.Resolver
		for _, pk := range s.Packages {
			for _, v := range pk.Versions {
				if v.VersionType != resolve.Concrete {
					continue
				}
				vk := resolve.VersionKey{PackageKey: resolve.PackageKey{System: sys, Name: pk.Name}, VersionType: resolve.Concrete, Version: v.Version}
				deadlineHit := false
				r := withDeadline(2*time.Second, func(ctx context.Context) {
					// ONE resolver per universe, reused for every root: resolvers keep caches
					// (parsed markers, constraints) between calls, and a malformed entry cached by
					// one resolution must not crash the next
					if rs == nil {
						switch sys {
						case resolve.NPM:
							rs = npmres.NewResolver(cl)
						case resolve.Maven:
							rs = mavenres.NewResolver(cl)
						default:
							rs = pypires.NewResolver(cl)
						}
					}
					g, err := rs.Resolve(ctx, vk)
					if ctx.Err() != nil {
						deadlineHit = true // the resolver only stopped because its context expired
					}
					if err == nil && g != nil {
						g.Canon()
						_ = g.String()
					}
				})
				if r == "returned" && deadlineHit {
					r = "timeout"
				}
				if r != "returned" {
					return r // one root that panics or does not return decides the op
				}
			}
		}
		return out
	default:
		return "bad-op"
	}
	return "returned"
}

func recheck(oracle string, ops, res []string) (bool, string) {
	if oracle != "total" {
		return true, "unknown oracle"
	}
	for i, r := range res {
		if r == "panic" || r == "timeout" || strings.HasPrefix(r, "panic") {
			return true, fmt.Sprintf("%s on %s", r, strings.Join(strings.Fields(ops[i])[:3], " "))
		}
	}
	return false, ""
}

// classify: the npm resolver's known non-termination classes (DESIGN section 8) need
// aliases (KnownAs) or bundled (derived) packages in the universe.
func classify(oracle string, ops, res []string) string {
	f := strings.Fields(ops[0])
	if len(f) >= 5 && f[1] == "probe" && f[2] == "resolve" && fw.Unhx(f[3]) == "npm" && res[0] == "timeout" {
		text := fw.Unhx(f[4])
		if strings.Contains(text, "KnownAs") {
			return "F-C04-npm-hang-alias"
		}
		// a plain conflict cycle needs a package with two versions (two version lines, i.e.
		// lines indented by exactly one tab, under one package line)
		n := 0
		for _, line := range strings.Split(text, "\n") {
			switch {
			case strings.HasPrefix(line, "\t\t"):
			case strings.HasPrefix(line, "\t"):
				n++
				if n >= 2 {
					return "F-C04-npm-hang-conflict"
				}
			default:
				n = 0
			}
		}
	}
	return ""
}

var pomTokens = []string{"<project>", "</project>", "<parent>", "</parent>", "<groupId>", "</groupId>", "g", "a", "<artifactId>", "</artifactId>",
	"<version>", "</version>", "1.0", "${a}", "${b}", "${project.version}", "${", "}", "<properties>", "</properties>", "<a>", "</a>", "<b>", "</b>",
	"<dependencies>", "</dependencies>", "<dependency>", "</dependency>", "<dependencyManagement>", "</dependencyManagement>", "<scope>", "import", "</scope>",
	"<type>", "pom", "</type>", "<profiles>", "<profile>", "</profile>", "</profiles>", "<activation>", "</activation>", "<jdk>", "[1.8,)", "!1.8", "</jdk>",
	"<activeByDefault>", "true", "</activeByDefault>", "<exclusions>", "<exclusion>", "</exclusion>", "</exclusions>", "*", "<optional>", "</optional>", " ", "\n", "&", "<", ">", "\xff"}

func validPom(c *fw.Ctx) string {
	prop := func() string {
		return semverops.Pick(c.Rng, "1.0", "${a}", "${b}", "${c}x", "${a}${a}", "${project.version}", "${project.parent.version}", "${unknown}", "${", "}${a")
	}
	var b strings.Builder
	b.WriteString("<project><groupId>g</groupId><artifactId>a</artifactId><version>" + prop() + "</version>")
	b.WriteString("<properties><a>" + prop() + "</a><b>" + prop() + "</b><c>" + prop() + "</c></properties>")
	b.WriteString("<dependencyManagement><dependencies>")
	for i := 0; i < c.Rng.Intn(3); i++ {
		b.WriteString("<dependency><groupId>g</groupId><artifactId>m" + fmt.Sprint(i) + "</artifactId><version>" + prop() + "</version>" +
			semverops.Pick(c.Rng, "", "<scope>import</scope><type>pom</type>") + "</dependency>")
	}
	b.WriteString("</dependencies></dependencyManagement><dependencies>")
	for i := 0; i < c.Rng.Intn(4); i++ {
		b.WriteString("<dependency><groupId>" + prop() + "</groupId><artifactId>d" + fmt.Sprint(i) + "</artifactId>" +
			semverops.Pick(c.Rng, "", "<version>"+prop()+"</version>") + semverops.Pick(c.Rng, "", "<optional>"+prop()+"</optional>") + "</dependency>")
	}
	b.WriteString("</dependencies><profiles><profile><activation><jdk>" + semverops.Pick(c.Rng, "11", "[1.8,)", "!1.8", "(,", "1.8,", "[") +
		"</jdk></activation><properties><a>z</a></properties></profile></profiles></project>")
	return b.String()
}

func soup(c *fw.Ctx, toks []string, n int) string {
	var b strings.Builder
	for i := 0; i < 1+c.Rng.Intn(n); i++ {
		b.WriteString(toks[c.Rng.Intn(len(toks))])
	}
	return b.String()
}

var schemaTokens = []string{"a", "b", "c\n", "\t", "\t\t", "\t\t\t", "1.0.0\n", "2.0.0\n", "b@^1\n", "a@*\n", "Dev|", "Opt|", "KnownAs x|", "Scope test|", "Blocked|", "ATTR: ", "Tags latest\n",
	" -> ", "latest", "\n", "#", "|", "@", "Environment \"python_version < '3'\"|", "$l:", "$l", ": ", "x: |", "c@1.0.0\n", "\x00", "\"", "EnabledDependencies a,b|", "Selector|"}

func genUniverseText(c *fw.Ctx, sys string) string {
	// a small valid universe in schema syntax with arbitrary requirement strings
	npk := 2 + c.Rng.Intn(4)
	var b strings.Builder
	sv := semver.NPM
	switch sys {
	case "maven":
		sv = semver.Maven
	case "pypi":
		sv = semver.PyPI
	}
	name := func(i int) string {
		if sys == "maven" {
			return fmt.Sprintf("g:p%d", i)
		}
		return fmt.Sprintf("p%d", i)
	}
	for i := 0; i < npk; i++ {
		b.WriteString(name(i) + "\n")
		for k := 0; k < 1+c.Rng.Intn(3); k++ {
			b.WriteString("\t" + fmt.Sprintf("%d.%d.0", 1+k, c.Rng.Intn(3)) + "\n")
			for d := 0; d < c.Rng.Intn(3); d++ {
				req := semverops.GenConstraint(c.Rng, sv)
				switch c.Rng.Intn(5) {
				case 0:
					req = semverops.TokenSoup(c.Rng, 4)
				case 1:
					req = semverops.Mutate(c.Rng, req)
				}
				req = strings.NewReplacer("\n", "", "\t", "", "\x00", "").Replace(req)
				typ := ""
				if sys == "pypi" && c.Rng.Intn(3) == 0 {
					lhs := semverops.Pick(c.Rng, "python_version", "python_full_version", "sys_platform", "os_name", "platform_machine", "implementation_name", "extra", "'abc'", "'1.0'", "'3.9.6rc1'")
					op := semverops.Pick(c.Rng, "==", "!=", "<", "<=", ">", ">=", "~=", "===", "in", "not in")
					rhs := semverops.Pick(c.Rng, "'1.0'", "'linux'", "'3.*'", "'x'", "python_version", "'3.9'", "''", "sys_platform")
					m := lhs + " " + op + " " + rhs
					if c.Rng.Intn(3) == 0 {
						m = semverops.Pick(c.Rng, `python_version < "3"`, `extra == "x"`, `os_name in "posix nt"`, `python_version in '3.9'`, `(`, `a and`, `python_version ~= "3.*"`, `sys_platform == "linux" or (`, `'3.9.6rc1' != python_version`)
					}
					if c.Rng.Intn(5) == 0 {
						m = m + semverops.Pick(c.Rng, " and ", " or ") + `python_version >= "3"`
					}
					typ = fmt.Sprintf("Environment %q|", m)
				}
				if sys == "maven" && c.Rng.Intn(4) == 0 {
					typ = semverops.Pick(c.Rng, "Scope test|", "Opt|", "MavenClassifier tests|", "MavenArtifactType war|", "MavenExclusions g:*|")
				}
				if sys == "npm" && c.Rng.Intn(5) == 0 {
					typ = semverops.Pick(c.Rng, "Dev|", "Opt|", "Scope peer|")
				}
				b.WriteString("\t\t" + typ + name(c.Rng.Intn(npk)) + "@" + req + "\n")
			}
		}
	}
	return b.String()
}

func run(c *fw.Ctx) {
	n := c.N(2500, 80000)
	one := func(line string) {
		i, r := c.Op(line)
		c.Count(strings.Join(strings.Fields(line)[1:3], " ") + ":" + strings.Fields(r)[0])
		c.Check("total", i)
	}
	// 1. semver entry points, nine systems, three input streams
	for _, sys := range semverops.Systems {
		for i := 0; i < n; i++ {
			var s string
			switch i % 4 {
			case 0:
				s = semverops.GenVersion(c.Rng, sys)
			case 1:
				s = semverops.GenConstraint(c.Rng, sys)
			case 2:
				s = semverops.Mutate(c.Rng, semverops.GenConstraint(c.Rng, sys))
			default:
				s = semverops.TokenSoup(c.Rng, 7)
			}
			if !semverops.InModelDomain(sys, s) {
				continue
			}
			c.Nontrivial(sys.String() + "|" + s)
			one(fmt.Sprintf("C04 parse %s %s", sys, fw.Hx(s)))
			one(fmt.Sprintf("C04 cparse %s %s", sys, fw.Hx(s)))
			if i%3 == 0 {
				t := semverops.GenVersion(c.Rng, sys)
				if !semverops.InModelDomain(sys, t) {
					continue
				}
				one(fmt.Sprintf("C04 cmp %s %s %s", sys, fw.Hx(s), fw.Hx(t)))
				one(fmt.Sprintf("C04 diff %s %s %s", sys, fw.Hx(s), fw.Hx(t)))
				one(fmt.Sprintf("C04 match %s %s %s", sys, fw.Hx(s), fw.Hx(t)))
				one(fmt.Sprintf("C04 setparse %s %s", sys, fw.Hx("{"+s+"}")))
				if c.Rng.Intn(4) == 0 {
					one(fmt.Sprintf("C04 setparse %s %s", sys, fw.Hx(semverops.Pick(c.Rng, "{", "{}", "{[", "{[:]}", "{(1:2)}", "{[1.0.0:∞.∞.∞]}", "{<empty>}", "{1.0.0,", "{[1:2:3]}")+s)))
				}
			}
		}
		// very long tokens and deep nesting
		long := strings.Repeat("9", 4000)
		one(fmt.Sprintf("C04 parse %s %s", sys, fw.Hx(long)))
		one(fmt.Sprintf("C04 parse %s %s", sys, fw.Hx("1."+strings.Repeat("0.", 3000)+"1")))
		one(fmt.Sprintf("C04 cparse %s %s", sys, fw.Hx(strings.Repeat(">=1 ", 600))))
		one(fmt.Sprintf("C04 cparse %s %s", sys, fw.Hx(strings.Repeat("1||", 400)+"1")))
		one(fmt.Sprintf("C04 cparse %s %s", sys, fw.Hx(strings.Repeat("[", 500)+"1"+strings.Repeat("]", 500))))
	}
	// 2. entry points outside the Lean model (Go-only probes)
	for i, n := 0, c.N(3000, 60000); i < n; i++ {
		sys := semverops.Systems[c.Rng.Intn(len(semverops.Systems))]
		sys2 := sys
		if c.Rng.Intn(6) == 0 {
			sys2 = semverops.Systems[c.Rng.Intn(len(semverops.Systems))]
		}
		cs := semverops.GenConstraint(c.Rng, sys)
		if c.Rng.Intn(4) == 0 {
			cs = semverops.Pick(c.Rng, ">2 <1", "<0", "<0.0.0-0", "(1.0,1.0)", ">=1,<1", "{}", "{<empty>}", "!=1,==1", "", "1 - 0", ">1 <=1", "[2,1]", "~>0 <0")
		}
		if c.Rng.Intn(5) == 0 {
			cs = semverops.Mutate(c.Rng, cs)
		}
		v := semverops.GenVersion(c.Rng, sys)
		if c.Rng.Intn(3) == 0 {
			v = semverops.GenCVersion(c.Rng, sys)
		}
		one(fmt.Sprintf("C04 probe semver.api %s %s %s %s %s", fw.Hx(sys.String()), fw.Hx(cs), fw.Hx(v), fw.Hx(sys2.String()), fw.Hx(semverops.GenVersion(c.Rng, sys2))))
	}
	for _, sys := range semverops.Systems {
		for _, op := range []string{"", "~>", "~=", "^", "~", ">=", ">", "<", "=="} {
			for _, n := range []int{32767, 32768, 40000, 65536} {
				if !c.Thor && !((op == "~>" || op == "~=") && n == 40000) && c.Rng.Intn(6) != 0 {
					continue
				}
				one(fmt.Sprintf("C04 probe semver.big %s %s %s", fw.Hx(sys.String()), fw.Hx(op), fw.Hx(strconv.Itoa(n))))
			}
		}
	}
	m := c.N(1500, 40000)
	for i := 0; i < m; i++ {
		dep := semverops.Pick(c.Rng, "name", "Name_x", "a.b-c", "") + semverops.Pick(c.Rng, "", "[x]", "[x, y]", "[", "[]") +
			semverops.Pick(c.Rng, "", " >=1.0", "(>=1,<2)", "==1.*", " @ http://x", "(", ">=") + semverops.Pick(c.Rng, "", "; python_version < '3'", ";", " ; extra == \"x\"", "; (")
		if i%3 == 0 {
			dep = semverops.Mutate(c.Rng, dep)
		}
		if i%7 == 0 {
			// a name (or a whole requirement) followed by white space of every kind, ASCII or not
			dep = semverops.Pick(c.Rng, "requests", "numpy", "a.b-c", dep) + semverops.Pick(c.Rng, "\r", "\n", "\v", "\f", "\u00a0", "\u0085", "\u3000", " \r", "\t\n", " \u00a0", "\r\n", "\u2028")
		}
		one("C04 probe pypi.ParseDependency " + fw.Hx(dep))
		one("C04 probe pypi.CanonPackageName " + fw.Hx(semverops.Mutate(c.Rng, "My_Package.Name--x")))
		one("C04 probe pypi.CanonVersion " + fw.Hx(semverops.GenVersion(c.Rng, semver.PyPI)))
		wheel := semverops.Pick(c.Rng, "pkg-1.0-py3-none-any.whl", "pkg-1.0-1-py2.py3-none-any.whl", "a-b-c.whl", "pkg-1.0.whl", "-.whl", "pkg-1.0-py3-none-any")
		one("C04 probe pypi.ParseWheelName " + fw.Hx(semverops.Mutate(c.Rng, wheel)))
		one("C04 probe pypi.SdistVersion " + fw.Hx(semverops.Pick(c.Rng, "pkg", "my-pkg", "")) + " " + fw.Hx(semverops.Mutate(c.Rng, semverops.Pick(c.Rng, "pkg-1.0.tar.gz", "my_pkg-1.0.zip", "pkg.tar.gz", "my-pkg-1.0.tar.bz2"))))
		md := "Metadata-Version: 2.1\nName: x\nVersion: 1.0\nRequires-Dist: " + dep + "\nProvides-Extra: x\n\nbody"
		if i%2 == 0 {
			md = semverops.Mutate(c.Rng, md)
		}
		one("C04 probe pypi.ParseMetadata " + fw.Hx(md))
		if i%4 == 0 {
			name, data, wheel := genArchive(c.Rng, md)
			if wheel {
				one("C04 probe pypi.WheelMetadata " + fw.Hx(string(data)))
			} else {
				one("C04 probe pypi.SdistMetadata " + fw.Hx(name) + " " + fw.Hx(string(data)))
			}
		}
		if i%10 == 0 {
			one("C04 probe pypi.SdistMetadata " + fw.Hx(semverops.Pick(c.Rng, "x.tar.gz", "x.zip", "x.tgz", "x")) + " " + fw.Hx(semverops.TokenSoup(c.Rng, 9)))
			one("C04 probe pypi.WheelMetadata " + fw.Hx("PK\x03\x04"+semverops.TokenSoup(c.Rng, 9)))
		}
		pom := validPom(c)
		switch i % 3 {
		case 1:
			pom = semverops.Mutate(c.Rng, pom)
		case 2:
			pom = soup(c, pomTokens, 30)
		}
		one("C04 probe maven.pom " + fw.Hx(pom) + " " + fw.Hx(validPom(c)))
		st := soup(c, schemaTokens, 25)
		one("C04 probe schema.New " + fw.Hx(st))
		one("C04 probe schema.ParseResolve " + fw.Hx(st))
		if i%4 == 0 {
			sys := semverops.Pick(c.Rng, "npm", "maven", "pypi")
			one("C04 probe resolve " + fw.Hx(sys) + " " + fw.Hx(genUniverseText(c, sys)))
		}
	}
	// cyclic / long property tables for interpolation
	for k := 2; k < 40; k += 7 {
		var b strings.Builder
		b.WriteString("<project><groupId>g</groupId><artifactId>a</artifactId><version>${p0}</version><properties>")
		for i := 0; i < k; i++ {
			fmt.Fprintf(&b, "<p%d>${p%d}x</p%d>", i, (i+1)%k, i)
		}
		b.WriteString("</properties></project>")
		one("C04 probe maven.pom " + fw.Hx(b.String()) + " -")
	}
	one("C04 probe schema.ParseResolve " + fw.Hx("a: |"))
	one("C04 probe schema.ParseResolve " + fw.Hx("a 1.0.0\n\t$x@1\n\t\t$x@1\n\t\t\t$x@1\n"))
	c.Sample("C04 cparse NuGet " + fw.Hx("1* "))
}

func main() {
	fw.Main(&fw.Prop{
		ID:   "C04",
		Rule: "every exported text entry point: semver Parse/ParseConstraint/ParseSetConstraint/Compare/Difference/Match for nine systems on grammar-derived, mutated, token-soup, very long and deeply nested inputs (modelled: the Lean model must agree on ok/err/panic); pypi requirement/metadata/wheel/sdist parsers, POM decode+merge+interpolate+process, schema.New/ParseResolve, and the three resolvers over universes with arbitrary requirement and marker strings under a 2 s deadline (Go-only probes: recovered panic or deadline = failure). Distinct non-trivial = distinct (system, input) strings of the semver stream.",
		Exec: exec, Run: run, Recheck: recheck, Classify: classify,
		Gens: semvergen.Generators(),
	})
}
