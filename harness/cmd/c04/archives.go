package main

import (
	"archive/tar"
	"archive/zip"
	"bytes"
	"compress/gzip"
	"math/rand"

	"verifharness/semverops"
)

// Well-formed (and then damaged) wheel and sdist archives, so that the probes of
// pypi.WheelMetadata / pypi.SdistMetadata get past the container format and reach the
// code that walks the entries and parses METADATA / PKG-INFO.

type arcFile struct {
	name string
	body string
}

func zipBytes(files []arcFile) []byte {
	var b bytes.Buffer
	w := zip.NewWriter(&b)
	for _, f := range files {
		fw, err := w.Create(f.name)
		if err != nil {
			continue
		}
		fw.Write([]byte(f.body))
	}
	w.Close()
	return b.Bytes()
}

func tgzBytes(r *rand.Rand, files []arcFile) []byte {
	var b bytes.Buffer
	gz := gzip.NewWriter(&b)
	tw := tar.NewWriter(gz)
	for _, f := range files {
		typ := byte(tar.TypeReg)
		if r.Intn(12) == 0 {
			typ = tar.TypeDir
		}
		body := f.body
		if typ != tar.TypeReg {
			body = ""
		}
		tw.WriteHeader(&tar.Header{Name: f.name, Mode: 0o644, Size: int64(len(body)), Typeflag: typ})
		tw.Write([]byte(body))
	}
	tw.Close()
	gz.Close()
	return b.Bytes()
}

// genArchive returns (sdist file name, archive bytes, isWheel).
func genArchive(r *rand.Rand, metadata string) (string, []byte, bool) {
	wheel := r.Intn(2) == 0
	var files []arcFile
	n := r.Intn(4)
	for i := 0; i < n; i++ {
		files = append(files, arcFile{semverops.Pick(r, "pkg/__init__.py", "README", "pkg-1.0/README", "top", "pkg-1.0/pkg/a.py", "x/y/z"), "print(1)\n"})
	}
	if wheel {
		k := 1
		if r.Intn(6) == 0 {
			k = r.Intn(3)
		}
		for i := 0; i < k; i++ {
			files = append(files, arcFile{semverops.Pick(r, "pkg-1.0.dist-info/METADATA", "pkg-1.0.dist-info/METADATA", "other-2.dist-info/METADATA", "pkg-1.0.dist-info/RECORD", "METADATA", "pkg.dist-info/sub/METADATA", ".dist-info/METADATA"), metadata})
		}
	} else {
		k := 1
		if r.Intn(6) == 0 {
			k = r.Intn(3)
		}
		for i := 0; i < k; i++ {
			files = append(files, arcFile{semverops.Pick(r, "pkg-1.0/PKG-INFO", "pkg-1.0/PKG-INFO", "other/PKG-INFO", "PKG-INFO", "pkg-1.0/sub/PKG-INFO"), metadata})
		}
		if r.Intn(3) == 0 {
			files = append(files, arcFile{"pkg-1.0/setup.py", semverops.Pick(r, "setup(install_requires=['a'])", "setup()", "install_requires")})
		}
		if r.Intn(3) == 0 {
			files = append(files, arcFile{"pkg-1.0/setup.cfg", semverops.Pick(r, "[options]\ninstall_requires =\n  a\n", "[metadata]\n")})
		}
	}
	r.Shuffle(len(files), func(i, j int) { files[i], files[j] = files[j], files[i] })
	var data []byte
	name := "pkg-1.0.zip"
	if wheel || r.Intn(2) == 0 {
		data = zipBytes(files)
	} else {
		data = tgzBytes(r, files)
		name = semverops.Pick(r, "pkg-1.0.tar.gz", "pkg-1.0.tgz")
	}
	switch r.Intn(8) {
	case 0: // truncated
		if len(data) > 4 {
			data = data[:r.Intn(len(data))]
		}
	case 1: // one byte damaged
		if len(data) > 0 {
			data = append([]byte{}, data...)
			data[r.Intn(len(data))] ^= byte(1 << uint(r.Intn(8)))
		}
	case 2: // wrong container for the name
		if !wheel {
			name = semverops.Pick(r, "pkg-1.0.tar.gz", "pkg-1.0.zip", "pkg-1.0.tar.bz2", "pkg")
		}
	}
	return name, data, wheel
}
