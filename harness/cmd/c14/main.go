// C14: the in-memory client reports exactly what was last added.
package main

import (
	"fmt"
	"math/rand"
	"sort"
	"strings"

	"deps.dev/util/resolve"

	"verifharness/fw"
	"verifharness/resolveops"
	"verifharness/semvergen"
	"verifharness/semverops"
)

type (
	V     = resolveops.V
	R     = resolveops.R
	SeqOp = resolveops.SeqOp
)

// ---- the map-based reference (independent of util/resolve's client and matching code) ----

type vkey struct {
	sys  resolve.System
	name string
	typ  resolve.VersionType
	ver  string
}

type pkey struct {
	sys  resolve.System
	name string
}

type entry struct {
	v    V
	reqs []R
}

type refClient struct {
	m     map[vkey]entry
	known map[pkey]bool
}

func keyOf(o SeqOp) vkey { return vkey{o.Sys, o.Name, o.Type, o.Ver} }

// versionsOf lists the records of a package (in an arbitrary but deterministic order).
func (rc *refClient) versionsOf(p pkey) []V {
	var ks []vkey
	for k := range rc.m {
		if k.sys == p.sys && k.name == p.name {
			ks = append(ks, k)
		}
	}
	sort.Slice(ks, func(i, j int) bool {
		if ks[i].ver != ks[j].ver {
			return ks[i].ver < ks[j].ver
		}
		return ks[i].typ < ks[j].typ
	})
	out := make([]V, len(ks))
	for i, k := range ks {
		out[i] = rc.m[k].v
	}
	return out
}

func devOnly(r R) bool { return r.Dev && !r.Opt && !r.HasKnown }

func effName(r R) string {
	if r.HasKnown {
		return r.KnownAs
	}
	return r.Name
}

// npmReqLess is npm's resolution order on requirements, written from its
// description: dev-only dependencies last; otherwise by lower-cased name, and for
// names equal up to case, lower case first ("a" before "A").
func npmReqLess(a, b R) bool {
	if devOnly(a) != devOnly(b) {
		return devOnly(b)
	}
	na, nb := effName(a), effName(b)
	if la, lb := strings.ToLower(na), strings.ToLower(nb); la != lb {
		return la < lb
	}
	return na > nb
}

func reqMultiset(rs []R) string {
	ss := make([]string, len(rs))
	for i, r := range rs {
		ss[i] = resolveops.EncR(r)
	}
	sort.Strings(ss)
	return strings.Join(ss, "|")
}

// checkList compares a returned version list with the expected record set: exact
// arrangement when the ecosystem order determines one, else same records + ascending.
func checkList(sys resolve.System, name string, want []V, gotEnc string) (bool, string) {
	if !strings.HasPrefix(gotEnc, "v=") {
		return true, "expected a version list, got " + gotEnc
	}
	got := resolveops.DecList(sys, name, gotEnc[2:])
	if !resolveops.SameMultiset(sys, name, want, got) {
		return true, fmt.Sprintf("expected the %d records %q, got %q", len(want), resolveops.Strings(want), resolveops.Strings(got))
	}
	return false, ""
}

func npmCandidate(req string, v V) bool {
	if req == v.Version {
		return true
	}
	for _, t := range strings.Split(v.Tags, ",") {
		if t == req {
			return true
		}
	}
	return false
}

// refSeq replays the sequence on the map reference and compares every observation.
func refSeq(ops []SeqOp, obs []string) (bool, string) {
	bad, detail, _ := refSeqAt(ops, obs)
	return bad, detail
}

// refSeqAt also returns the index of the first op whose observation is wrong.
func refSeqAt(ops []SeqOp, obs []string) (bad bool, detail string, at int) {
	rc := &refClient{m: map[vkey]entry{}, known: map[pkey]bool{}}
	if len(obs) != len(ops) {
		return true, "observation count differs from op count", -1
	}
	for i, o := range ops {
		got := obs[i]
		fail := func(format string, a ...any) (bool, string, int) {
			return true, fmt.Sprintf("op %d (%s): ", i, o.Kind) + fmt.Sprintf(format, a...), i
		}
		p := pkey{o.Sys, o.Name}
		ss := resolveops.Semver(o.Sys)
		switch o.Kind {
		case "add":
			if got != "+" {
				return fail("AddVersion did not return normally: %s", got)
			}
			if o.V.Deleted {
				continue
			}
			rc.m[keyOf(o)] = entry{o.V, o.Reqs}
			rc.known[p] = true
			for _, r := range o.Reqs {
				rc.known[pkey{r.Sys, r.Name}] = true
			}
		case "ver":
			e, ok := rc.m[keyOf(o)]
			if !ok {
				if got != "nf" {
					return fail("never added (or only deleted), yet found: %s", got)
				}
				continue
			}
			if want := "a=" + resolveops.EncAttrs(e.v); got != want {
				return fail("attributes of the most recent addition are %s, got %s", want, got)
			}
		case "vers", "match":
			if !rc.known[p] {
				if got != "nf" {
					return fail("package never mentioned, yet found: %s", got)
				}
				continue
			}
			if got == "nf" {
				return fail("package was added or mentioned in a requirement but is not found")
			}
			all := rc.versionsOf(p)
			want := all
			single := false
			if o.Kind == "match" {
				want = nil
				c, err := ss.ParseConstraint(o.Ver)
				switch {
				case err == nil:
					for _, v := range all {
						if c.Match(v.Version) {
							want = append(want, v)
						}
					}
				case o.Sys == resolve.NPM:
					single = true
					for _, v := range resolveops.RefArrange(o.Sys, all) {
						if npmCandidate(o.Ver, v) {
							want = []V{v}
							break
						}
					}
				default:
					for _, v := range all {
						if v.Version == o.Ver {
							want = append(want, v)
						}
					}
				}
			}
			strs := resolveops.Strings(all)
			determined := resolveops.Distinct(strs) && resolveops.Lawful(ss, strs)
			if single && !determined {
				// which of several candidates comes first is not determined: membership only
				if !strings.HasPrefix(got, "v=") {
					return fail("expected a version list, got %s", got)
				}
				g := resolveops.DecList(o.Sys, o.Name, got[2:])
				if len(want) == 0 && len(g) != 0 || len(want) == 1 && (len(g) != 1 || !npmCandidate(o.Ver, g[0])) {
					return fail("wrong selection for non-range requirement %q", o.Ver)
				}
				continue
			}
			if bad, d := checkList(o.Sys, o.Name, want, got); bad {
				return fail("%s", d)
			}
			g := resolveops.DecList(o.Sys, o.Name, got[2:])
			if determined {
				// each record once, in the one ascending arrangement
				arr := resolveops.RefArrange(o.Sys, all)
				var sel []V
				for _, v := range arr {
					for _, w := range want {
						if resolveops.EncV(o.Sys, o.Name, v) == resolveops.EncV(o.Sys, o.Name, w) {
							sel = append(sel, v)
							break
						}
					}
				}
				if e := "v=" + resolveops.EncList(o.Sys, o.Name, sel); e != got {
					return fail("expected %q in this order, got %q", resolveops.Strings(sel), resolveops.Strings(g))
				}
			} else if !single {
				if bad, d := resolveops.CheckOrder(o.Sys, all, g); bad {
					return fail("%s", d)
				}
			}
		case "reqs":
			e, ok := rc.m[keyOf(o)]
			if !ok {
				if got != "nf" {
					return fail("never added, yet requirements found: %s", got)
				}
				continue
			}
			if !strings.HasPrefix(got, "r=") {
				return fail("expected requirements, got %s", got)
			}
			g := resolveops.DecReqs(got[2:])
			if reqMultiset(g) != reqMultiset(e.reqs) {
				return fail("requirements differ from those of the most recent addition: want %s got %s", resolveops.EncReqs(e.reqs), got[2:])
			}
			npm, other := 0, 0
			for _, r := range e.reqs {
				if r.Sys == resolve.NPM {
					npm++
				} else {
					other++
				}
			}
			switch {
			case other == 0:
				for k := 0; k+1 < len(g); k++ {
					if npmReqLess(g[k+1], g[k]) {
						return fail("requirements not in npm resolution order: %s before %s", effName(g[k]), effName(g[k+1]))
					}
				}
			case npm == 0:
				if resolveops.EncReqs(g) != resolveops.EncReqs(e.reqs) {
					return fail("requirements reordered: want %s got %s", resolveops.EncReqs(e.reqs), got[2:])
				}
			}
		}
	}
	return false, "", -1
}

// classify: negation of the hypothesis of the partial theorem in Props/C14.lean, as a
// predicate on the history.
//
//	F-C14-mvn-intrans   ¬HistoryLawful: the ecosystem order is not a total order on the versions
//	                     added for some Maven package (C12: F-C12-mvn-intrans).
//
// Only the order/selection of a listing can be affected: the failing call must be a Versions
// or MatchingVersions call on a Maven package. (F-C14-latest-substr is fixed: nothing is
// tolerated on npm packages; tags that merely contain "latest" are regression inputs.)
func classify(oracle string, ops, res []string) string {
	f := strings.Fields(ops[0])
	rf := strings.Fields(res[0])
	if oracle != "ref" || len(f) != 3 || len(rf) != 2 || rf[0] != "ok" {
		return ""
	}
	seq := resolveops.DecSeq(f[2])
	bad, _, at := refSeqAt(seq, strings.Split(rf[1], ";"))
	if !bad || at < 0 || (seq[at].Kind != "vers" && seq[at].Kind != "match") {
		return ""
	}
	if seq[at].Sys == resolve.Maven && !historyLawful(seq) {
		return "F-C14-mvn-intrans"
	}
	return ""
}

// historyLookalike: some non-deleted npm addition has a tag string that contains "latest"
// other than as a whole tag (distribution only; see resolveops.LatestLookalike).
func historyLookalike(seq []SeqOp) bool {
	for _, o := range seq {
		if o.Kind == "add" && o.Sys == resolve.NPM && !o.V.Deleted && resolveops.LatestLookalike([]V{o.V}) {
			return true
		}
	}
	return false
}

func historyLawful(seq []SeqOp) bool {
	added := map[pkey][]string{}
	for _, o := range seq {
		if o.Kind == "add" && o.Sys == resolve.Maven && !o.V.Deleted {
			p := pkey{o.Sys, o.Name}
			added[p] = append(added[p], o.Ver)
		}
	}
	for p, vs := range added {
		if !resolveops.Lawful(resolveops.Semver(p.sys), vs) {
			return false
		}
	}
	return true
}

func recheck(oracle string, ops, res []string) (bool, string) {
	if oracle != "ref" {
		return true, "unknown oracle"
	}
	f := strings.Fields(ops[0])
	if len(f) != 3 || f[1] != "seq" {
		return true, "malformed op"
	}
	rf := strings.Fields(res[0])
	if len(rf) != 2 || rf[0] != "ok" {
		return true, "no result: " + res[0]
	}
	return refSeq(resolveops.DecSeq(f[2]), strings.Split(rf[1], ";"))
}

// ---- generators -----------------------------------------------------------

var versionPool = map[resolve.System][]string{
	resolve.NPM:   {"1.0.0", "v1.0.0", "1.0.0+b", "1.0.0-rc.1", "2.0.0-beta.1", "2.0.0", "1.2.0", "0.0.1", "banana", "1.10.0"},
	resolve.Maven: {"1.0", "1.0.0", "1", "1.0-alpha", "1.0-SNAPSHOT", "2.0", "1.1", "1.0-rc1", "1.0-sp", "1.10"},
	resolve.PyPI:  {"1.0", "1.0.0", "1", "1.0.post1", "1.0a1", "1.0.dev1", "2.0", "banana", "1.0+local", "1.1"},
}

var namePool = map[resolve.System][]string{
	resolve.NPM:   {"a", "b", "c", "A", "Zz"},
	resolve.Maven: {"g:a", "g:b", "g:c", "G:a"},
	resolve.PyPI:  {"a", "b", "c", "A-b"},
}

var reqPool = map[resolve.System][]string{
	resolve.NPM:   {">=1", "^1.0.0", "latest", "1.0.0", "*", "next", "<2", "banana", ">=1.0.0-0", "~1.0.0", ""},
	resolve.Maven: {"[1.0,)", "1.0", "[1.0]", "(,2.0)", "[0,)", "banana", "[1,2)"},
	resolve.PyPI:  {">=1", "==1.0", "", "<2", "!=1.0", ">=1.0a1", "banana", "~=1.0"},
}

type genOpts struct {
	ext  bool // outside the property's quantifier: correspondence only
	find bool // include inputs of the known finding class (Maven's intransitive shapes)
}

func genAttrs(r *rand.Rand, v *V, o genOpts) {
	switch k := r.Intn(12); {
	case k < 3:
		v.HasTags, v.Tags = true, "latest"
	case k < 5:
		v.HasTags, v.Tags = true, semverops.Pick(r, "next", "beta,next", "", "latest,next", "next,latest", ",latest", "beta,latest,next")
	case k == 5:
		// not the tag latest (regression inputs of the fixed finding F-C14-latest-substr)
		v.HasTags, v.Tags = true, semverops.Pick(r, "notlatest", "latest-2", "prelatest,next", "latestx", "next,latestx", "Latest")
	}
	v.Blocked = r.Intn(4) == 0
	v.Error = r.Intn(12) == 0
	v.Deleted = r.Intn(8) == 0
}

func genReqs(r *rand.Rand, sys resolve.System, o genOpts) []R {
	n := r.Intn(4)
	if r.Intn(10) == 0 {
		n = 4 + r.Intn(5)
	}
	var out []R
	for i := 0; i < n; i++ {
		q := R{Sys: sys, Name: semverops.Pick(r, append(namePool[sys], "zz", "Lodash", "lodash", "never-versioned")...), Version: semverops.Pick(r, reqPool[sys]...)}
		switch k := r.Intn(20); {
		case k < 3:
			q.Dev = true
		case k < 5:
			q.Opt = true
		case k == 5:
			q.Dev, q.Opt = true, true
		case k < 8:
			q.HasKnown, q.KnownAs = true, semverops.Pick(r, "alias", "B", "b", "Alias", "")
		case k == 8:
			q.Dev, q.HasKnown, q.KnownAs = true, true, "dk"
		}
		if o.ext && r.Intn(6) == 0 {
			q.Sys = systems[r.Intn(3)]
		}
		out = append(out, q)
	}
	return out
}

var systems = []resolve.System{resolve.NPM, resolve.Maven, resolve.PyPI}

func genSeq(r *rand.Rand, maxOps int, o genOpts) []SeqOp {
	base := systems[r.Intn(3)]
	mixed := r.Intn(10) < 3
	n := 1 + r.Intn(maxOps)
	var ops []SeqOp
	var addedKeys []SeqOp
	var mentioned []pkey
	for len(ops) < n {
		sys := base
		if mixed && r.Intn(3) == 0 {
			sys = systems[r.Intn(3)]
		}
		pickKey := func() SeqOp {
			if len(addedKeys) > 0 && r.Intn(10) < 7 {
				k := addedKeys[r.Intn(len(addedKeys))]
				return SeqOp{Sys: k.Sys, Name: k.Name, Type: k.Type, Ver: k.Ver}
			}
			k := SeqOp{Sys: sys, Name: semverops.Pick(r, append(namePool[sys], "never")...), Type: resolve.Concrete, Ver: semverops.Pick(r, append(versionPool[sys], "9.9.9")...)}
			if r.Intn(12) == 0 {
				k.Type = resolve.Requirement
			}
			return k
		}
		pickPkg := func() pkey {
			if len(mentioned) > 0 && r.Intn(10) < 7 {
				return mentioned[r.Intn(len(mentioned))]
			}
			return pkey{sys, semverops.Pick(r, append(namePool[sys], "never", "zz")...)}
		}
		switch k := r.Intn(100); {
		case k < 50:
			op := SeqOp{Kind: "add", Sys: sys, Name: semverops.Pick(r, namePool[sys][:3]...), Type: resolve.Concrete, Ver: semverops.Pick(r, versionPool[sys]...)}
			if len(addedKeys) > 0 && r.Intn(4) == 0 { // repeated key, changed attributes / requirements
				a := addedKeys[r.Intn(len(addedKeys))]
				op.Sys, op.Name, op.Type, op.Ver = a.Sys, a.Name, a.Type, a.Ver
			}
			if o.ext && r.Intn(15) == 0 {
				op.Type = resolve.Requirement
			}
			if (o.ext || o.find) && op.Sys == resolve.Maven && r.Intn(4) == 0 {
				op.Ver = semverops.Pick(r, "4.1", "4.1-jre", "4.1.0.Beta1", "1.0-jre", "1.0.0.RC1")
			}
			op.V = V{Sys: op.Sys, Name: op.Name, Type: op.Type, Version: op.Ver}
			genAttrs(r, &op.V, o)
			op.Reqs = genReqs(r, op.Sys, o)
			ops = append(ops, op)
			addedKeys = append(addedKeys, op)
			mentioned = append(mentioned, pkey{op.Sys, op.Name})
			for _, q := range op.Reqs {
				mentioned = append(mentioned, pkey{q.Sys, q.Name})
			}
		case k < 62:
			q := pickKey()
			q.Kind = "ver"
			ops = append(ops, q)
		case k < 76:
			p := pickPkg()
			ops = append(ops, SeqOp{Kind: "vers", Sys: p.sys, Name: p.name})
		case k < 86:
			q := pickKey()
			q.Kind = "reqs"
			ops = append(ops, q)
		default:
			p := pickPkg()
			req := semverops.Pick(r, reqPool[p.sys]...)
			if r.Intn(3) == 0 {
				req = semverops.Pick(r, versionPool[p.sys]...)
			}
			ops = append(ops, SeqOp{Kind: "match", Sys: p.sys, Name: p.name, Type: resolve.Requirement, Ver: req})
		}
	}
	return ops
}

// probes appends one query of each kind for every key and package the sequence touches.
func probes(ops []SeqOp) []SeqOp {
	out := append([]SeqOp(nil), ops...)
	seenK, seenP := map[vkey]bool{}, map[pkey]bool{}
	for _, o := range ops {
		if o.Kind != "add" {
			continue
		}
		if k := keyOf(o); !seenK[k] && len(out) < 60 {
			seenK[k] = true
			out = append(out, SeqOp{Kind: "ver", Sys: o.Sys, Name: o.Name, Type: o.Type, Ver: o.Ver}, SeqOp{Kind: "reqs", Sys: o.Sys, Name: o.Name, Type: o.Type, Ver: o.Ver})
		}
		ps := []pkey{{o.Sys, o.Name}}
		for _, q := range o.Reqs {
			ps = append(ps, pkey{q.Sys, q.Name})
		}
		for _, p := range ps {
			if !seenP[p] && len(out) < 60 {
				seenP[p] = true
				out = append(out, SeqOp{Kind: "vers", Sys: p.sys, Name: p.name})
			}
		}
	}
	return out
}

func stats(c *fw.Ctx, ops []SeqOp, res string) {
	adds, repl, del := 0, 0, 0
	seen := map[vkey]bool{}
	for _, o := range ops {
		c.Count("op:" + o.Kind)
		if o.Kind == "add" {
			adds++
			if o.V.Deleted {
				del++
			} else if seen[keyOf(o)] {
				repl++
			}
			seen[keyOf(o)] = true
			c.Count("sys:" + resolveops.SysName(o.Sys))
		}
	}
	if repl > 0 {
		c.Count("seq:with-replacement")
	}
	if historyLookalike(ops) {
		c.Count("seq:latest-lookalike")
	}
	if !historyLawful(ops) {
		c.Count("seq:maven-unlawful")
	}
	if del > 0 {
		c.Count("seq:with-deleted")
	}
	c.Count("obs:nf:" + fmt.Sprint(min(strings.Count(res, "nf"), 5)))
	if repl > 0 {
		c.Nontrivial(resolveops.EncSeq(ops))
	}
}

func run(c *fw.Ctx) {
	r := c.Rng
	// 1. small-scope exhaustive: every sequence of ≤ 4 additions over an alphabet of five
	// (two keys of one package; plain / latest / deleted / with a requirement), followed by
	// every query.
	mk := func(ver string, f func(v *V), reqs ...R) SeqOp {
		o := SeqOp{Kind: "add", Sys: resolve.NPM, Name: "a", Type: resolve.Concrete, Ver: ver}
		o.V = V{Sys: resolve.NPM, Name: "a", Type: resolve.Concrete, Version: ver}
		if f != nil {
			f(&o.V)
		}
		o.Reqs = reqs
		return o
	}
	alpha := []SeqOp{
		mk("1.0.0", nil),
		mk("1.0.0", func(v *V) { v.HasTags, v.Tags = true, "latest" }),
		mk("1.0.0", func(v *V) { v.Deleted = true }),
		mk("2.0.0", func(v *V) { v.Blocked = true }, R{Sys: resolve.NPM, Name: "b", Version: "^1"}),
		mk("2.0.0", func(v *V) { v.HasTags, v.Tags = true, "latest" }, R{Sys: resolve.NPM, Name: "c", Version: "*", Dev: true}, R{Sys: resolve.NPM, Name: "B", Version: "*"}),
	}
	suffix := []SeqOp{
		{Kind: "ver", Sys: resolve.NPM, Name: "a", Type: resolve.Concrete, Ver: "1.0.0"},
		{Kind: "ver", Sys: resolve.NPM, Name: "a", Type: resolve.Concrete, Ver: "2.0.0"},
		{Kind: "vers", Sys: resolve.NPM, Name: "a"},
		{Kind: "vers", Sys: resolve.NPM, Name: "b"},
		{Kind: "vers", Sys: resolve.NPM, Name: "c"},
		{Kind: "reqs", Sys: resolve.NPM, Name: "a", Type: resolve.Concrete, Ver: "1.0.0"},
		{Kind: "reqs", Sys: resolve.NPM, Name: "a", Type: resolve.Concrete, Ver: "2.0.0"},
		{Kind: "match", Sys: resolve.NPM, Name: "a", Type: resolve.Requirement, Ver: "*"},
		{Kind: "match", Sys: resolve.NPM, Name: "a", Type: resolve.Requirement, Ver: "latest"},
	}
	var rec func(cur []SeqOp)
	rec = func(cur []SeqOp) {
		if len(cur) > 0 {
			i, _ := c.Opf("C14 seq %s", resolveops.EncSeq(append(append([]SeqOp(nil), cur...), suffix...)))
			c.Check("ref", i)
			c.Count("exhaustive")
		}
		if len(cur) == 4 {
			return
		}
		for _, a := range alpha {
			rec(append(append([]SeqOp(nil), cur...), a))
		}
	}
	rec(nil)

	// 2. random histories inside the property's quantifier
	for it := 0; it < c.N(14000, 300000); it++ {
		ops := genSeq(r, 45, genOpts{find: it%8 == 7})
		if r.Intn(2) == 0 {
			ops = probes(ops)
		}
		if len(ops) > 60 {
			ops = ops[:60]
		}
		i, res := c.Opf("C14 seq %s", resolveops.EncSeq(ops))
		c.Check("ref", i)
		stats(c, ops, res)
		if it < 2 {
			c.Sample(resolveops.EncSeq(ops))
		}
	}

	// 3. correspondence only: inputs in C12's finding class (Maven's intransitive shapes),
	// Requirement-typed additions, requirements of mixed systems
	for it := 0; it < c.N(3000, 40000); it++ {
		ops := genSeq(r, 40, genOpts{ext: true})
		c.Opf("C14 seq %s", resolveops.EncSeq(ops))
		c.Count("ext")
	}
}

func exec(f []string) string { return resolveops.ExecC14(f) }

func main() {
	fw.Main(&fw.Prop{
		ID: "C14",
		Rule: "one op line = one history of ≤ 60 calls on a fresh LocalClient: AddVersion (new keys; repeated keys with changed attributes/requirements; deleted-flagged; NPM/Maven/PyPI, 30% of histories mix systems; collision-rich version pools with equal-comparing spellings and unparsable strings; tags latest (alone or inside a comma-separated list)/next/…, look-alikes that are not the tag latest (notlatest, latest-2, latestx: regression inputs of the fixed finding F-C14-latest-substr, nothing tolerated), deprecated, error; 0..8 requirements with dev/opt/KnownAs and case-variant names) interleaved with Version/Versions/Requirements/MatchingVersions on added, mentioned and never-added keys; half of the histories end with a probe of every key and package touched. Oracle ref = a map-based reference in the harness (independent of util/resolve's client and matching code; ordering and matching through util/semver) compared observation by observation. Plus every history of ≤ 4 additions over a five-letter alphabet followed by all queries, one history in eight also draws from the known finding class (Maven's intransitive shapes), and a correspondence-only stream outside the quantifier (Requirement-typed additions, requirements of mixed systems). Distinct non-trivial = distinct histories that replace an existing key.",
		Exec: exec, Run: run, Recheck: recheck, Classify: classify,
		Gens: semvergen.Generators(),
	})
}
