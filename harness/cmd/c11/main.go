// C11: the textual form of a constraint set parses back to the same set.
package main

import (
	"fmt"
	"regexp"
	"strings"

	"deps.dev/util/semver"

	"verifharness/fw"
	"verifharness/semvergen"
	"verifharness/semverops"
)

var systems = []semver.System{semver.DefaultSystem, semver.NPM, semver.Cargo, semver.Go, semver.NuGet}

func exec(f []string) string {
	if r, ok := semverops.Exec(f); ok {
		return r
	}
	return "bad-op"
}

func field(res, key string) (string, bool) {
	for _, f := range strings.Fields(res) {
		if strings.HasPrefix(f, key+"=") {
			return strings.TrimPrefix(f, key+"="), true
		}
	}
	return "", false
}

func recheck(oracle string, ops, res []string) (bool, string) {
	switch oracle {
	case "reparse": // cparse c ; setparse S
		if !strings.HasPrefix(res[0], "ok") {
			return false, ""
		}
		s0, _ := field(res[0], "set")
		if !strings.HasPrefix(res[1], "ok") {
			return true, fmt.Sprintf("set text %q does not parse back", fw.Unhx(s0))
		}
		s1, _ := field(res[1], "set")
		if s0 != s1 {
			return true, fmt.Sprintf("set text %q prints as %q after reparsing", fw.Unhx(s0), fw.Unhx(s1))
		}
	case "samematch": // match c v ; setmatch S v  -> mp bits equal
		if !strings.HasPrefix(res[0], "ok") || strings.Contains(res[0], "verr") {
			return false, ""
		}
		a, _ := field(res[0], "mp")
		if !strings.HasPrefix(res[1], "ok") {
			return true, "set text does not parse back"
		}
		b, _ := field(res[1], "mp")
		if a != b {
			return true, fmt.Sprintf("prerelease-inclusive match differs: constraint %s, reparsed set %s", a, b)
		}
	default:
		return true, "unknown oracle"
	}
	return false, ""
}

var nuget4zero = regexp.MustCompile(`[0-9]+\.[0-9]+\.[0-9]+\.0([-:\]\),}]|$)`)

// classify: F-C11-satmin = negation of Props.C11.FiniteLowerBounds: some span's lower bound
// (or a unit span) has an ∞ component (only reachable through `>` on a number equal to
// infinity-1, whose successor saturates).
func classify(oracle string, ops, res []string) string {
	f := strings.Fields(ops[0])
	if len(f) < 4 {
		return ""
	}
	cc, err := semverops.SysNames[f[2]].ParseConstraint(fw.Unhx(f[3]))
	if err != nil {
		return ""
	}
	set := cc.Set().String()
	if f[2] == "NuGet" && nuget4zero.MatchString(set) {
		return "F-C11-nuget4zero" // negation of Props.C11.NoZeroFourth
	}
	for _, part := range strings.Split(strings.Trim(set, "{}"), ",") {
		lo := part
		if i := strings.Index(part, ":"); i >= 0 {
			lo = part[:i]
		}
		if strings.Contains(lo, "∞") {
			return "F-C11-satmin"
		}
	}
	return ""
}

func run(c *fw.Ctx) {
	n := c.N(1500, 60000)
	for _, sys := range systems {
		pool := semverops.ProbeVersions(sys)
		for it := 0; it < n; it++ {
			C := semverops.GenConstraint(c.Rng, sys)
			if it%3 == 1 && (sys == semver.NPM || sys == semver.DefaultSystem) {
				// alternatives over a small shared operand pool: spans with equal lower bounds,
				// prerelease upper bounds, absorbed and unmergeable neighbours
				semverops.OperandPool = []string{semverops.GenCVersion(c.Rng, sys), semverops.GenCVersion(c.Rng, sys), semverops.GenCVersion(c.Rng, sys), semverops.GenCVersion(c.Rng, sys)}
				parts := []string{}
				for k := 0; k < 3+c.Rng.Intn(2); k++ {
					parts = append(parts, semverops.GenConstraint(c.Rng, sys))
				}
				semverops.OperandPool = nil
				C = strings.Join(parts, " || ")
			}
			if it%7 == 2 && (sys == semver.NPM || sys == semver.DefaultSystem) {
				// family: several alternatives starting at the same version, with plain and prerelease
				// upper bounds, plus an open-ended alternative that absorbs some of them
				v := func() string { return fmt.Sprintf("%d.%d.%d", c.Rng.Intn(3), c.Rng.Intn(3), c.Rng.Intn(3)) }
				lo := v()
				iv := func(lo, hi string) string {
					switch c.Rng.Intn(3) {
					case 0:
						return lo + " - " + hi
					case 1:
						return ">=" + lo + " <=" + hi
					}
					return ">=" + lo + " <" + hi
				}
				parts := []string{iv(lo, v()), iv(lo, v()+semverops.Pick(c.Rng, "-rc", "-a", "-0", "")), semverops.Pick(c.Rng, ">=", ">", "^", "~") + v()}
				if c.Rng.Intn(2) == 0 {
					parts = append(parts, iv(v(), v()+semverops.Pick(c.Rng, "-rc", "")))
				}
				c.Rng.Shuffle(len(parts), func(i, j int) { parts[i], parts[j] = parts[j], parts[i] })
				C = strings.Join(parts, " || ")
			}
			if sys == semver.NuGet && it%23 == 0 {
				C = semverops.Pick(c.Rng, "1.2.3.*", "[1.2.3.*, )", "[1.2.3.*, 2.0.0.*)", "1.0.0.*", "(1.0.0.0, 2.0.0.1]", "[1.2.3.0]")
			}
			if it%97 == 0 {
				// numbers next to the library's infinity (2^63-1): successor saturation
				C = semverops.Pick(c.Rng, ">", ">=", "<", "^", "~") + semverops.Pick(c.Rng, "0.0.", "1.2.", "0.", "") + semverops.Pick(c.Rng, "9223372036854775806", "9223372036854775805")
				if sys == semver.Go {
					C = "v1.2." + semverops.Pick(c.Rng, "9223372036854775806", "9223372036854775805")
				}
			}
			i0, r0 := c.Opf("C11 cparse %s %s", sys, fw.Hx(C))
			c.Count(sys.String() + ":" + strings.Fields(r0)[0])
			if !strings.HasPrefix(r0, "ok") {
				continue
			}
			sh, _ := field(r0, "set")
			S := fw.Unhx(sh)
			i1, _ := c.Opf("C11 setparse %s %s", sys, sh)
			c.Check("reparse", i0, i1)
			c.Nontrivial(sys.String() + "|" + S)
			// probes: bounds in the set text, their neighbours, random pool versions
			var probes []string
			for _, part := range strings.FieldsFunc(S, func(r rune) bool { return strings.ContainsRune("{}[]():,", r) }) {
				if strings.Contains(part, "∞") || part == "<empty>" {
					continue
				}
				probes = append(probes, part)
				if !strings.Contains(strings.TrimPrefix(part, "v"), "-") {
					probes = append(probes, part+"-a", part+"-0")
				} else {
					probes = append(probes, part[:strings.LastIndex(part, "-")], part+".0")
				}
			}
			for k := 0; k < 6; k++ {
				probes = append(probes, pool[c.Rng.Intn(len(pool))])
			}
			if len(probes) > 14 {
				probes = probes[:14]
			}
			for _, v := range probes {
				a, _ := c.Opf("C11 match %s %s %s", sys, fw.Hx(C), fw.Hx(v))
				b, _ := c.Opf("C11 setmatch %s %s %s", sys, sh, fw.Hx(v))
				c.Check("samematch", a, b)
			}
			if it < 2 {
				c.Sample(fmt.Sprintf("%s: %q -> %s", sys, C, S))
			}
		}
	}
}

func main() {
	fw.Main(&fw.Prop{
		ID:   "C11",
		Rule: "per system (Default, NPM, Cargo, Go, NuGet): random constraints from the grammar; Set().String() is parsed with ParseSetConstraint, must print identically, and must agree with the original under MatchVersionPrerelease on every span bound, its prerelease/release neighbours and random pool versions. Distinct non-trivial = distinct (system, set text).",
		Exec: exec, Run: run, Recheck: recheck, Classify: classify,
		Gens: semvergen.Generators(),
	})
}
