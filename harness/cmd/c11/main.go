// C11: the textual form of a constraint set parses back to the same set.
package main

import (
	"fmt"
	"strings"

	"deps.dev/util/semver"

	"verifharness/fw"
	"verifharness/semvergen"
	"verifharness/semverops"
)

var systems = []semver.System{semver.DefaultSystem, semver.NPM, semver.Cargo, semver.Go, semver.NuGet}

func exec(f []string) string {
	if r, ok := semverops.Exec(f); ok {
		return r
	}
	return "bad-op"
}

func field(res, key string) (string, bool) {
	for _, f := range strings.Fields(res) {
		if strings.HasPrefix(f, key+"=") {
			return strings.TrimPrefix(f, key+"="), true
		}
	}
	return "", false
}

func recheck(oracle string, ops, res []string) (bool, string) {
	switch oracle {
	case "reparse": // cparse c ; setparse S
		if !strings.HasPrefix(res[0], "ok") {
			return false, ""
		}
		s0, _ := field(res[0], "set")
		if !strings.HasPrefix(res[1], "ok") {
			return true, fmt.Sprintf("set text %q does not parse back", fw.Unhx(s0))
		}
		s1, _ := field(res[1], "set")
		if s0 != s1 {
			return true, fmt.Sprintf("set text %q prints as %q after reparsing", fw.Unhx(s0), fw.Unhx(s1))
		}
	case "samematch": // match c v ; setmatch S v  -> mp bits equal
		if !strings.HasPrefix(res[0], "ok") || strings.Contains(res[0], "verr") {
			return false, ""
		}
		a, _ := field(res[0], "mp")
		if !strings.HasPrefix(res[1], "ok") {
			return true, "set text does not parse back"
		}
		b, _ := field(res[1], "mp")
		if a != b {
			return true, fmt.Sprintf("prerelease-inclusive match differs: constraint %s, reparsed set %s", a, b)
		}
	default:
		return true, "unknown oracle"
	}
	return false, ""
}

func run(c *fw.Ctx) {
	n := c.N(1500, 60000)
	for _, sys := range systems {
		pool := semverops.ProbeVersions(sys)
		for it := 0; it < n; it++ {
			C := semverops.GenConstraint(c.Rng, sys)
			i0, r0 := c.Opf("C11 cparse %s %s", sys, fw.Hx(C))
			c.Count(sys.String() + ":" + strings.Fields(r0)[0])
			if !strings.HasPrefix(r0, "ok") {
				continue
			}
			sh, _ := field(r0, "set")
			S := fw.Unhx(sh)
			i1, _ := c.Opf("C11 setparse %s %s", sys, sh)
			c.Check("reparse", i0, i1)
			c.Nontrivial(sys.String() + "|" + S)
			// probes: bounds in the set text, their neighbours, random pool versions
			var probes []string
			for _, part := range strings.FieldsFunc(S, func(r rune) bool { return strings.ContainsRune("{}[]():,", r) }) {
				if strings.Contains(part, "∞") || part == "<empty>" {
					continue
				}
				probes = append(probes, part)
				if !strings.Contains(strings.TrimPrefix(part, "v"), "-") {
					probes = append(probes, part+"-a", part+"-0")
				} else {
					probes = append(probes, part[:strings.LastIndex(part, "-")], part+".0")
				}
			}
			for k := 0; k < 6; k++ {
				probes = append(probes, pool[c.Rng.Intn(len(pool))])
			}
			if len(probes) > 14 {
				probes = probes[:14]
			}
			for _, v := range probes {
				a, _ := c.Opf("C11 match %s %s %s", sys, fw.Hx(C), fw.Hx(v))
				b, _ := c.Opf("C11 setmatch %s %s %s", sys, sh, fw.Hx(v))
				c.Check("samematch", a, b)
			}
			if it < 2 {
				c.Sample(fmt.Sprintf("%s: %q -> %s", sys, C, S))
			}
		}
	}
}

func main() {
	fw.Main(&fw.Prop{
		ID:   "C11",
		Rule: "per system (Default, NPM, Cargo, Go, NuGet): random constraints from the grammar; Set().String() is parsed with ParseSetConstraint, must print identically, and must agree with the original under MatchVersionPrerelease on every span bound, its prerelease/release neighbours and random pool versions. Distinct non-trivial = distinct (system, set text).",
		Exec: exec, Run: run, Recheck: recheck,
		Gens: semvergen.Generators(),
	})
}
