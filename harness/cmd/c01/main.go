// C01: version comparison is a total preorder in every packaging system.
package main

import (
	"fmt"
	"math/rand"
	"regexp"
	"strings"
	"sync"
	"sync/atomic"

	"deps.dev/util/semver"

	"verifharness/fw"
	"verifharness/semvergen"
	"verifharness/semverops"
)

func exec(f []string) string {
	if len(f) >= 3 && f[0] == "probe" && f[1] == "conc" {
		return concProbe(f[2], f[3:])
	}
	if r, ok := semverops.Exec(f); ok {
		return r
	}
	return "bad-op"
}

// concProbe: parsed versions are values that many goroutines may compare at once (resolvers
// share them through clients). The versions are parsed ONCE; eight goroutines then compare the
// shared objects in random order for a while, and every answer must equal the sequential one.
// Go-only (the Lean model has no threads): `ok 1` = all concurrent answers agree.
func concProbe(sysName string, hexes []string) string {
	sys, ok := semverops.SysNames[sysName]
	if !ok {
		return "bad-op"
	}
	var vs []*semver.Version
	for _, h := range hexes {
		v, err := sys.Parse(fw.Unhx(h))
		if err != nil {
			return "err"
		}
		vs = append(vs, v)
	}
	n := len(vs)
	want := make([][]int, n)
	for i := range vs {
		want[i] = make([]int, n)
		for j := range vs {
			want[i][j] = vs[i].Compare(vs[j])
		}
	}
	var bad atomic.Int64
	var wg sync.WaitGroup
	for g := 0; g < 8; g++ {
		wg.Add(1)
		go func(seed int64) {
			defer wg.Done()
			defer func() {
				if recover() != nil {
					bad.Add(1)
				}
			}()
			r := rand.New(rand.NewSource(seed))
			for k := 0; k < 4000; k++ {
				i, j := r.Intn(n), r.Intn(n)
				if vs[i].Compare(vs[j]) != want[i][j] {
					bad.Add(1)
				}
			}
		}(int64(g) + 1)
	}
	wg.Wait()
	if bad.Load() != 0 {
		return "ok 0"
	}
	return "ok 1"
}

// mavenElems reconstructs (sep, str) elements from a Maven canonical string.
type melem struct {
	sep byte
	str string
}

func mavenElems(canon string) []melem {
	var out []melem
	cur := melem{}
	started := false
	for i := 0; i < len(canon); i++ {
		c := canon[i]
		if c == '.' || c == '-' {
			if started {
				out = append(out, cur)
			}
			cur = melem{sep: c}
			started = true
			continue
		}
		if !started {
			started = true
		}
		cur.str += string(c)
	}
	if started {
		out = append(out, cur)
	}
	return out
}

func isNumericStr(s string) bool {
	if s == "" {
		return false
	}
	for i := 0; i < len(s); i++ {
		if s[i] < '0' || s[i] > '9' {
			return false
		}
	}
	return true
}

func isZeroStr(s string) bool { return isNumericStr(s) && strings.Trim(s, "0") == "" }

// zeroDotQual is the negation of the hypothesis clause ¬ZeroDotQual of the
// Maven theorem (DESIGN 6.4): a zero-valued numeric element directly followed
// by a '.'-separated qualifier element in the trimmed element list.
func zeroDotQual(canon string) bool {
	es := mavenElems(canon)
	for i := 0; i+1 < len(es); i++ {
		if isZeroStr(es[i].str) && es[i+1].sep == '.' && !isNumericStr(es[i+1].str) && es[i+1].str != "∞" {
			return true
		}
	}
	return false
}

var mavenShapeRE = regexp.MustCompile(`^[0-9]+(\.[0-9]+)*([.-]?[A-Za-z]+([.-]?[0-9]+)?)?(-SNAPSHOT)?$`)

func canonOf(sys semver.System, s string) string {
	v, err := sys.Parse(s)
	if err != nil {
		return ""
	}
	return v.Canon(true)
}

func cmpLine(sys semver.System, a, b string) string {
	return fmt.Sprintf("C01 cmp %s %s %s", sys, fw.Hx(a), fw.Hx(b))
}

func parseRes(r string) (int, bool) {
	switch r {
	case "ok -1":
		return -1, true
	case "ok 0":
		return 0, true
	case "ok 1":
		return 1, true
	}
	return 0, false
}

// opArgs extracts (sys, a, b) of a cmp line.
func opArgs(line string) (semver.System, string, string) {
	f := strings.Fields(line)
	return semverops.SysNames[f[2]], fw.Unhx(f[3]), fw.Unhx(f[4])
}

func recheck(oracle string, ops, res []string) (bool, string) {
	get := func(i int) (int, bool) { return parseRes(res[i]) }
	switch oracle {
	case "conc": // probe conc <Sys> <versions>
		if res[0] == "ok 0" || res[0] == "panic" {
			return true, "concurrent comparisons of shared parsed versions disagree with the sequential answers"
		}
	case "refl": // cmp a a
		c, ok := get(0)
		if !ok || c != 0 {
			return true, "compare(a,a) = " + res[0]
		}
	case "antisym": // cmp a b, cmp b a
		x, ok1 := get(0)
		y, ok2 := get(1)
		if !ok1 || !ok2 || x != -y {
			return true, fmt.Sprintf("compare(a,b)=%s compare(b,a)=%s", res[0], res[1])
		}
	case "trans": // cmp a b, cmp b c, cmp a c : a<=b, b<=c => a<=c ; strictness preserved
		ab, ok1 := get(0)
		bc, ok2 := get(1)
		ac, ok3 := get(2)
		if !ok1 || !ok2 || !ok3 {
			return true, "comparison failed"
		}
		if ab <= 0 && bc <= 0 {
			if ac > 0 || ((ab < 0 || bc < 0) && ac == 0) {
				return true, fmt.Sprintf("a<=b (%d), b<=c (%d) but compare(a,c)=%d", ab, bc, ac)
			}
		}
	case "congr": // cmp a b = 0, cmp a c, cmp b c
		ab, ok1 := get(0)
		ac, ok2 := get(1)
		bc, ok3 := get(2)
		if !ok1 || !ok2 || !ok3 {
			return true, "comparison failed"
		}
		if ab == 0 && ac != bc {
			return true, fmt.Sprintf("a~b but compare(a,c)=%d, compare(b,c)=%d", ac, bc)
		}
	case "build": // cmp a a+build
		c, ok := get(0)
		if !ok || c != 0 {
			return true, "build metadata changes comparison: " + res[0]
		}
	case "sortcls": // the same multiset in two input orders sorts to the same class sequence
		if res[0] != res[1] {
			return true, "sorted class sequences differ for two input orders: " + res[0] + " vs " + res[1]
		}
	case "history": // re-execute: result must not depend on earlier calls
		for i, l := range ops {
			f := strings.Fields(l)
			// disturb with unrelated calls first
			semver.PyPI.Compare("1!2.0rc1.post2.dev3+x", "2.0")
			semver.Maven.Compare("1.0-alpha-1", "1.0-SNAPSHOT")
			semver.NPM.ParseConstraint(">=1.0.0 <2.0.0 || ^3")
			if r := exec(f[1:]); r != res[i] {
				return true, fmt.Sprintf("result changed from %q to %q on re-execution", res[i], r)
			}
		}
	default:
		return true, "unknown oracle " + oracle
	}
	return false, ""
}

func classify(oracle string, ops, res []string) string {
	// Maven's own intransitivity (ComparableVersion <= 3.8.6): some member is ZeroDotQual.
	if oracle == "sortcls" {
		f := strings.Fields(ops[0])
		if semverops.SysNames[f[2]] != semver.Maven {
			return ""
		}
		for _, h := range f[3:] {
			if zeroDotQual(canonOf(semver.Maven, fw.Unhx(h))) {
				return "F-C01-mvn-zeroq"
			}
		}
		return ""
	}
	if oracle != "trans" && oracle != "congr" {
		return ""
	}
	for _, l := range ops {
		sys, a, b := opArgs(l)
		if sys != semver.Maven {
			return ""
		}
		if zeroDotQual(canonOf(sys, a)) || zeroDotQual(canonOf(sys, b)) {
			return "F-C01-mvn-zeroq"
		}
	}
	return ""
}

func run(c *fw.Ctx) {
	per := c.N(70, 220)
	for _, sys := range semverops.Systems {
		seen := map[string]bool{}
		var pool []string
		add := func(s string, inDomain bool) {
			if seen[s] || !semverops.InModelDomain(sys, s) {
				return
			}
			seen[s] = true
			_, r := c.Opf("C01 parse %s %s", sys, fw.Hx(s))
			c.Count(sys.String() + ":" + strings.Fields(r)[0])
			if strings.HasPrefix(r, "ok") && inDomain {
				pool = append(pool, s)
			}
		}
		// small-scope exhaustive stream: all strings of <= k tokens; the accepted ones
		// (a deterministic sample of them in the quick tier) join the pool.
		ex := semverops.Exhaustive(semverops.SmallAlphabet(sys), c.N(4, 5))
		var exAccepted []string
		for _, s := range ex {
			if sys == semver.Maven && !mavenShapeRE.MatchString(s) {
				continue
			}
			if _, err := sys.Parse(s); err == nil {
				exAccepted = append(exAccepted, s)
			}
		}
		c.Rng.Shuffle(len(exAccepted), func(i, j int) { exAccepted[i], exAccepted[j] = exAccepted[j], exAccepted[i] })
		for i, s := range exAccepted {
			if i >= per/2 {
				break
			}
			add(s, true)
		}
		// generated, mostly valid, rich in equivalent spellings
		for tries := 0; len(pool) < per && tries < per*40; tries++ {
			s := semverops.GenVersion(c.Rng, sys)
			inDom := sys != semver.Maven || mavenShapeRE.MatchString(s)
			add(s, inDom)
			if c.Rng.Intn(4) == 0 {
				// a near-equivalent spelling of the same version
				add(respell(c, sys, s), inDom)
			}
		}
		// malformed stream (correspondence of the error paths)
		for i := 0; i < per/2; i++ {
			add(semverops.TokenSoup(c.Rng, 6), false)
			add(semverops.Mutate(c.Rng, semverops.GenVersion(c.Rng, sys)), false)
		}
		c.Count(fmt.Sprintf("%s:pool", sys))
		n := len(pool)
		if n > 0 {
			c.Sample(fmt.Sprintf("%s pool e.g. %q", sys, pool[:min(6, n)]))
		}
		// all ordered pairs + the oracles over all triples
		idx := checkPool(c, sys, pool, true)
		n = len(pool)
		// families of near-equal spellings: a base version, small edits of it (case, leading
		// zeros, separators, neighbouring letters/digits, added/dropped components) and two
		// unrelated pool members; all pairs and all triples inside each family
		for f, nf := 0, c.N(30, 150); f < nf && n > 0; f++ {
			base := pool[c.Rng.Intn(n)]
			if c.Rng.Intn(3) == 0 {
				base = semverops.GenVersion(c.Rng, sys)
			}
			fam := []string{}
			for _, v := range append([]string{base}, semverops.Variants(c.Rng, base, 14)...) {
				if !semverops.InModelDomain(sys, v) || (sys == semver.Maven && !mavenShapeRE.MatchString(v)) {
					continue
				}
				if _, err := sys.Parse(v); err != nil {
					continue
				}
				fam = append(fam, v)
				if len(fam) >= 10 {
					break
				}
			}
			fam = append(fam, pool[c.Rng.Intn(n)], pool[c.Rng.Intn(n)])
			c.Count(fmt.Sprintf("%s:family-size-%d", sys, len(fam)))
			checkPool(c, sys, dedup(fam), false)
		}
		// PyPI local labels: two segments from a small alphabet joined by each of the three
		// separators PEP 440 allows, on one release: all pairs and all triples
		if sys == semver.PyPI {
			var fam []string
			segs := []string{"a", "b", "z", "1", "10"}
			for _, x := range segs {
				for _, sep := range []string{".", "-", "_"} {
					for _, y := range segs {
						if c.Thor || c.Rng.Intn(2) == 0 {
							fam = append(fam, "1.0+"+x+sep+y)
						}
					}
				}
			}
			fam = append(fam, "1.0+a", "1.0+A", "1.0+1", "1.0")
			checkPool(c, sys, dedup(fam), false)
		}
		// every identifier of the pool as the single prerelease identifier of one release (generic
		// systems): all pairs and all triples
		if sys != semver.Maven && sys != semver.PyPI && sys != semver.RubyGems {
			var fam []string
			pre := "1.0.0-"
			if sys == semver.Go {
				pre = "v1.0.0-"
			}
			for _, id := range semverops.IdentPool() {
				if _, err := sys.Parse(pre + id); err == nil {
					fam = append(fam, pre+id)
				}
			}
			checkPool(c, sys, dedup(fam), false)
		}
		// shared parsed versions compared concurrently: a base version, near spellings of it (with
		// added, dropped and re-separated components) and two pool members
		for t, nt := 0, c.N(12, 120); t < nt && n > 2; t++ {
			base := pool[c.Rng.Intn(n)]
			fam := []string{base, pool[c.Rng.Intn(n)], pool[c.Rng.Intn(n)]}
			for _, v := range semverops.Variants(c.Rng, base, 10) {
				if !semverops.InModelDomain(sys, v) {
					continue
				}
				if _, err := sys.Parse(v); err == nil {
					fam = append(fam, v)
				}
			}
			line := fmt.Sprintf("C01 probe conc %s", sys)
			for _, v := range dedup(fam) {
				line += " " + fw.Hx(v)
			}
			k, _ := c.Op(line)
			c.Check("conc", k)
		}
		// build metadata never changes the result
		if sys != semver.Maven && sys != semver.PyPI && sys != semver.RubyGems {
			for i := 0; i < n && i < 60; i++ {
				if strings.Contains(pool[i], "+") || strings.ContainsAny(pool[i], "xX*") {
					continue
				}
				wb := pool[i] + "+" + semverops.Pick(c.Rng, "b", "001", "x.y-z")
				if _, err := sys.Parse(wb); err != nil {
					continue // the property is about versions that parse
				}
				k, _ := c.Op(cmpLine(sys, pool[i], wb))
				c.Check("build", k)
				// and against a third version
				j := c.Rng.Intn(n)
				k1, _ := c.Op(cmpLine(sys, pool[i], pool[j]))
				k2, _ := c.Op(cmpLine(sys, wb, pool[j]))
				c.Check("congr", k, k1, k2)
			}
		}
		// sorting yields the same sequence of equivalence classes whatever the input order
		for t := 0; t < 6 && n > 3; t++ {
			k := 8 + c.Rng.Intn(12)
			sub := make([]string, 0, k)
			for i := 0; i < k; i++ {
				x := pool[c.Rng.Intn(n)]
				if sys == semver.Maven && zeroDotQual(canonOf(sys, x)) {
					continue // the reference algorithm's own intransitivity: sorting is then order dependent
				}
				sub = append(sub, x)
			}
			line := func(xs []string) string {
				var sb strings.Builder
				fmt.Fprintf(&sb, "C01 sortcls %s", sys)
				for _, x := range xs {
					sb.WriteString(" " + fw.Hx(x))
				}
				return sb.String()
			}
			i1, _ := c.Op(line(sub))
			perm := append([]string(nil), sub...)
			c.Rng.Shuffle(len(perm), func(i, j int) { perm[i], perm[j] = perm[j], perm[i] })
			i2, _ := c.Op(line(perm))
			c.Check("sortcls", i1, i2)
		}
		// history independence on a sample
		for t := 0; t < 40 && n > 0; t++ {
			i, j := c.Rng.Intn(n), c.Rng.Intn(n)
			c.Check("history", idx[i][j])
		}
	}
}

func dedup(xs []string) []string {
	seen := map[string]bool{}
	var out []string
	for _, x := range xs {
		if !seen[x] {
			seen[x] = true
			out = append(out, x)
		}
	}
	return out
}

// checkPool issues cmp ops for all ordered pairs of the pool and evaluates reflexivity,
// antisymmetry, transitivity and congruence over all pairs/triples; returns the op index matrix.
func checkPool(c *fw.Ctx, sys semver.System, pool []string, nontrivial bool) [][]int {
	n := len(pool)
	idx := make([][]int, n)
	m := make([][]int8, n)
	for i := 0; i < n; i++ {
		idx[i] = make([]int, n)
		m[i] = make([]int8, n)
		for j := 0; j < n; j++ {
			k, r := c.Op(cmpLine(sys, pool[i], pool[j]))
			idx[i][j] = k
			v, ok := parseRes(r)
			if !ok {
				v = 9 // forces the oracles to look at it
			}
			m[i][j] = int8(v)
			if nontrivial {
				c.Nontrivial(fmt.Sprintf("%s|%s|%s", sys, canonOf(sys, pool[i]), canonOf(sys, pool[j])))
			}
		}
	}
	// oracles on the matrix
	var checks int64
	for i := 0; i < n; i++ {
		if m[i][i] != 0 {
			c.Check("refl", idx[i][i])
		}
		for j := 0; j < n; j++ {
			if m[i][j] != -m[j][i] || m[i][j] == 9 {
				c.Check("antisym", idx[i][j], idx[j][i])
			}
			checks += 2
		}
	}
	for i := 0; i < n; i++ {
		for j := 0; j < n; j++ {
			ab := m[i][j]
			for k := 0; k < n; k++ {
				bc, ac := m[j][k], m[i][k]
				if ab <= 0 && bc <= 0 && (ac > 0 || ((ab < 0 || bc < 0) && ac == 0)) {
					c.Check("trans", idx[i][j], idx[j][k], idx[i][k])
				}
				if ab == 0 && ac != bc {
					c.Check("congr", idx[i][j], idx[i][k], idx[j][k])
				}
			}
		}
	}
	checks += int64(n) * int64(n) * int64(n) * 2
	c.Tally(checks)
	return idx
}

// respell produces another spelling that usually denotes an equal version.
func respell(c *fw.Ctx, sys semver.System, s string) string {
	switch c.Rng.Intn(4) {
	case 0:
		return strings.Replace(s, "1", "01", 1)
	case 1:
		if i := strings.IndexAny(s, "-+"); i > 0 {
			return s[:i] + ".0" + s[i:]
		}
		return s + ".0"
	case 2:
		return strings.ToUpper(s)
	default:
		return strings.TrimSuffix(s, ".0")
	}
}

func main() {
	fw.Main(&fw.Prop{
		ID:   "C01",
		Rule: "per system: pool of accepted version strings (small-scope exhaustive over a token alphabet + AST-generated with alternative spellings, Maven restricted to the DESIGN 6.4 shape) and all ordered pairs as cmp ops; oracles refl/antisym/trans/congr over ALL triples of the pool, build-metadata and history independence on samples; malformed stream for parse correspondence. Distinct non-trivial = distinct (system, canon a, canon b) pairs of accepted versions.",
		Exec: exec, Run: run, Recheck: recheck, Classify: classify,
		Gens: semvergen.Generators(),
	})
}
