package main

// Go-only probe (op line "C19 probe reparse ..."; the runner does not diff it
// against the Lean driver): the two observation points the property names,
// deptest.ParseString via schema.ParseResolve and versiontest.ParseString via
// schema.New.
//
//	probe reparse <depText> <verText> <depKey> <verKey> <value>
//
// A resolve-schema text whose edges carry the dependency type <depText> and a
// schema text whose versions carry <verText> (and whose imports carry
// <depText>) are parsed; what came back is dumped attribute by attribute; the
// caller then edits some of the returned sets (AddAttr/SetAttr of the given key
// and value) and the SAME texts are parsed again:
//
//	R=<first>&<second>    edge types of the two ParseResolve results
//	RU=<before>&<after>   an edge of the first graph the caller did not edit
//	S=<first>&<second>    version attributes and import types of the two schema.New results
//	SU=<before>&<after>   a version / an import of the first schema the caller did not edit
//
// Oracle parse-function: the two halves of every field are identical.

import (
	"fmt"
	"strings"

	"deps.dev/util/resolve"
	"deps.dev/util/resolve/dep"
	"deps.dev/util/resolve/schema"
	"deps.dev/util/resolve/version"

	"verifharness/fw"
)

func keyName(kind string, k int) string {
	if kind == "v" {
		return version.AttrKey(k).String()
	}
	return dep.AttrKey(k).String()
}

// schemaSafe: the text can stand in front of a '|' in both schema grammars.
func schemaSafe(s string) bool {
	return s != "" && !strings.ContainsAny(s, "|@#$\t\n\r") && !strings.Contains(s, ": ") && !strings.Contains(s, " ERROR") &&
		s[0] != ' ' && s[len(s)-1] != ' '
}

func deepDep(t dep.Type) string {
	return dumpReg(&dBox{t}) + ";t" + fw.Hx(t.String()) + ";r" + b01(t.IsRegular())
}

func deepVer(s version.AttrSet) string {
	return dumpReg(&vBox{s}) + ";t" + fw.Hx(s.String()) + ";r" + b01(s.Empty())
}

func dumpEdges(g *resolve.Graph) string {
	out := make([]string, len(g.Edges))
	for i, e := range g.Edges {
		out[i] = fmt.Sprintf("%d>%d:%s", e.From, e.To, deepDep(e.Type))
	}
	return "[" + strings.Join(out, "+") + "]"
}

func dumpSchemaVersion(v *schema.Version) string {
	out := make([]string, len(v.Requirements))
	for i, r := range v.Requirements {
		out[i] = fw.Hx(r.Name) + ":" + deepDep(r.Type)
	}
	return fw.Hx(v.Version) + "{" + deepVer(v.Attr) + "}(" + strings.Join(out, "+") + ")"
}

func dumpSchema(s *schema.Schema) string {
	var out []string
	for i := range s.Packages {
		for j := range s.Packages[i].Versions {
			out = append(out, dumpSchemaVersion(&s.Packages[i].Versions[j]))
		}
	}
	return "[" + strings.Join(out, "+") + "]"
}

func probeReparse(f []string) string {
	if len(f) != 7 || f[0] != "probe" || f[1] != "reparse" {
		return "bad-op"
	}
	dT, ok1 := unhex(f[2])
	vT, ok2 := unhex(f[3])
	dk, ok3 := atoi(f[4])
	vk, ok4 := atoi(f[5])
	val, ok5 := unhex(f[6])
	if !ok1 || !ok2 || !ok3 || !ok4 || !ok5 || dk < -128 || dk > 63 || vk < -128 || vk > 63 || !schemaSafe(dT) || !schemaSafe(vT) {
		return "bad-op"
	}

	// deptest.ParseString via schema.ParseResolve
	rtext := "a 1\n\t" + dT + "|b@1 1\n\t" + dT + "|c@1 2\n\t\t" + dT + "|d@1 3\n\tplain@1 4\n"
	R, RU := "err&err", "-&-"
	if g1, err := schema.ParseResolve(rtext, resolve.NPM); err == nil {
		first := dumpEdges(g1)
		if len(g1.Edges) >= 3 {
			before := deepDep(g1.Edges[2].Type)
			g1.Edges[0].Type.AddAttr(dep.AttrKey(dk), val)
			g1.Edges[1].Type.AddAttr(dep.AttrKey(dk), val+"2")
			g1.Edges[1].Type.AddAttr(dep.Dev, "")
			RU = before + "&" + deepDep(g1.Edges[2].Type)
		}
		second := "err"
		if g2, err := schema.ParseResolve(rtext, resolve.NPM); err == nil {
			second = dumpEdges(g2)
		}
		R = first + "&" + second
	}

	// versiontest.ParseString (and deptest.ParseString for the imports) via schema.New
	stext := "p\n\t" + vT + "|1.0\n\t\t" + dT + "|q@1\n\t\t" + dT + "|r@2\n\t" + vT + "|2.0\n\t\tq@3\n\t3.0\n\t\tATTR: " + keyName("v", 10) + " " + vT + "\n"
	S, SU := "err&err", "-&-"
	if s1, err := schema.New(stext, resolve.NPM); err == nil {
		first := dumpSchema(s1)
		if len(s1.Packages) == 1 && len(s1.Packages[0].Versions) >= 2 && len(s1.Packages[0].Versions[0].Requirements) == 2 {
			vs := s1.Packages[0].Versions
			before := dumpSchemaVersion(&vs[1]) + "/" + deepDep(vs[0].Requirements[1].Type)
			vs[0].Attr.SetAttr(version.AttrKey(vk), val)
			vs[0].Attr.SetAttr(version.Blocked, "")
			vs[0].Requirements[0].Type.AddAttr(dep.AttrKey(dk), val)
			SU = before + "&" + dumpSchemaVersion(&vs[1]) + "/" + deepDep(vs[0].Requirements[1].Type)
		}
		second := "err"
		if s2, err := schema.New(stext, resolve.NPM); err == nil {
			second = dumpSchema(s2)
		}
		S = first + "&" + second
	}
	return "ok R=" + R + " RU=" + RU + " S=" + S + " SU=" + SU
}

// auditProbe is oracle parse-function on a probe line.
func auditProbe(res string) []problem {
	if res == "bad-op" {
		return nil
	}
	f := strings.Fields(res)
	if len(f) != 5 || f[0] != "ok" {
		return []problem{{"parse-function", "probe reparse: " + res, ""}}
	}
	what := map[string]string{
		"R":  "the edge types of two schema.ParseResolve results of one text differ (the first result was edited in between)",
		"RU": "an edge type of a parsed graph changed although the caller edited other edges only",
		"S":  "the version attributes / import types of two schema.New results of one text differ (the first result was edited in between)",
		"SU": "a version / import of a parsed schema changed although the caller edited others only",
	}
	var probs []problem
	for _, x := range f[1:] {
		name, body, ok := strings.Cut(x, "=")
		halves := strings.Split(body, "&")
		if !ok || what[name] == "" || len(halves) != 2 {
			probs = append(probs, problem{"parse-function", "probe reparse: unreadable field " + x, ""})
			continue
		}
		if halves[0] != halves[1] {
			probs = append(probs, problem{"parse-function", what[name] + ": " + halves[0] + " vs " + halves[1], ""})
		}
	}
	return probs
}
