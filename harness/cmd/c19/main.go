// c19: attribute sets attached to dependencies and versions are values with a
// faithful text form (property C19). See machine.go for the op language.
package main

import (
	"fmt"
	"os"
	"sync"

	"verifharness/fw"
)

var (
	factsOnce sync.Once
	theFacts  *facts
)

// F returns the facts extracted from the source tree the harness was built against.
func F() *facts {
	factsOnce.Do(func() {
		repo := os.Getenv("VERIF_REPO")
		if repo == "" {
			repo = "/repo"
		}
		f, err := loadFacts(repo)
		if err != nil {
			fmt.Fprintln(os.Stderr, "c19: cannot extract key facts:", err)
			os.Exit(4)
		}
		theFacts = f
	})
	return theFacts
}

func recheck(oracle string, ops, res []string) (bool, string) {
	for i := range ops {
		for _, p := range audit(F(), ops[i], res[i]) {
			if p.oracle == oracle {
				return true, p.detail
			}
		}
	}
	return false, ""
}

// classify: the known-finding class, if every failing instance of the oracle on
// these lines falls in the same class (the negation of the hypothesis of the
// partial theorem: Props.C19.verTextOK / depTextOK).
func classify(oracle string, ops, res []string) string {
	class, n := "", 0
	for i := range ops {
		for _, p := range audit(F(), ops[i], res[i]) {
			if p.oracle != oracle {
				continue
			}
			if n > 0 && p.class != class {
				return ""
			}
			class = p.class
			n++
		}
	}
	return class
}

func main() {
	fw.Main(&fw.Prop{
		ID: "C19",
		Rule: "one op line = one whole sequence of new/set/flag/clone/compare/get/print/parse operations on up to 6 registers holding real " +
			"attr.Set (kind a), dep.Type (d) or version.AttrSet (v) values; keys from the declared constants plus undeclared and out-of-range ones; " +
			"values from an alphabet with empty, spaced, quoted, backslashed, control, non-ASCII and invalid UTF-8 strings; streams: exhaustive small scope " +
			"(all sequences up to a length over 2 registers, 2 keys, 2 values), random value sequences up to 60 ops ending in a comparison matrix and a dump, " +
			"text round trips (versiontest.String/ParseString, the deptest syntax writer/ParseString, ParseSingle), malformed parser inputs (token soup), " +
			"raw struct copies (correspondence only); reparse: a text (fresh to the process, or one of a handful parsed over and over) with at least one valued " +
			"attribute is parsed, the result is edited (a value it holds replaced, a key it lacks added, a flag added), and the same text is parsed again - " +
			"with clones taken before/after, several results alive, through the write+parse op, ParseSingle, and overwriting the register - every result of one " +
			"text must dump and compare identically (oracle parse-function); probe reparse (Go only): the same through schema.ParseResolve and schema.New. A case is distinct by its line and non-trivial when it executes without bad-op and makes at least one observation.",
		Exec: func(f []string) string {
			if len(f) > 0 && f[0] == "probe" {
				return probeReparse(f)
			}
			return runLine(F(), f)
		},
		Run:      run,
		Recheck:  recheck,
		Classify: classify,
		Gens: []fw.Generator{
			{Name: "C19AttrKeys", Fn: genAttrKeys},
			{Name: "C19Print", Fn: genPrint},
		},
	})
}
