package main

import (
	"fmt"
	"hash/fnv"
	"math/rand"
	"strconv"
	"strings"

	"verifharness/fw"
)

var fixedVals = []string{
	"", "a", "b", "ab", "1.0", ".NETStandard1.0", "peer", "a b", " a", "a ", "a  b", "  ", " ", "a b c",
	`"`, `a"b`, `"q"`, `" x`, `\`, `a\`, `a b\`, `a\ b`, `\"`, `\ "`, `a\\`, "'", "`", "a`b", "|", "a|b", "=", "{}", "a,b",
	"\t", "a\tb", "\n", "a\nb", "\r", "\v", "\f", "\a", "\b", "x\x00y", "\x7f", "\x1b",
	"\u00e9", "\u65e5\u672c", "\u00a0", "a\u00a0b", "\u0085", "\u1680", "\u2003", "\u2028", "\u3000", "a\u3000b", "\u200b", "\u00ad", "\ufffd", "\u212anownas",
	"\U0001F600", "\U000E0001", "\U0010FFFF",
	"\xff", "a\xffb", "\xc2", "\xc2 ", "\xe2\x80", "\xed\xa0\x80", "\xf4\x90\x80\x80", "\xc0\x80", "\x80", "\xe1\x9a", "a\xc2",
}

var pieceAlphabet = []string{" ", " ", `"`, `\`, "a", "b", "Z", "0", "\t", "\n", "\x00", "\x7f", "\x80", "\xc2", "\x85", "\xa0", "\xe2", "\xff", "\u00e9", "\u65e5", "\u00a0", "\u2003", "'", "`", "=", "|"}

func randVal(r *rand.Rand) string {
	switch x := r.Intn(10); {
	case x < 6:
		return fixedVals[r.Intn(len(fixedVals))]
	default:
		n := 1 + r.Intn(6)
		var sb strings.Builder
		for i := 0; i < n; i++ {
			sb.WriteString(pieceAlphabet[r.Intn(len(pieceAlphabet))])
		}
		return sb.String()
	}
}

// plainVal: a value that the text forms are expected to carry.
func plainVal(r *rand.Rand) string {
	plain := []string{"a", "b", "1.0", ".NETStandard1.0", "peer", `a"b`, `\`, `a\`, "\u00e9", "\u65e5\u672c", "a|b", "x=y", "\xff", "a\xc2", "\u200b", "'q'", "a`b", "{x}", "KK"}
	return plain[r.Intn(len(plain))]
}

// randKey picks a key for the kind: mostly declared, some undeclared, rarely beyond the limit.
func randKey(r *rand.Rand, Fx *facts, kind string, allowPanic bool) int {
	x := r.Intn(1000)
	switch kind {
	case "a":
		switch {
		case allowPanic && x < 2:
			return int(Fx.KeyLimit) + r.Intn(256-int(Fx.KeyLimit))
		case x < 100:
			return r.Intn(int(Fx.KeyLimit))
		default:
			return r.Intn(13)
		}
	default:
		kf := Fx.Dep
		if kind == "v" {
			kf = Fx.Ver
		}
		switch {
		case allowPanic && x < 2:
			return int(Fx.KeyLimit) + r.Intn(128-int(Fx.KeyLimit))
		case x < 40:
			return []int{-8, -16, -32, -64, -128, -127, -3, -5, -7, -100}[r.Intn(10)]
		case x < 80:
			return []int{0, 12, 13, 20, 31, 32, 33, 62, 63}[r.Intn(9)]
		default:
			return int(kf.AllKeys[r.Intn(len(kf.AllKeys))])
		}
	}
}

type emitter struct {
	c      *fw.Ctx
	F      *facts
	non    map[uint64]struct{}
	shrunk map[string]int
}

// safeRun executes a line on the real code without recording it.
func safeRun(F *facts, line string) (res string) {
	defer func() {
		if r := recover(); r != nil {
			res = "panic"
		}
	}()
	f := strings.Fields(line)
	if len(f) < 2 {
		return "bad-op"
	}
	return runLine(F, f[1:])
}

func hasUnclassified(probs []problem, oracle string) bool {
	for _, p := range probs {
		if p.oracle == oracle && p.class == "" {
			return true
		}
	}
	return false
}

// shrink deletes op tokens (then shortens hex payloads) while the oracle still
// fails outside every known-finding class. Delta debugging over the op list; every
// candidate is re-executed on the real code.
func (e *emitter) shrink(kind string, toks []string, oracle string) []string {
	fails := func(ts []string) bool {
		line := "C19 " + kind + " " + strings.Join(ts, " ")
		return hasUnclassified(audit(e.F, line, safeRun(e.F, line)), oracle)
	}
	cur := append([]string{}, toks...)
	for changed := true; changed; {
		changed = false
		for i := len(cur) - 1; i >= 0; i-- {
			cand := append(append([]string{}, cur[:i]...), cur[i+1:]...)
			if len(cand) > 0 && fails(cand) {
				cur, changed = cand, true
			}
		}
	}
	// shorten values: try the empty value and a one-letter value for every set op
	for i, t := range cur {
		f := strings.Split(t, ":")
		if (f[0] == "s" || f[0] == "qs") && len(f) == 4 {
			for _, v := range []string{"-", "61"} {
				if f[3] == v {
					break
				}
				cand := append([]string{}, cur...)
				cand[i] = strings.Join([]string{f[0], f[1], f[2], v}, ":")
				if fails(cand) {
					cur = cand
					break
				}
			}
		}
	}
	return cur
}

func (e *emitter) emit(stream, kind string, toks []string, oracles bool) {
	line := "C19 " + kind + " " + strings.Join(toks, " ")
	i, res := e.c.Op(line)
	e.c.Count("stream:" + stream)
	e.c.Count("kind:" + kind)
	switch {
	case res == "panic":
		e.c.Count("result:panic")
	case res == "bad-op":
		e.c.Count("result:bad-op")
	default:
		e.c.Count("result:ok")
		if strings.Contains(res, "=") {
			h := fnv.New64a()
			h.Write([]byte(line))
			e.non[h.Sum64()] = struct{}{}
		}
	}
	for _, o := range strings.Fields(res) {
		switch {
		case strings.HasPrefix(o, "p=") || strings.HasPrefix(o, "q="):
			e.c.Count("parse:" + o)
		case strings.HasPrefix(o, "rt="):
			p := strings.Split(o, ":")
			e.c.Count("roundtrip-" + kind + ":" + strings.Join(p[1:], ":"))
		case strings.HasPrefix(o, "qs="):
			e.c.Count("single:" + o[strings.LastIndex(o, ":")+1:])
		case strings.HasPrefix(o, "cl="):
			e.c.Count("inside-hypotheses-" + kind + ":" + o[3:])
		}
	}
	if e.c.Rng.Intn(4000) == 0 {
		e.c.Sample(line + " => " + res)
	}
	if !oracles {
		return
	}
	probs := audit(e.F, line, res)
	e.c.Tally(7)
	seen := map[string]bool{}
	for _, p := range probs {
		if seen[p.oracle] {
			continue
		}
		seen[p.oracle] = true
		// a failure outside the known classes is reported on a minimised sequence first
		if hasUnclassified(probs, p.oracle) && e.shrunk[p.oracle] < 12 {
			e.shrunk[p.oracle]++
			if small := e.shrink(kind, toks, p.oracle); len(small) < len(toks) {
				si, _ := e.c.Op("C19 " + kind + " " + strings.Join(small, " "))
				e.c.Count("stream:shrunk")
				e.c.Check(p.oracle, si)
			}
		}
		e.c.Check(p.oracle, i)
	}
}

func hexv(v string) string { return fw.Hx(v) }

// valueSeq: a random sequence of value operations.
func valueSeq(r *rand.Rand, Fx *facts, kind string, maxOps int, withCopy bool) []string {
	nreg := 1 + r.Intn(6)
	n := 1 + r.Intn(maxOps)
	if r.Intn(3) == 0 {
		n = 1 + r.Intn(8)
	}
	// small per-line pools make equal sets and overwritten keys frequent
	nk, nv := 1+r.Intn(4), 1+r.Intn(3)
	keys := make([]int, nk)
	for i := range keys {
		keys[i] = randKey(r, Fx, kind, false)
	}
	vals := make([]string, nv)
	for i := range vals {
		vals[i] = randVal(r)
	}
	key := func() int {
		if r.Intn(12) == 0 {
			return randKey(r, Fx, kind, true)
		}
		return keys[r.Intn(nk)]
	}
	val := func() string {
		if r.Intn(12) == 0 {
			return randVal(r)
		}
		return vals[r.Intn(nv)]
	}
	reg := func() int { return r.Intn(nreg) }
	var toks []string
	for i := 0; i < n; i++ {
		x := r.Intn(100)
		switch {
		case x < 38:
			toks = append(toks, fmt.Sprintf("s:%d:%d:%s", reg(), key(), hexv(val())))
		case x < 50:
			toks = append(toks, fmt.Sprintf("c:%d:%d", reg(), reg()))
		case x < 54:
			if withCopy {
				toks = append(toks, fmt.Sprintf("y:%d:%d", reg(), reg()))
			} else {
				toks = append(toks, fmt.Sprintf("n:%d", reg()))
			}
		case x < 58:
			if kind == "a" {
				toks = append(toks, fmt.Sprintf("m:%d:%d", reg(), []int{1, 2, 4, 8, 3, 128, 255, 0}[r.Intn(8)]))
			} else {
				toks = append(toks, fmt.Sprintf("s:%d:%d:%s", reg(), []int{-1, -2, -4}[r.Intn(3)], hexv(val())))
			}
		case x < 66:
			toks = append(toks, fmt.Sprintf("k:%d:%d", reg(), reg()))
		case x < 76:
			toks = append(toks, fmt.Sprintf("g:%d:%d", reg(), key()))
		case x < 80:
			toks = append(toks, fmt.Sprintf("r:%d", reg()))
		case x < 85:
			if kind != "d" {
				toks = append(toks, fmt.Sprintf("e:%d", reg()))
			} else {
				toks = append(toks, fmt.Sprintf("w:%d", reg()))
			}
		case x < 90:
			if kind != "a" {
				toks = append(toks, fmt.Sprintf("t:%d", reg()))
			} else {
				toks = append(toks, fmt.Sprintf("e:%d", reg()))
			}
		case x < 92:
			if kind == "v" {
				toks = append(toks, fmt.Sprintf("x:%d", reg()))
			} else {
				toks = append(toks, fmt.Sprintf("r:%d", reg()))
			}
		case x < 97:
			toks = append(toks, fmt.Sprintf("D:%d", nreg))
		default:
			toks = append(toks, fmt.Sprintf("K:%d", nreg))
		}
	}
	return append(toks, fmt.Sprintf("K:%d", nreg), fmt.Sprintf("D:%d", nreg))
}

// textSeq: build a set from (mostly) declared keys, then write and read it back.
func textSeq(r *rand.Rand, Fx *facts, kind string) []string {
	kf := Fx.Dep
	if kind == "v" {
		kf = Fx.Ver
	}
	var toks []string
	n := r.Intn(5)
	mode := r.Intn(4) // 0: anything, 1: plain values only, 2: at most one odd value, 3: anything
	for i := 0; i < n; i++ {
		k := int(kf.AllKeys[r.Intn(len(kf.AllKeys))])
		if r.Intn(60) == 0 {
			k = randKey(r, Fx, kind, false)
		}
		v := randVal(r)
		if mode == 1 || (mode == 2 && i > 0) {
			v = plainVal(r)
		}
		if isIn(kf.FlagKeys, int64(k)) && r.Intn(20) != 0 {
			v = ""
		}
		toks = append(toks, fmt.Sprintf("s:0:%d:%s", k, hexv(v)))
	}
	if r.Intn(5) == 0 {
		toks = append(toks, "c:0:2", "t:0")
	}
	toks = append(toks, "cl:0")
	if kind == "v" {
		toks = append(toks, "x:0")
	} else {
		toks = append(toks, "w:0")
	}
	toks = append(toks, "rt:0:1", "k:0:1", "D:2")
	return toks
}

func soup(r *rand.Rand, Fx *facts, kind string) string {
	kf := Fx.Dep
	if kind == "v" {
		kf = Fx.Ver
	}
	name := func() string {
		s := kf.Strs[r.Intn(len(kf.Strs))]
		switch r.Intn(6) {
		case 0:
			s = strings.ToLower(s)
		case 1:
			s = strings.ToUpper(s)
		case 2:
			s = strings.Replace(s, "K", "\u212a", 1)
			s = strings.Replace(s, "k", "\u212a", 1)
		case 3:
			s = strings.Replace(s, "I", "\u0130", 1)
			s = strings.Replace(s, "i", "\u0130", 1)
		}
		return s
	}
	seps := []string{" ", " ", " ", " ", "  ", "\t", "\n", "\u0085", "\u3000", "\u00a0", "", " \t "}
	n := r.Intn(7)
	var sb strings.Builder
	if r.Intn(5) == 0 {
		sb.WriteString(seps[r.Intn(len(seps))])
	}
	for i := 0; i < n; i++ {
		switch x := r.Intn(20); {
		case x < 8:
			sb.WriteString(name())
		case x < 12:
			sb.WriteString(randVal(r))
		case x < 15:
			sb.WriteString(strconv.Quote(randVal(r)))
		case x < 16:
			sb.WriteString("`" + randVal(r) + "`")
		case x < 17:
			sb.WriteString([]string{`"`, `"abc`, `abc"`, `"a\"`, `"\x"`, `"\xg1"`, `"\u00e9"`, `"\ud800"`, `"\U00110000"`, `"\400"`, `"\101"`, `"\18"`, `"\'"`, `'a'`, `"a"b"`, `"\`, `""`, `"\q"`, `"a` + "\n" + `b"`, `"\U0001F600"`, `"\x41B"`}[r.Intn(21)])
		case x < 18:
			sb.WriteString("attrkey(12)")
		default:
			sb.WriteString([]string{"reg", "opt|dev", "x", "Bundle", "="}[r.Intn(5)])
		}
		sb.WriteString(seps[r.Intn(len(seps))])
	}
	return sb.String()
}

// exhaustive: every sequence of at most maxLen tokens from the alphabet.
func exhaustive(alpha []string, maxLen int, f func([]string)) {
	var rec func(prefix []string)
	rec = func(prefix []string) {
		f(prefix)
		if len(prefix) == maxLen {
			return
		}
		for _, a := range alpha {
			rec(append(prefix[:len(prefix):len(prefix)], a))
		}
	}
	rec(nil)
}

func run(c *fw.Ctx) {
	Fx := F()
	e := &emitter{c: c, F: Fx, non: map[uint64]struct{}{}, shrunk: map[string]int{}}
	r := c.Rng

	// 1. small-scope exhaustive streams (two registers, two keys, two values)
	for _, kind := range []string{"a", "d", "v"} {
		alpha := []string{"n:0", "s:0:1:-", "s:0:1:61", "s:0:2:61", "s:1:1:61", "s:1:2:-", "c:0:1", "c:1:0"}
		if kind == "a" {
			alpha = append(alpha, "m:0:1", "m:1:1")
		} else {
			alpha = append(alpha, "s:0:-1:-", "s:1:-1:61")
		}
		exhaustive(alpha, c.N(3, 4), func(p []string) {
			e.emit("exhaustive", kind, append(append([]string{}, p...), "K:2", "D:2"), true)
		})
		// with the raw struct copy (correspondence only)
		alphaY := append(append([]string{}, alpha[:6]...), "y:0:1", "y:1:0", "c:0:1")
		exhaustive(alphaY, c.N(3, 4), func(p []string) {
			has := false
			for _, t := range p {
				has = has || strings.HasPrefix(t, "y:")
			}
			if has {
				e.emit("exhaustive-rawcopy", kind, append(append([]string{}, p...), "D:2", "K:2"), false)
			}
		})
	}

	// 2. random value sequences
	nSeq := c.N(20000, 600000)
	for i := 0; i < nSeq; i++ {
		kind := []string{"a", "d", "v"}[r.Intn(3)]
		e.emit("value", kind, valueSeq(r, Fx, kind, 60, false), true)
	}
	// 3. raw struct copies: correspondence of the heap model only
	for i := 0; i < c.N(3000, 60000); i++ {
		kind := []string{"a", "d", "v"}[r.Intn(3)]
		e.emit("rawcopy", kind, valueSeq(r, Fx, kind, 30, true), false)
	}
	// 4. text round trips
	for i := 0; i < c.N(12000, 250000); i++ {
		kind := []string{"d", "v"}[r.Intn(2)]
		e.emit("text", kind, textSeq(r, Fx, kind), true)
	}
	// 5. single-attribute form
	for i := 0; i < c.N(3000, 50000); i++ {
		k := randKey(r, Fx, "v", false)
		e.emit("single", "v", []string{fmt.Sprintf("qs:0:%d:%s", k, hexv(randVal(r))), "D:1"}, true)
	}
	// 6. malformed parser inputs
	for i := 0; i < c.N(8000, 150000); i++ {
		kind := []string{"d", "v", "v"}[r.Intn(3)]
		op := "p"
		if kind == "v" && r.Intn(2) == 0 {
			op = "q"
		}
		e.emit("soup", kind, []string{fmt.Sprintf("%s:0:%s", op, hexv(soup(r, Fx, kind))), "D:1", "t:0"}, true)
	}
	// 7. parse, change the result, parse the same text again
	pool := map[string][]parseText{}
	for _, kind := range []string{"d", "v"} {
		for i := 0; i < 5; i++ {
			pool[kind] = append(pool[kind], mkParseText(r, Fx, kind, ""))
		}
	}
	for i := 0; i < c.N(6000, 120000); i++ {
		kind := []string{"d", "d", "v"}[r.Intn(3)]
		var pt parseText
		if r.Intn(3) == 0 {
			pt = pool[kind][r.Intn(len(pool[kind]))] // a handful of texts parsed over and over
		} else {
			pt = mkParseText(r, Fx, kind, fmt.Sprintf("u%dx%d", c.Seed, i)) // a text this process has not parsed yet
		}
		e.emit("reparse", kind, reparseSeq(r, Fx, kind, pt, pool[kind]), true)
	}
	// the same through the schema package (Go only)
	for i := 0; i < c.N(1500, 30000); i++ {
		var dt, vt parseText
		if r.Intn(4) == 0 {
			dt, vt = pool["d"][r.Intn(5)], pool["v"][r.Intn(5)]
		} else {
			dt = mkParseText(r, Fx, "d", fmt.Sprintf("s%dx%d", c.Seed, i))
			vt = mkParseText(r, Fx, "v", fmt.Sprintf("s%dx%d", c.Seed, i))
		}
		if !schemaSafe(dt.text) || !schemaSafe(vt.text) {
			continue
		}
		dk, vk := dt.editKey(r), vt.editKey(r)
		idx, res := c.Opf("C19 probe reparse %s %s %d %d %s", hexv(dt.text), hexv(vt.text), dk, vk, hexv(plainVal(r)+"!"))
		c.Count("stream:schema-reparse")
		if strings.Contains(res, "err") {
			c.Count("schema-reparse:some-parse-failed")
		}
		c.Check("parse-function", idx)
	}
	c.Note(fmt.Sprintf("distinct non-trivial lines (hash count): %d", len(e.non)))
	for h := range e.non {
		c.Nontrivial(strconv.FormatUint(h, 16))
	}
}

// parseText is a text of the deptest / versiontest syntax together with the
// valued keys it holds and some it does not.
type parseText struct {
	text    string
	present []int // valued keys in the text
	absent  []int // valued keys not in the text
	flags   []int // flag keys not in the text
}

// editKey: a valued key to set on a parse result (replacing or adding).
func (p parseText) editKey(r *rand.Rand) int {
	if len(p.present) > 0 && (len(p.absent) == 0 || r.Intn(2) == 0) {
		return p.present[r.Intn(len(p.present))]
	}
	if len(p.absent) > 0 {
		return p.absent[r.Intn(len(p.absent))]
	}
	return 3
}

// mkParseText writes a well-formed text with at least one valued attribute
// (mostly): keys in allKeys order, names in the case the parser's dictionary
// accepts, values free of white space (one quoted value last for deptest);
// uniq makes the text one that has not been parsed before.
func mkParseText(r *rand.Rand, Fx *facts, kind, uniq string) parseText {
	kf := Fx.Dep
	if kind == "v" {
		kf = Fx.Ver
	}
	var pt parseText
	var items []string
	nValued := 0
	want := 1 + r.Intn(3)
	if r.Intn(25) == 0 {
		want = 0 // flags only: the nil-map case
	}
	for _, k := range kf.AllKeys {
		isFlag := isIn(kf.FlagKeys, k)
		name := keyName(kind, int(k))
		if r.Intn(3) == 0 {
			name = strings.ToLower(name)
		}
		switch {
		case isFlag && r.Intn(4) == 0:
			items = append(items, name)
		case isFlag:
			pt.flags = append(pt.flags, int(k))
		case nValued < want && r.Intn(3) != 0:
			nValued++
			v := plainVal(r) + uniq
			items = append(items, name, v)
			pt.present = append(pt.present, int(k))
		default:
			pt.absent = append(pt.absent, int(k))
		}
	}
	if nValued < want && len(pt.absent) > 0 { // make sure of one valued attribute
		k := pt.absent[len(pt.absent)-1]
		pt.absent = pt.absent[:len(pt.absent)-1]
		pt.present = append(pt.present, k)
		v := "last" + uniq
		if kind == "d" && r.Intn(3) == 0 {
			v = strconv.Quote("c19 " + uniq + " runtime") // a quoted value, written last
		}
		items = append(items, keyName(kind, k), v)
	}
	sep := " "
	if r.Intn(10) == 0 {
		sep = "  "
	}
	pt.text = strings.Join(items, sep)
	return pt
}

// reparseSeq: parse a text, change what came back (replace the value of a key
// the text holds, add a key it does not hold, add a flag), parse the same text
// again; with clones taken before and after, with several results alive, through
// the round-trip op and the single-attribute form. Every parse is followed by a
// dump, the line ends in a dump and a comparison matrix.
func reparseSeq(r *rand.Rand, Fx *facts, kind string, pt parseText, pool []parseText) []string {
	T := hexv(pt.text)
	val := func() string { return hexv(plainVal(r) + []string{"", "'", "2"}[r.Intn(3)]) }
	edit := func(reg int) []string {
		var out []string
		for n := 1 + r.Intn(3); n > 0; n-- {
			switch x := r.Intn(10); {
			case x < 4 && len(pt.present) > 0:
				out = append(out, fmt.Sprintf("s:%d:%d:%s", reg, pt.present[r.Intn(len(pt.present))], val()))
			case x < 8 && len(pt.absent) > 0:
				out = append(out, fmt.Sprintf("s:%d:%d:%s", reg, pt.absent[r.Intn(len(pt.absent))], val()))
			case len(pt.flags) > 0:
				out = append(out, fmt.Sprintf("s:%d:%d:-", reg, pt.flags[r.Intn(len(pt.flags))]))
			default:
				out = append(out, fmt.Sprintf("s:%d:%d:%s", reg, pt.editKey(r), val()))
			}
		}
		return out
	}
	p := func(reg int) string { return fmt.Sprintf("p:%d:%s", reg, T) }
	var toks []string
	add := func(ts ...string) { toks = append(toks, ts...) }
	probe := func(reg int) {
		if k := pt.editKey(r); r.Intn(2) == 0 {
			add(fmt.Sprintf("g:%d:%d", reg, k))
		}
		if r.Intn(3) == 0 {
			add(fmt.Sprintf("t:%d", reg))
		}
	}
	switch shape := r.Intn(8); shape {
	case 0: // parse, edit, parse
		add(p(0), "D:1")
		add(edit(0)...)
		add(p(1), "D:2")
		probe(1)
	case 1: // clone kept aside before the edit
		add(p(0), "c:0:2", "D:3")
		add(edit(0)...)
		add(p(1), "D:3")
		probe(1)
	case 2: // the clone is edited, then the original
		add(p(0), "c:0:1")
		add(edit(1)...)
		add(p(2), "D:3")
		add(edit(0)...)
		add(p(3), "D:4")
		probe(3)
	case 3: // several results alive, later ones edited
		add(p(0), p(1), p(2), "D:3")
		add(edit(1)...)
		add(edit(2)...)
		add("D:3", p(3), "D:4")
		add(edit(0)...)
		add(p(4), "D:5")
	case 4: // through write + parse: build the set, round-trip, edit the copy, round-trip again
		add(p(0), "D:1", "rt:0:1")
		add(edit(1)...)
		add("rt:0:2", "k:0:2", "D:3", p(3), "D:4")
	case 5: // overwrite the register itself by the second parse
		add(p(0), "D:1")
		add(edit(0)...)
		add("D:1", p(0), "D:1", "c:0:1")
		add(edit(0)...)
		add(p(2), "D:3")
	case 6: // single-attribute form (versiontest.ParseSingle); for deptest: two texts interleaved
		if kind == "v" && len(pt.present) > 0 {
			k := pt.present[0]
			v := val()
			add(fmt.Sprintf("qs:0:%d:%s", k, v), "D:1")
			add(edit(0)...)
			add(fmt.Sprintf("s:0:%d:%s", k, val()), fmt.Sprintf("qs:1:%d:%s", k, v), "D:2")
			q := hexv(strings.ToLower(keyName(kind, k)) + " " + pt.text)
			add("q:2:"+q, "D:3", fmt.Sprintf("s:2:%d:%s", k, val()), "q:3:"+q, "D:4")
		} else {
			o := pool[r.Intn(len(pool))]
			add(p(0), "p:1:"+hexv(o.text), "D:2")
			add(edit(0)...)
			add(edit(1)...)
			add(p(2), "p:3:"+hexv(o.text), "D:4")
		}
	default: // random walk over 4 registers and the text (plus one pool text)
		o := hexv(pool[r.Intn(len(pool))].text)
		add(p(0), "D:1")
		for n := 4 + r.Intn(12); n > 0; n-- {
			reg := r.Intn(4)
			switch x := r.Intn(10); {
			case x < 3:
				add(p(reg), "D:4")
			case x < 4:
				add(fmt.Sprintf("p:%d:%s", reg, o), "D:4")
			case x < 7:
				add(edit(reg)...)
			case x < 9:
				add(fmt.Sprintf("c:%d:%d", reg, r.Intn(4)))
			default:
				add(fmt.Sprintf("n:%d", reg))
			}
		}
		add(p(4), p(5), "D:6")
	}
	n := 0
	for _, t := range toks {
		f := strings.Split(t, ":")
		if tg := target(f); tg >= n {
			n = tg + 1
		}
	}
	return append(toks, fmt.Sprintf("D:%d", n), fmt.Sprintf("K:%d", n))
}
