package main

// Facts extracted from /repo's source tree (go/packages, typed syntax) and from
// the Go toolchain's tables. Used twice: by the translator generators
// (Gen/C19AttrKeys.lean, Gen/C19Print.lean) and by the harness's own writer of
// the deptest schema syntax and its classifiers, so that both sides of the
// correspondence are parameterised by the same extracted data.

//
// Nothing is looked up by the name of an unexported identifier or by the shape of a
// literal or statement. Values are taken from the linked code (the harness binary is
// rebuilt from the tree under test with the build tag `verif`): the key tables of the test
// helpers (deptest / versiontest allKeys and flagKeys, however they are built: literal,
// init(), helper) through the hooks verifx.DepTestKeys / verifx.VersionTestKeys
// (/repo fdda9ea; util/resolve/verifx/x.go over VerifKeys() in the two internal packages;
// add-only, build tag verif; they copy the packages' own tables and are part of the trusted
// base), the key limit of SetAttr by calling it, the String() texts by calling them.
// From the type-checked source, by role: the exported AttrKey constants, the bitset field
// of attr.Set (by its type), the mask length (the bound of the bit-index loop, else the
// package's only other integer constant, else the width of attr.Mask). Exported names
// (AttrKey, Set, Mask, the key constants) are API.

import (
	"fmt"
	"go/ast"
	"go/constant"
	"go/token"
	"go/types"
	"path/filepath"
	"sort"
	"strconv"
	"strings"
	"unicode"
	"unicode/utf8"

	"deps.dev/util/resolve/dep"
	"deps.dev/util/resolve/verifx"
	"deps.dev/util/resolve/version"
	"golang.org/x/tools/go/packages"
	"verifharness/fw"
)

type keyFacts struct {
	Names    []string // constant names, source order
	Vals     []int64  // their values
	Strs     []string // String() of each constant (linked code, cross-checked with the stringer tables in source)
	MaskLen  int64
	AllKeys  []int64 // <pkg>test.allKeys, in order
	FlagKeys []int64 // <pkg>test.flagKeys, sorted
}

type facts struct {
	Dep, Ver     keyFacts
	KeyLimit     int64 // attr.Set.SetAttr: `if key >= N`
	AttrBitsBits int64 // width of attr.Set.attrBits
	MaskBits     int64 // width of attr.Mask
}

// attrKeyType reports whether t is the exported named type AttrKey of some package.
func attrKeyType(t types.Type) bool {
	nt, ok := t.(*types.Named)
	return ok && nt.Obj().Name() == "AttrKey" && nt.Obj().Exported()
}

// maskLenOf finds how many mask bits the package uses: the constant bound of its
// bit-index loop (`for …; bit < N; …` where bit is a shift count), else the package's only
// integer constant that is not an AttrKey, else -1 (the package states no bound of its own).
func maskLenOf(p *packages.Package) (int64, error) {
	loop := map[int64]bool{}
	for _, f := range p.Syntax {
		ast.Inspect(f, func(n ast.Node) bool {
			fs, ok := n.(*ast.ForStmt)
			if !ok || fs.Cond == nil {
				return true
			}
			var leaf func(e ast.Expr)
			leaf = func(e ast.Expr) {
				b, ok := ast.Unparen(e).(*ast.BinaryExpr)
				if !ok {
					return
				}
				var idx ast.Expr
				var bound ast.Expr
				switch b.Op {
				case token.LAND:
					leaf(b.X)
					leaf(b.Y)
					return
				case token.LSS:
					idx, bound = b.X, b.Y
				case token.GTR:
					idx, bound = b.Y, b.X
				default:
					return
				}
				v, ok := fw.EvalInt(p, bound)
				id, ok2 := ast.Unparen(idx).(*ast.Ident)
				if !ok || !ok2 {
					return
				}
				o := p.TypesInfo.Uses[id]
				isShiftCount := false
				ast.Inspect(fs, func(m ast.Node) bool {
					if sh, ok := m.(*ast.BinaryExpr); ok && (sh.Op == token.SHL || sh.Op == token.SHR) {
						if c, ok := ast.Unparen(sh.Y).(*ast.Ident); ok && o != nil && p.TypesInfo.Uses[c] == o {
							isShiftCount = true
						}
					}
					return true
				})
				if isShiftCount {
					loop[v] = true
				}
			}
			leaf(fs.Cond)
			return true
		})
	}
	if len(loop) == 1 {
		for v := range loop {
			return v, nil
		}
	}
	if len(loop) > 1 {
		return 0, fmt.Errorf("%s: bit-index loops with different bounds", p.PkgPath)
	}
	var others []int64
	for _, n := range p.Types.Scope().Names() {
		c, ok := p.Types.Scope().Lookup(n).(*types.Const)
		if !ok || attrKeyType(c.Type()) {
			continue
		}
		if b, ok := c.Type().Underlying().(*types.Basic); !ok || b.Info()&types.IsInteger == 0 {
			continue
		}
		if v, ok := constant.Int64Val(constant.ToInt(c.Val())); ok {
			others = append(others, v)
		}
	}
	if len(others) == 1 {
		return others[0], nil
	}
	if len(others) > 1 {
		return 0, fmt.Errorf("%s: several integer constants besides the AttrKey values, cannot tell the mask length", p.PkgPath)
	}
	return -1, nil
}

func stringerConcat(p *packages.Package) string {
	var names []string
	for _, n := range p.Types.Scope().Names() {
		if strings.HasPrefix(n, "_AttrKey_name_") {
			names = append(names, n)
		}
	}
	sort.Strings(names)
	var sb strings.Builder
	for _, n := range names {
		if c, ok := p.Types.Scope().Lookup(n).(*types.Const); ok {
			s, _ := strconv.Unquote(c.Val().ExactString())
			sb.WriteString(s)
			sb.WriteByte(0)
		}
	}
	return sb.String()
}

func loadKeyFacts(repo, pkgDir string, str func(int64) string, testKeys func() (all []int64, flags map[int64]bool)) (keyFacts, error) {
	var kf keyFacts
	p, err := fw.LoadPkg(filepath.Join(repo, pkgDir))
	if err != nil {
		return kf, err
	}
	kf.Names, kf.Vals = fw.ConstsOfType(p, "AttrKey")
	if len(kf.Names) == 0 {
		return kf, fmt.Errorf("%s: no AttrKey constants", pkgDir)
	}
	if kf.MaskLen, err = maskLenOf(p); err != nil {
		return kf, err
	}
	tables := stringerConcat(p)
	for i, v := range kf.Vals {
		if v < -128 || v > 127 {
			return kf, fmt.Errorf("%s.%s out of int8", pkgDir, kf.Names[i])
		}
		s := str(v)
		// where the source tree has generated stringer tables, the linked String() must agree
		// with them (a hand-written String method has none: the linked code is the truth)
		if tables != "" && !strings.Contains(tables, s) {
			return kf, fmt.Errorf("%s: String() of %s = %q not found in the _AttrKey_name_ tables", pkgDir, kf.Names[i], s)
		}
		kf.Strs = append(kf.Strs, s)
	}
	// the test helper's tables, as the linked code holds them: all keys in table order,
	// flag keys = the keys mapped to true
	all, flags := testKeys()
	kf.AllKeys = all
	for k, isFlag := range flags {
		if isFlag {
			kf.FlagKeys = append(kf.FlagKeys, k)
		}
	}
	sort.Slice(kf.FlagKeys, func(i, j int) bool { return kf.FlagKeys[i] < kf.FlagKeys[j] })
	return kf, nil
}

// attrFacts reads the key limit of SetAttr and the field widths of attr.Set.
func attrFacts(repo string, f *facts) error {
	p, err := fw.LoadPkg(filepath.Join(repo, "util/resolve/internal/attr"))
	if err != nil {
		return err
	}
	width := func(t types.Type) int64 {
		b, ok := t.Underlying().(*types.Basic)
		if !ok {
			return 0
		}
		switch b.Kind() {
		case types.Uint8:
			return 8
		case types.Uint16:
			return 16
		case types.Uint32:
			return 32
		case types.Uint64:
			return 64
		}
		return 0
	}
	set, ok := p.Types.Scope().Lookup("Set").(*types.TypeName)
	if !ok {
		return fmt.Errorf("attr.Set not found")
	}
	st, ok := set.Type().Underlying().(*types.Struct)
	if !ok {
		return fmt.Errorf("attr.Set is not a struct")
	}
	// Mask: the field of the exported type attr.Mask; the bitset: the only field that is a
	// plain unsigned integer.
	nBits := 0
	for i := 0; i < st.NumFields(); i++ {
		fld := st.Field(i)
		if nt, ok := fld.Type().(*types.Named); ok {
			if nt.Obj().Pkg() == p.Types && nt.Obj().Name() == "Mask" {
				f.MaskBits = width(nt)
			}
			continue
		}
		if w := width(fld.Type()); w != 0 {
			f.AttrBitsBits = w
			nBits++
		}
	}
	if f.AttrBitsBits == 0 || f.MaskBits == 0 || nBits != 1 {
		return fmt.Errorf("attr.Set: expected one Mask field and one plain unsigned integer field (the bitset), found %d of the latter", nBits)
	}
	// the key limit: SetAttr of the linked code panics exactly from it on
	panics := func(k int) (p bool) {
		defer func() {
			if recover() != nil {
				p = true
			}
		}()
		var s verifx.AttrSet
		s.SetAttr(uint8(k), "")
		return false
	}
	f.KeyLimit = 256
	for k := 0; k < 256; k++ {
		if panics(k) {
			f.KeyLimit = int64(k)
			break
		}
	}
	for k := int(f.KeyLimit); k < 256; k++ {
		if !panics(k) {
			return fmt.Errorf("attr.Set.SetAttr panics for key %d but not for %d: not a key limit", f.KeyLimit, k)
		}
	}
	return nil
}

func loadFacts(repo string) (*facts, error) {
	var f facts
	var err error
	if f.Dep, err = loadKeyFacts(repo, "util/resolve/dep",
		func(v int64) string { return dep.AttrKey(v).String() },
		func() ([]int64, map[int64]bool) {
			all, flags := verifx.DepTestKeys()
			a, fl := make([]int64, len(all)), map[int64]bool{}
			for i, k := range all {
				a[i] = int64(k)
			}
			for k, v := range flags {
				fl[int64(k)] = v
			}
			return a, fl
		}); err != nil {
		return nil, err
	}
	if f.Ver, err = loadKeyFacts(repo, "util/resolve/version",
		func(v int64) string { return version.AttrKey(v).String() },
		func() ([]int64, map[int64]bool) {
			all, flags := verifx.VersionTestKeys()
			a, fl := make([]int64, len(all)), map[int64]bool{}
			for i, k := range all {
				a[i] = int64(k)
			}
			for k, v := range flags {
				fl[int64(k)] = v
			}
			return a, fl
		}); err != nil {
		return nil, err
	}
	if err = attrFacts(repo, &f); err != nil {
		return nil, err
	}
	// a package that states no mask length of its own is bounded by the width of attr.Mask
	if f.Dep.MaskLen < 0 {
		f.Dep.MaskLen = f.MaskBits
	}
	if f.Ver.MaskLen < 0 {
		f.Ver.MaskLen = f.MaskBits
	}
	return &f, nil
}

func leanIntList(xs []int64) string {
	parts := make([]string, len(xs))
	for i, x := range xs {
		parts[i] = fmt.Sprint(x)
	}
	return "[" + strings.Join(parts, ", ") + "]"
}

func genKeyFacts(b *strings.Builder, pfx string, kf keyFacts) {
	fmt.Fprintf(b, "/-- `%s.AttrKey` constants in source order (name, value). -/\n", pfx)
	fmt.Fprintf(b, "def %sConsts : List (String × Int) := [", pfx)
	for i := range kf.Names {
		if i > 0 {
			b.WriteString(", ")
		}
		fmt.Fprintf(b, "(%s, %d)", fw.LeanStr(kf.Names[i]), kf.Vals[i])
	}
	b.WriteString("]\n")
	fmt.Fprintf(b, "/-- `String()` of each constant (stringer tables), as bytes. -/\n")
	fmt.Fprintf(b, "def %sNames : List (Int × List UInt8) := [", pfx)
	for i := range kf.Names {
		if i > 0 {
			b.WriteString(",\n  ")
		}
		fmt.Fprintf(b, "(%d, %s)", kf.Vals[i], fw.LeanBytes(kf.Strs[i]))
	}
	b.WriteString("]\n")
	fmt.Fprintf(b, "def %sMaskLen : Nat := %d\n", pfx, kf.MaskLen)
	fmt.Fprintf(b, "/-- `%stest.allKeys`, in order. -/\n", pfx)
	fmt.Fprintf(b, "def %sAllKeys : List Int := %s\n", pfx, leanIntList(kf.AllKeys))
	fmt.Fprintf(b, "/-- `%stest.flagKeys` (keys mapped to true), sorted. -/\n", pfx)
	fmt.Fprintf(b, "def %sFlagKeys : List Int := %s\n\n", pfx, leanIntList(kf.FlagKeys))
}

func genAttrKeys(repo string) (string, error) {
	f, err := loadFacts(repo)
	if err != nil {
		return "", err
	}
	var b strings.Builder
	b.WriteString("-- Source: util/resolve/{dep,version}/{key,stringer}.go, util/resolve/internal/{attr/set.go,deptest,versiontest}.\n")
	b.WriteString("namespace DepsDev.Gen.C19AttrKeys\n\n")
	genKeyFacts(&b, "dep", f.Dep)
	genKeyFacts(&b, "version", f.Ver)
	fmt.Fprintf(&b, "/-- `attr.Set.SetAttr` panics for `key >= setAttrKeyLimit`. -/\ndef setAttrKeyLimit : Nat := %d\n", f.KeyLimit)
	fmt.Fprintf(&b, "/-- bit width of `attr.Set.attrBits`. -/\ndef attrBitsWidth : Nat := %d\n", f.AttrBitsBits)
	fmt.Fprintf(&b, "/-- bit width of `attr.Mask`. -/\ndef maskWidth : Nat := %d\n", f.MaskBits)
	b.WriteString("\nend DepsDev.Gen.C19AttrKeys\n")
	return b.String(), nil
}

// genPrint emits the tables of the Go toolchain the text functions depend on:
// strconv.IsPrint for runes >= 0x80 (as ranges), the UTF-8 encodings of the
// runes with unicode.IsSpace, and the non-ASCII runes that unicode.ToLower maps
// into ASCII.
func genPrint(repo string) (string, error) {
	var b strings.Builder
	b.WriteString("-- Source: the Go toolchain's strconv.IsPrint, unicode.IsSpace, unicode.ToLower (evaluated on every rune).\n")
	b.WriteString("namespace DepsDev.Gen.C19Print\n\n")
	b.WriteString("/-- maximal ranges [lo, hi] of runes >= 0x80 with strconv.IsPrint. -/\ndef printRanges : List (Nat × Nat) := [")
	first := true
	lo := rune(-1)
	n := 0
	flush := func(hi rune) {
		if lo < 0 {
			return
		}
		if !first {
			b.WriteString(",")
			if n%8 == 0 {
				b.WriteString("\n  ")
			} else {
				b.WriteString(" ")
			}
		}
		first = false
		n++
		fmt.Fprintf(&b, "(%d, %d)", lo, hi)
		lo = -1
	}
	for r := rune(0x80); r <= unicode.MaxRune; r++ {
		if strconv.IsPrint(r) {
			if lo < 0 {
				lo = r
			}
		} else {
			flush(r - 1)
		}
	}
	flush(unicode.MaxRune)
	b.WriteString("]\n\n")
	b.WriteString("/-- UTF-8 encodings of every rune with unicode.IsSpace, ascending. -/\ndef spacePatterns : List (List UInt8) := [")
	first = true
	for r := rune(0); r <= unicode.MaxRune; r++ {
		if unicode.IsSpace(r) {
			if !first {
				b.WriteString(", ")
			}
			first = false
			b.WriteString(fw.LeanBytes(string(utf8.AppendRune(nil, r))))
		}
	}
	b.WriteString("]\n\n")
	b.WriteString("/-- runes >= 0x80 whose unicode.ToLower is ASCII: (rune, lower). -/\ndef lowerToAscii : List (Nat × Nat) := [")
	first = true
	for r := rune(0x80); r <= unicode.MaxRune; r++ {
		if l := unicode.ToLower(r); l < 0x80 {
			if !first {
				b.WriteString(", ")
			}
			first = false
			fmt.Fprintf(&b, "(%d, %d)", r, l)
		}
	}
	b.WriteString("]\n\nend DepsDev.Gen.C19Print\n")
	return b.String(), nil
}
