package main

// Facts extracted from /repo's source tree (go/packages, typed syntax) and from
// the Go toolchain's tables. Used twice: by the translator generators
// (Gen/C19AttrKeys.lean, Gen/C19Print.lean) and by the harness's own writer of
// the deptest schema syntax and its classifiers, so that both sides of the
// correspondence are parameterised by the same extracted data.

import (
	"fmt"
	"go/ast"
	"go/token"
	"go/types"
	"path/filepath"
	"sort"
	"strconv"
	"strings"
	"unicode"
	"unicode/utf8"

	"deps.dev/util/resolve/dep"
	"deps.dev/util/resolve/version"
	"golang.org/x/tools/go/packages"
	"verifharness/fw"
)

type keyFacts struct {
	Names    []string // constant names, source order
	Vals     []int64  // their values
	Strs     []string // String() of each constant (linked code, cross-checked with the stringer tables in source)
	MaskLen  int64
	AllKeys  []int64 // <pkg>test.allKeys, in order
	FlagKeys []int64 // <pkg>test.flagKeys, sorted
}

type facts struct {
	Dep, Ver     keyFacts
	KeyLimit     int64 // attr.Set.SetAttr: `if key >= N`
	AttrBitsBits int64 // width of attr.Set.attrBits
	MaskBits     int64 // width of attr.Mask
}

func constValOf(p *packages.Package, e ast.Expr) (int64, bool) { return fw.EvalInt(p, e) }

// keysOfVar reads `var allKeys = []T{pkg.A, ...}` or `var flagKeys = map[T]bool{pkg.A: true}`.
func keysOfVar(p *packages.Package, name string) ([]int64, error) {
	e := fw.FindVar(p, name)
	cl, ok := e.(*ast.CompositeLit)
	if !ok {
		return nil, fmt.Errorf("%s.%s: not a composite literal", p.PkgPath, name)
	}
	var out []int64
	for _, el := range cl.Elts {
		k := el
		if kv, ok := el.(*ast.KeyValueExpr); ok {
			b, ok := p.TypesInfo.Types[kv.Value]
			if !ok || b.Value == nil || b.Value.String() != "true" {
				continue // a flagKeys entry mapped to false is not a flag
			}
			k = kv.Key
		}
		v, ok := constValOf(p, k)
		if !ok {
			return nil, fmt.Errorf("%s.%s: non-constant element", p.PkgPath, name)
		}
		out = append(out, v)
	}
	return out, nil
}

func stringerConcat(p *packages.Package) string {
	var names []string
	for _, n := range p.Types.Scope().Names() {
		if strings.HasPrefix(n, "_AttrKey_name_") {
			names = append(names, n)
		}
	}
	sort.Strings(names)
	var sb strings.Builder
	for _, n := range names {
		if c, ok := p.Types.Scope().Lookup(n).(*types.Const); ok {
			s, _ := strconv.Unquote(c.Val().ExactString())
			sb.WriteString(s)
			sb.WriteByte(0)
		}
	}
	return sb.String()
}

func loadKeyFacts(repo, pkgDir, testDir string, str func(int64) string) (keyFacts, error) {
	var kf keyFacts
	p, err := fw.LoadPkg(filepath.Join(repo, pkgDir))
	if err != nil {
		return kf, err
	}
	kf.Names, kf.Vals = fw.ConstsOfType(p, "AttrKey")
	if len(kf.Names) == 0 {
		return kf, fmt.Errorf("%s: no AttrKey constants", pkgDir)
	}
	if kf.MaskLen, err = fw.ConstInt(p, "maskLen"); err != nil {
		return kf, err
	}
	tables := stringerConcat(p)
	for i, v := range kf.Vals {
		if v < -128 || v > 127 {
			return kf, fmt.Errorf("%s.%s out of int8", pkgDir, kf.Names[i])
		}
		s := str(v)
		// where the source tree has generated stringer tables, the linked String() must agree
		// with them (a hand-written String method has none: the linked code is the truth)
		if tables != "" && !strings.Contains(tables, s) {
			return kf, fmt.Errorf("%s: String() of %s = %q not found in the _AttrKey_name_ tables", pkgDir, kf.Names[i], s)
		}
		kf.Strs = append(kf.Strs, s)
	}
	tp, err := fw.LoadPkg(filepath.Join(repo, testDir))
	if err != nil {
		return kf, err
	}
	if kf.AllKeys, err = keysOfVar(tp, "allKeys"); err != nil {
		return kf, err
	}
	if kf.FlagKeys, err = keysOfVar(tp, "flagKeys"); err != nil {
		return kf, err
	}
	sort.Slice(kf.FlagKeys, func(i, j int) bool { return kf.FlagKeys[i] < kf.FlagKeys[j] })
	return kf, nil
}

// attrFacts reads the key limit of SetAttr and the field widths of attr.Set.
func attrFacts(repo string, f *facts) error {
	p, err := fw.LoadPkg(filepath.Join(repo, "util/resolve/internal/attr"))
	if err != nil {
		return err
	}
	width := func(t types.Type) int64 {
		b, ok := t.Underlying().(*types.Basic)
		if !ok {
			return 0
		}
		switch b.Kind() {
		case types.Uint8:
			return 8
		case types.Uint16:
			return 16
		case types.Uint32:
			return 32
		case types.Uint64:
			return 64
		}
		return 0
	}
	set, ok := p.Types.Scope().Lookup("Set").(*types.TypeName)
	if !ok {
		return fmt.Errorf("attr.Set not found")
	}
	st, ok := set.Type().Underlying().(*types.Struct)
	if !ok {
		return fmt.Errorf("attr.Set is not a struct")
	}
	for i := 0; i < st.NumFields(); i++ {
		switch fld := st.Field(i); fld.Name() {
		case "attrBits":
			f.AttrBitsBits = width(fld.Type())
		case "Mask":
			f.MaskBits = width(fld.Type())
		}
	}
	if f.AttrBitsBits == 0 || f.MaskBits == 0 {
		return fmt.Errorf("attr.Set: attrBits/Mask fields not found or not unsigned integers")
	}
	f.KeyLimit = -1
	for _, file := range p.Syntax {
		for _, d := range file.Decls {
			fd, ok := d.(*ast.FuncDecl)
			if !ok || fd.Name.Name != "SetAttr" || fd.Body == nil {
				continue
			}
			ast.Inspect(fd.Body, func(n ast.Node) bool {
				is, ok := n.(*ast.IfStmt)
				if !ok || f.KeyLimit >= 0 {
					return true
				}
				be, ok := is.Cond.(*ast.BinaryExpr)
				if !ok || be.Op != token.GEQ {
					return true
				}
				if id, ok := be.X.(*ast.Ident); !ok || id.Name != "key" {
					return true
				}
				if len(is.Body.List) == 0 {
					return true
				}
				es, ok := is.Body.List[0].(*ast.ExprStmt)
				if !ok {
					return true
				}
				if call, ok := es.X.(*ast.CallExpr); ok {
					if id, ok := call.Fun.(*ast.Ident); ok && id.Name == "panic" {
						if v, ok := fw.EvalInt(p, be.Y); ok {
							f.KeyLimit = v
						}
					}
				}
				return true
			})
		}
	}
	if f.KeyLimit < 0 {
		return fmt.Errorf("attr.Set.SetAttr: `if key >= N { panic }` not found")
	}
	return nil
}

func loadFacts(repo string) (*facts, error) {
	var f facts
	var err error
	if f.Dep, err = loadKeyFacts(repo, "util/resolve/dep", "util/resolve/internal/deptest",
		func(v int64) string { return dep.AttrKey(v).String() }); err != nil {
		return nil, err
	}
	if f.Ver, err = loadKeyFacts(repo, "util/resolve/version", "util/resolve/internal/versiontest",
		func(v int64) string { return version.AttrKey(v).String() }); err != nil {
		return nil, err
	}
	if err = attrFacts(repo, &f); err != nil {
		return nil, err
	}
	return &f, nil
}

func leanIntList(xs []int64) string {
	parts := make([]string, len(xs))
	for i, x := range xs {
		parts[i] = fmt.Sprint(x)
	}
	return "[" + strings.Join(parts, ", ") + "]"
}

func genKeyFacts(b *strings.Builder, pfx string, kf keyFacts) {
	fmt.Fprintf(b, "/-- `%s.AttrKey` constants in source order (name, value). -/\n", pfx)
	fmt.Fprintf(b, "def %sConsts : List (String × Int) := [", pfx)
	for i := range kf.Names {
		if i > 0 {
			b.WriteString(", ")
		}
		fmt.Fprintf(b, "(%s, %d)", fw.LeanStr(kf.Names[i]), kf.Vals[i])
	}
	b.WriteString("]\n")
	fmt.Fprintf(b, "/-- `String()` of each constant (stringer tables), as bytes. -/\n")
	fmt.Fprintf(b, "def %sNames : List (Int × List UInt8) := [", pfx)
	for i := range kf.Names {
		if i > 0 {
			b.WriteString(",\n  ")
		}
		fmt.Fprintf(b, "(%d, %s)", kf.Vals[i], fw.LeanBytes(kf.Strs[i]))
	}
	b.WriteString("]\n")
	fmt.Fprintf(b, "def %sMaskLen : Nat := %d\n", pfx, kf.MaskLen)
	fmt.Fprintf(b, "/-- `%stest.allKeys`, in order. -/\n", pfx)
	fmt.Fprintf(b, "def %sAllKeys : List Int := %s\n", pfx, leanIntList(kf.AllKeys))
	fmt.Fprintf(b, "/-- `%stest.flagKeys` (keys mapped to true), sorted. -/\n", pfx)
	fmt.Fprintf(b, "def %sFlagKeys : List Int := %s\n\n", pfx, leanIntList(kf.FlagKeys))
}

func genAttrKeys(repo string) (string, error) {
	f, err := loadFacts(repo)
	if err != nil {
		return "", err
	}
	var b strings.Builder
	b.WriteString("-- Source: util/resolve/{dep,version}/{key,stringer}.go, util/resolve/internal/{attr/set.go,deptest,versiontest}.\n")
	b.WriteString("namespace DepsDev.Gen.C19AttrKeys\n\n")
	genKeyFacts(&b, "dep", f.Dep)
	genKeyFacts(&b, "version", f.Ver)
	fmt.Fprintf(&b, "/-- `attr.Set.SetAttr` panics for `key >= setAttrKeyLimit`. -/\ndef setAttrKeyLimit : Nat := %d\n", f.KeyLimit)
	fmt.Fprintf(&b, "/-- bit width of `attr.Set.attrBits`. -/\ndef attrBitsWidth : Nat := %d\n", f.AttrBitsBits)
	fmt.Fprintf(&b, "/-- bit width of `attr.Mask`. -/\ndef maskWidth : Nat := %d\n", f.MaskBits)
	b.WriteString("\nend DepsDev.Gen.C19AttrKeys\n")
	return b.String(), nil
}

// genPrint emits the tables of the Go toolchain the text functions depend on:
// strconv.IsPrint for runes >= 0x80 (as ranges), the UTF-8 encodings of the
// runes with unicode.IsSpace, and the non-ASCII runes that unicode.ToLower maps
// into ASCII.
func genPrint(repo string) (string, error) {
	var b strings.Builder
	b.WriteString("-- Source: the Go toolchain's strconv.IsPrint, unicode.IsSpace, unicode.ToLower (evaluated on every rune).\n")
	b.WriteString("namespace DepsDev.Gen.C19Print\n\n")
	b.WriteString("/-- maximal ranges [lo, hi] of runes >= 0x80 with strconv.IsPrint. -/\ndef printRanges : List (Nat × Nat) := [")
	first := true
	lo := rune(-1)
	n := 0
	flush := func(hi rune) {
		if lo < 0 {
			return
		}
		if !first {
			b.WriteString(",")
			if n%8 == 0 {
				b.WriteString("\n  ")
			} else {
				b.WriteString(" ")
			}
		}
		first = false
		n++
		fmt.Fprintf(&b, "(%d, %d)", lo, hi)
		lo = -1
	}
	for r := rune(0x80); r <= unicode.MaxRune; r++ {
		if strconv.IsPrint(r) {
			if lo < 0 {
				lo = r
			}
		} else {
			flush(r - 1)
		}
	}
	flush(unicode.MaxRune)
	b.WriteString("]\n\n")
	b.WriteString("/-- UTF-8 encodings of every rune with unicode.IsSpace, ascending. -/\ndef spacePatterns : List (List UInt8) := [")
	first = true
	for r := rune(0); r <= unicode.MaxRune; r++ {
		if unicode.IsSpace(r) {
			if !first {
				b.WriteString(", ")
			}
			first = false
			b.WriteString(fw.LeanBytes(string(utf8.AppendRune(nil, r))))
		}
	}
	b.WriteString("]\n\n")
	b.WriteString("/-- runes >= 0x80 whose unicode.ToLower is ASCII: (rune, lower). -/\ndef lowerToAscii : List (Nat × Nat) := [")
	first = true
	for r := rune(0x80); r <= unicode.MaxRune; r++ {
		if l := unicode.ToLower(r); l < 0x80 {
			if !first {
				b.WriteString(", ")
			}
			first = false
			fmt.Fprintf(&b, "(%d, %d)", r, l)
		}
	}
	b.WriteString("]\n\nend DepsDev.Gen.C19Print\n")
	return b.String(), nil
}
