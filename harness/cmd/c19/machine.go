package main

// The register machine over REAL dep.Type / version.AttrSet / attr.Set values.
//
// One op line = one whole sequence:  C19 <kind> <op> <op> ...   kind = a | d | v
//
//	n:R            R := zero value
//	s:R:K:HEX      a: R.SetAttr(uint8 K, v)   d: R.AddAttr(dep.AttrKey K, v)   v: R.SetAttr(version.AttrKey K, v)
//	m:R:N          a only: R.Mask |= N
//	c:R:R2         R2 := R.Clone()
//	y:R:R2         R2 := R            (raw struct copy: the aliasing hazard; never part of an oracle)
//	k:R:R2         a,d: sign of R.Compare(R2); v: R.Equal(R2)           -> k=-1|0|1   (v: k=0|!)
//	g:R:K          GetAttr                                              -> g=HEX | g=!
//	r:R            IsRegular / Empty                                    -> r=0|1
//	e:R            a,v: ForEachAttr                                     -> e=K:HEX,...
//	t:R            d,v: String()                                        -> t=HEX
//	x:R            v: versiontest.String                                -> x=HEX
//	w:R            d: the harness's writer of the deptest syntax        -> w=HEX
//	cl:R           classifier predicates on R's contents (known-finding classes) -> cl=<bits>
//	p:R:HEX        d: deptest.ParseString, v: versiontest.ParseString into R   -> p=ok|err
//	q:R:HEX        v: versiontest.ParseSingle into R                    -> q=ok|err
//	rt:R:R2        R2 := Parse(Write(R)); v: versiontest.String, d: writer -> rt=HEX:ok:<k> | rt=HEX:err
//	qs:R:K:HEX     v: R := ParseSingle(lower(K.String()) + " " + strconv.Quote(v)) -> qs=HEX:ok|err
//	K:N            comparison matrix of registers 0..N-1 (row major)    -> K=<=>... (v: =!)
//	D:N            dump of registers 0..N-1                             -> D=m<mask>;e<..>;g<..>/...
//
// The result is "ok" followed by the observations in order, or "panic" (the
// framework recovers) if any step panics, or "bad-op".

import (
	"fmt"
	"strconv"
	"strings"
	"unicode"

	"deps.dev/util/resolve/dep"
	"deps.dev/util/resolve/verifx"
	"deps.dev/util/resolve/version"
	"verifharness/fw"
)

type kv struct {
	k int
	v string
}

// box is one register.
type box interface {
	set(key int, val string)
	orMask(n int) bool
	get(key int) (string, bool)
	clone() box
	rawCopy() box
	cmp(o box) string
	regular() bool
	each() ([]kv, bool)
	str() (string, bool)
	mask() int
}

// ---- kind a: attr.Set
type aBox struct{ s verifx.AttrSet }

func (b *aBox) set(key int, val string)    { b.s.SetAttr(uint8(key), val) }
func (b *aBox) orMask(n int) bool          { b.s.Mask |= verifx.AttrMask(n); return true }
func (b *aBox) get(key int) (string, bool) { return b.s.GetAttr(uint8(key)) }
func (b *aBox) clone() box                 { return &aBox{b.s.Clone()} }
func (b *aBox) rawCopy() box               { c := b.s; return &aBox{c} }
func (b *aBox) cmp(o box) string           { return fmt.Sprint(fw.Sgn(b.s.Compare(o.(*aBox).s))) }
func (b *aBox) regular() bool              { return b.s.IsRegular() }
func (b *aBox) each() ([]kv, bool) {
	var out []kv
	b.s.ForEachAttr(func(k uint8, v string) { out = append(out, kv{int(k), v}) })
	return out, true
}
func (b *aBox) str() (string, bool) { return "", false }
func (b *aBox) mask() int           { return int(b.s.Mask) }

// ---- kind d: dep.Type
type dBox struct{ t dep.Type }

func (b *dBox) set(key int, val string)    { b.t.AddAttr(dep.AttrKey(key), val) }
func (b *dBox) orMask(n int) bool          { return false }
func (b *dBox) get(key int) (string, bool) { return b.t.GetAttr(dep.AttrKey(key)) }
func (b *dBox) clone() box                 { return &dBox{b.t.Clone()} }
func (b *dBox) rawCopy() box               { c := b.t; return &dBox{c} }
func (b *dBox) cmp(o box) string {
	c := b.t.Compare(o.(*dBox).t)
	if (c == 0) != b.t.Equal(o.(*dBox).t) {
		return "?" // Equal must be Compare == 0
	}
	return fmt.Sprint(fw.Sgn(c))
}
func (b *dBox) regular() bool       { return b.t.IsRegular() }
func (b *dBox) each() ([]kv, bool)  { return nil, false }
func (b *dBox) str() (string, bool) { return b.t.String(), true }
func (b *dBox) mask() int           { return maskOf(b) }

// ---- kind v: version.AttrSet
type vBox struct{ s version.AttrSet }

func (b *vBox) set(key int, val string)    { b.s.SetAttr(version.AttrKey(key), val) }
func (b *vBox) orMask(n int) bool          { return false }
func (b *vBox) get(key int) (string, bool) { return b.s.GetAttr(version.AttrKey(key)) }
func (b *vBox) clone() box                 { return &vBox{b.s.Clone()} }
func (b *vBox) rawCopy() box               { c := b.s; return &vBox{c} }
func (b *vBox) cmp(o box) string {
	if b.s.Equal(o.(*vBox).s) {
		return "0"
	}
	return "!"
}
func (b *vBox) regular() bool { return b.s.Empty() }
func (b *vBox) each() ([]kv, bool) {
	var out []kv
	b.s.ForEachAttr(func(k version.AttrKey, v string) { out = append(out, kv{int(k), v}) })
	return out, true
}
func (b *vBox) str() (string, bool) { return b.s.String(), true }
func (b *vBox) mask() int           { return maskOf(b) }

// maskOf reads the mask through GetAttr of the negative keys -1, -2, ..., -128.
func maskOf(b box) int {
	m := 0
	for bit := 1; bit <= 128; bit <<= 1 {
		if _, ok := b.get(-bit); ok {
			m |= bit
		}
	}
	return m
}

func zero(kind string) box {
	switch kind {
	case "a":
		return &aBox{}
	case "d":
		return &dBox{}
	default:
		return &vBox{}
	}
}

func keyOK(kind string, k int) bool {
	if kind == "a" {
		return 0 <= k && k <= 255
	}
	return -128 <= k && k <= 127
}

// mapView lists the attributes visible through GetAttr for keys 0..limit-1.
func mapView(b box) []kv {
	var out []kv
	for k := 0; k < 64; k++ {
		if v, ok := b.get(k); ok {
			out = append(out, kv{k, v})
		}
	}
	return out
}

func kvs(l []kv) string {
	parts := make([]string, len(l))
	for i, e := range l {
		parts[i] = fmt.Sprintf("%d:%s", e.k, fw.Hx(e.v))
	}
	return strings.Join(parts, ",")
}

func dumpReg(b box) string {
	e := "~"
	if l, ok := b.each(); ok {
		e = kvs(l)
	}
	return fmt.Sprintf("m%d;e%s;g%s", b.mask(), e, kvs(mapView(b)))
}

// hasGoSpace: the string contains a rune that strings.Fields splits at.
func hasGoSpace(s string) bool { return strings.IndexFunc(s, unicode.IsSpace) >= 0 }

// depNeedsQuote: a value that cannot be written as a bare token.
func depNeedsQuote(v string) bool { return v == "" || v[0] == '"' || hasGoSpace(v) }

type depItem struct {
	text   string
	quoted bool
	val    string
}

// depItems is the harness's writer of the deptest schema syntax (the analogue of
// versiontest.String, which deptest lacks): keys in deptest.allKeys order, flag
// keys bare, other keys followed by their value, written with strconv.Quote
// when it is empty, starts with a quote or contains white space.
func depItems(F *facts, get func(int) (string, bool)) []depItem {
	var items []depItem
	for _, k := range F.Dep.AllKeys {
		v, ok := get(int(k))
		if !ok {
			continue
		}
		items = append(items, depItem{text: dep.AttrKey(k).String()})
		if isIn(F.Dep.FlagKeys, k) {
			continue
		}
		if depNeedsQuote(v) {
			items = append(items, depItem{text: strconv.Quote(v), quoted: true, val: v})
		} else {
			items = append(items, depItem{text: v, val: v})
		}
	}
	return items
}

func depWrite(F *facts, get func(int) (string, bool)) string {
	its := depItems(F, get)
	ss := make([]string, len(its))
	for i, it := range its {
		ss[i] = it.text
	}
	return strings.Join(ss, " ")
}

func isIn(xs []int64, x int64) bool {
	for _, y := range xs {
		if x == y {
			return true
		}
	}
	return false
}

// ---- classifier predicates (mirrored by Lean: Props.C19.verTextOK / depTextOK / knownKeys)

// knownKeys: mask bits and attribute keys are all declared in <pkg>test.allKeys,
// and the flag keys stored in the map (dep.Selector) have an empty value.
func knownKeys(kf keyFacts, mask int, attrs []kv) bool {
	for bit := 1; bit <= 128; bit <<= 1 {
		if mask&bit != 0 && !isIn(kf.AllKeys, int64(-bit)) {
			return false
		}
	}
	for _, e := range attrs {
		if !isIn(kf.AllKeys, int64(e.k)) {
			return false
		}
		if isIn(kf.FlagKeys, int64(e.k)) && e.v != "" {
			return false
		}
	}
	return true
}

// verTextOK: every valued attribute is non-empty and free of white space.
func verTextOK(kf keyFacts, attrs []kv) bool {
	for _, e := range attrs {
		if isIn(kf.FlagKeys, int64(e.k)) {
			continue
		}
		if e.v == "" || hasGoSpace(e.v) {
			return false
		}
	}
	return true
}

// depQuotedOK: a quoted value the deptest parser can read back.
func depQuotedOK(v string) bool {
	return !strings.HasSuffix(v, `\`) && !strings.HasPrefix(v, " ") && !strings.Contains(v, "  ")
}

// depTextOK: every value that must be quoted is the last item written, does
// not end in a backslash, does not start with a space and has no two adjacent spaces.
func depTextOK(F *facts, get func(int) (string, bool)) bool {
	its := depItems(F, get)
	for i, it := range its {
		if it.quoted && (i != len(its)-1 || !depQuotedOK(it.val)) {
			return false
		}
	}
	return true
}

func b01(b bool) string {
	if b {
		return "1"
	}
	return "0"
}

func classBits(F *facts, kind string, b box) string {
	attrs := mapView(b)
	switch kind {
	case "v":
		return b01(knownKeys(F.Ver, b.mask(), attrs)) + b01(verTextOK(F.Ver, attrs))
	case "d":
		return b01(knownKeys(F.Dep, b.mask(), attrs)) + b01(depTextOK(F, b.get))
	}
	return "-"
}

type machine struct {
	F    *facts
	kind string
	regs map[int]box
}

func (m *machine) reg(i int) box {
	if b, ok := m.regs[i]; ok {
		return b
	}
	b := zero(m.kind)
	m.regs[i] = b
	return b
}

func atoi(s string) (int, bool) {
	if s == "" || len(s) > 4 {
		return 0, false
	}
	n, err := strconv.Atoi(s)
	if err != nil || (s[0] == '+') || (len(s) > 1 && s[0] == '0') || (len(s) > 2 && s[0] == '-' && s[1] == '0') || s == "-0" {
		return 0, false
	}
	return n, true
}

func regIdx(s string) (int, bool) {
	n, ok := atoi(s)
	return n, ok && 0 <= n && n < 16
}

func unhex(s string) (string, bool) {
	if s == "-" {
		return "", true
	}
	if len(s)%2 != 0 || s == "" {
		return "", false
	}
	for i := 0; i < len(s); i++ {
		c := s[i]
		if !('0' <= c && c <= '9' || 'a' <= c && c <= 'f') {
			return "", false
		}
	}
	return fw.Unhx(s), true
}

// step executes one op token; returns the observation ("" for none) and ok=false for a bad op.
func (m *machine) step(tok string) (string, bool) {
	f := strings.Split(tok, ":")
	op := f[0]
	arity := map[string]int{"n": 1, "s": 3, "m": 2, "c": 2, "y": 2, "k": 2, "g": 2, "r": 1, "e": 1, "t": 1, "x": 1, "w": 1, "cl": 1, "p": 2, "q": 2, "rt": 2, "qs": 3, "K": 1, "D": 1}
	n, known := arity[op]
	if !known || len(f) != n+1 {
		return "", false
	}
	if op == "K" || op == "D" {
		cnt, ok := atoi(f[1])
		if !ok || cnt < 0 || cnt > 16 {
			return "", false
		}
		var sb strings.Builder
		if op == "K" {
			for i := 0; i < cnt; i++ {
				for j := 0; j < cnt; j++ {
					switch m.reg(i).cmp(m.reg(j)) {
					case "-1":
						sb.WriteByte('<')
					case "0":
						sb.WriteByte('=')
					case "1":
						sb.WriteByte('>')
					case "!":
						sb.WriteByte('!')
					default:
						sb.WriteByte('?')
					}
				}
			}
			return "K=" + sb.String(), true
		}
		for i := 0; i < cnt; i++ {
			if i > 0 {
				sb.WriteByte('/')
			}
			sb.WriteString(dumpReg(m.reg(i)))
		}
		return "D=" + sb.String(), true
	}
	r, ok := regIdx(f[1])
	if !ok {
		return "", false
	}
	switch op {
	case "n":
		m.regs[r] = zero(m.kind)
		return "", true
	case "s":
		k, ok := atoi(f[2])
		v, ok2 := unhex(f[3])
		if !ok || !ok2 || !keyOK(m.kind, k) {
			return "", false
		}
		m.reg(r).set(k, v)
		return "", true
	case "m":
		nn, ok := atoi(f[2])
		if !ok || nn < 0 || nn > 255 || m.kind != "a" {
			return "", false
		}
		m.reg(r).orMask(nn)
		return "", true
	case "c", "y", "k", "rt":
		r2, ok := regIdx(f[2])
		if !ok {
			return "", false
		}
		switch op {
		case "c":
			m.regs[r2] = m.reg(r).clone()
			return "", true
		case "y":
			m.regs[r2] = m.reg(r).rawCopy()
			return "", true
		case "k":
			return "k=" + m.reg(r).cmp(m.reg(r2)), true
		}
		// rt
		var text string
		var back box
		var err error
		switch m.kind {
		case "v":
			text = verifx.VersionString(m.reg(r).(*vBox).s)
			var s version.AttrSet
			s, err = verifx.VersionParseString(text)
			back = &vBox{s}
		case "d":
			text = depWrite(m.F, m.reg(r).get)
			var t dep.Type
			t, err = verifx.DepParseString(text)
			back = &dBox{t}
		default:
			return "", false
		}
		m.regs[r2] = back
		if err != nil {
			return "rt=" + fw.Hx(text) + ":err", true
		}
		return "rt=" + fw.Hx(text) + ":ok:" + m.reg(r).cmp(back), true
	case "g":
		k, ok := atoi(f[2])
		if !ok || !keyOK(m.kind, k) {
			return "", false
		}
		if v, ok := m.reg(r).get(k); ok {
			return "g=" + fw.Hx(v), true
		}
		return "g=!", true
	case "r":
		return "r=" + b01(m.reg(r).regular()), true
	case "e":
		l, ok := m.reg(r).each()
		if !ok {
			return "", false
		}
		return "e=" + kvs(l), true
	case "t":
		s, ok := m.reg(r).str()
		if !ok {
			return "", false
		}
		return "t=" + fw.Hx(s), true
	case "x":
		if m.kind != "v" {
			return "", false
		}
		return "x=" + fw.Hx(verifx.VersionString(m.reg(r).(*vBox).s)), true
	case "w":
		if m.kind != "d" {
			return "", false
		}
		return "w=" + fw.Hx(depWrite(m.F, m.reg(r).get)), true
	case "cl":
		if m.kind == "a" {
			return "", false
		}
		return "cl=" + classBits(m.F, m.kind, m.reg(r)), true
	case "p", "q":
		text, ok := unhex(f[2])
		if !ok {
			return "", false
		}
		var err error
		switch {
		case op == "p" && m.kind == "d":
			var t dep.Type
			t, err = verifx.DepParseString(text)
			m.regs[r] = &dBox{t}
		case op == "p" && m.kind == "v":
			var s version.AttrSet
			s, err = verifx.VersionParseString(text)
			m.regs[r] = &vBox{s}
		case op == "q" && m.kind == "v":
			var s version.AttrSet
			s, err = verifx.VersionParseSingle(text)
			m.regs[r] = &vBox{s}
		default:
			return "", false
		}
		if err != nil {
			return op + "=err", true
		}
		return op + "=ok", true
	case "qs":
		k, ok := atoi(f[2])
		v, ok2 := unhex(f[3])
		if !ok || !ok2 || !keyOK(m.kind, k) || m.kind != "v" {
			return "", false
		}
		text := strings.ToLower(version.AttrKey(k).String()) + " " + strconv.Quote(v)
		s, err := verifx.VersionParseSingle(text)
		m.regs[r] = &vBox{s}
		if err != nil {
			return "qs=" + fw.Hx(text) + ":err", true
		}
		return "qs=" + fw.Hx(text) + ":ok", true
	}
	return "", false
}

// validTok is the purely syntactic check of one op token (mirrors parseOp of the
// Lean driver): a line with any malformed token is a bad-op before anything runs.
func validTok(tok string) bool {
	f := strings.Split(tok, ":")
	num := func(s string) bool { _, ok := atoi(s); return ok }
	reg := func(s string) bool { _, ok := regIdx(s); return ok }
	hexs := func(s string) bool { _, ok := unhex(s); return ok }
	cnt := func(s string) bool { n, ok := atoi(s); return ok && 0 <= n && n <= 16 }
	switch {
	case len(f) == 2 && (f[0] == "K" || f[0] == "D"):
		return cnt(f[1])
	case len(f) == 2:
		switch f[0] {
		case "n", "r", "e", "t", "x", "w", "cl":
			return reg(f[1])
		}
	case len(f) == 3:
		switch f[0] {
		case "c", "y", "k", "rt":
			return reg(f[1]) && reg(f[2])
		case "g":
			return reg(f[1]) && num(f[2])
		case "m":
			n, ok := atoi(f[2])
			return reg(f[1]) && ok && n >= 0
		case "p", "q":
			return reg(f[1]) && hexs(f[2])
		}
	case len(f) == 4 && (f[0] == "s" || f[0] == "qs"):
		return reg(f[1]) && num(f[2]) && hexs(f[3])
	}
	return false
}

// runLine executes the fields after the property id.
func runLine(F *facts, f []string) string {
	if len(f) < 1 || (f[0] != "a" && f[0] != "d" && f[0] != "v") {
		return "bad-op"
	}
	for _, tok := range f[1:] {
		if !validTok(tok) {
			return "bad-op"
		}
	}
	m := &machine{F: F, kind: f[0], regs: map[int]box{}}
	var obs []string
	for _, tok := range f[1:] {
		o, ok := m.step(tok)
		if !ok {
			return "bad-op"
		}
		if o != "" {
			obs = append(obs, o)
		}
	}
	return strings.Join(append([]string{"ok"}, obs...), " ")
}
