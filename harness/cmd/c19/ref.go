package main

// Oracles: functions of one op line and its Go result only.
//
// A map-based reference (mask + map[key]value, Clone = deep copy) is run over
// the op tokens of the line; the observations recorded in the Go result are
// checked against it. Lines containing the raw struct copy op `y` are not
// subject to any oracle (they exist to tie the heap model to the code).

import (
	"fmt"
	"sort"
	"strings"
)

type refSet struct {
	mask   int
	m      map[int]string
	opaque bool // contents not known to the reference (result of a parse)
}

func newRef() *refSet { return &refSet{m: map[int]string{}} }

func (s *refSet) clone() *refSet {
	c := &refSet{mask: s.mask, m: map[int]string{}, opaque: s.opaque}
	for k, v := range s.m {
		c.m[k] = v
	}
	return c
}

func (s *refSet) equal(o *refSet) bool {
	if s.mask != o.mask || len(s.m) != len(o.m) {
		return false
	}
	for k, v := range s.m {
		if w, ok := o.m[k]; !ok || w != v {
			return false
		}
	}
	return true
}

func (s *refSet) attrs() []kv {
	var out []kv
	for k, v := range s.m {
		out = append(out, kv{k, v})
	}
	sort.Slice(out, func(i, j int) bool { return out[i].k < out[j].k })
	return out
}

func (s *refSet) get(kind string, k int) (string, bool) {
	if kind != "a" && k < 0 {
		return "", s.mask&(-k) != 0
	}
	v, ok := s.m[k]
	return v, ok
}

func (s *refSet) each(kind string) []kv {
	var out []kv
	if kind == "v" {
		for bit := 1; bit <= 128; bit <<= 1 {
			if s.mask&bit != 0 {
				out = append(out, kv{-bit, ""})
			}
		}
	}
	return append(out, s.attrs()...)
}

func (s *refSet) dump(kind string) string {
	e := "~"
	if kind != "d" {
		e = kvs(s.each(kind))
	}
	return fmt.Sprintf("m%d;e%s;g%s", s.mask, e, kvs(s.attrs()))
}

type problem struct {
	oracle string
	detail string
	class  string // known-finding class the failing instance falls in ("" = none)
}

var mutating = map[string]bool{"n": true, "s": true, "m": true, "c": true, "y": true, "p": true, "q": true, "rt": true, "qs": true}

// target returns the register an op token writes (or -1).
func target(f []string) int {
	if !mutating[f[0]] {
		return -1
	}
	idx := 1
	if f[0] == "c" || f[0] == "y" || f[0] == "rt" {
		idx = 2
	}
	n, ok := regIdx(f[idx])
	if !ok {
		return -1
	}
	return n
}

// audit checks every observation of the line; it returns the problems found.
func audit(F *facts, line, res string) []problem {
	fs := strings.Fields(line)
	if len(fs) < 2 || fs[0] != "C19" {
		return nil
	}
	if fs[1] == "probe" {
		return auditProbe(res)
	}
	kind := fs[1]
	toks := fs[2:]
	for _, t := range toks {
		if strings.HasPrefix(t, "y:") {
			return nil
		}
	}
	var probs []problem
	add := func(o, d string) { probs = append(probs, problem{o, d, ""}) }
	kf := F.Dep
	if kind == "v" {
		kf = F.Ver
	}

	// does the reference expect a panic? (SetAttr refuses keys >= the key limit)
	expectPanic := false
	for _, t := range toks {
		f := strings.Split(t, ":")
		if f[0] == "s" && len(f) == 4 {
			if k, ok := atoi(f[2]); ok && k >= int(F.KeyLimit) {
				expectPanic = true
			}
		}
	}
	if res == "bad-op" {
		return nil
	}
	if expectPanic != (res == "panic") {
		add("value-semantics", fmt.Sprintf("panic expected=%v, result %q", expectPanic, res))
		return probs
	}
	if res == "panic" {
		return nil
	}
	obs := strings.Fields(res)
	if len(obs) == 0 || obs[0] != "ok" {
		add("value-semantics", "result is not ok/panic: "+res)
		return probs
	}
	obs = obs[1:]
	next := func(prefix string) (string, bool) {
		if len(obs) == 0 || !strings.HasPrefix(obs[0], prefix+"=") {
			return "", false
		}
		o := obs[0][len(prefix)+1:]
		obs = obs[1:]
		return o, true
	}

	regs := map[int]*refSet{}
	reg := func(i int) *refSet {
		if s, ok := regs[i]; ok {
			return s
		}
		s := newRef()
		regs[i] = s
		return s
	}
	// frame expectations (relational, no reference): the dump a register must
	// show as long as no op targets it; set by D observations, carried by clone.
	frame := map[int]string{}
	// parsing is a function of the text (relational, no reference): prov[r] names the parse
	// (entry point + text) whose result register r holds, as long as no op targets r; it is
	// carried by clone. image / status: what that parse showed the first time in this line.
	prov := map[int]string{}
	image := map[string]string{}
	status := map[string]string{}
	parsed := func(pos int, t, key, st string, r int) {
		if old, ok := status[key]; ok && old != st {
			add("parse-function", fmt.Sprintf("op %d %s: parsing the same text was %s before in this line and is %s now", pos, t, old, st))
		}
		status[key] = st
		prov[r] = key
	}
	sameParse := func(i, j int) bool {
		a, ok1 := prov[i]
		b, ok2 := prov[j]
		return ok1 && ok2 && a == b
	}

	for pos, t := range toks {
		f := strings.Split(t, ":")
		if tg := target(f); tg >= 0 {
			if f[0] == "c" {
				src, _ := regIdx(f[1])
				if d, ok := frame[src]; ok {
					if src != tg {
						frame[tg] = d
					}
				} else {
					delete(frame, tg)
				}
				if p, ok := prov[src]; ok {
					prov[tg] = p
				} else {
					delete(prov, tg)
				}
			} else {
				delete(frame, tg)
				delete(prov, tg)
			}
		}
		switch f[0] {
		case "n":
			r, _ := regIdx(f[1])
			regs[r] = newRef()
		case "s":
			r, _ := regIdx(f[1])
			k, _ := atoi(f[2])
			v, _ := unhex(f[3])
			s := reg(r)
			if kind != "a" && k < 0 {
				s.mask |= -k
			} else {
				s.m[k] = v
			}
		case "m":
			r, _ := regIdx(f[1])
			n, _ := atoi(f[2])
			reg(r).mask |= n
		case "c":
			r, _ := regIdx(f[1])
			r2, _ := regIdx(f[2])
			regs[r2] = reg(r).clone()
		case "k":
			r, _ := regIdx(f[1])
			r2, _ := regIdx(f[2])
			o, ok := next("k")
			if !ok {
				add("value-semantics", "missing k observation")
				return probs
			}
			a, b := reg(r), reg(r2)
			if o == "?" {
				add("equal-iff-same", fmt.Sprintf("op %d: Equal disagrees with Compare == 0", pos))
			}
			if !a.opaque && !b.opaque && (o == "0") != a.equal(b) {
				add("equal-iff-same", fmt.Sprintf("op %d %s: compare %s but reference contents equal=%v", pos, t, o, a.equal(b)))
			}
			if r == r2 && o != "0" {
				add("order-laws", fmt.Sprintf("op %d %s: not reflexive", pos, t))
			}
			if sameParse(r, r2) && o != "0" {
				add("parse-function", fmt.Sprintf("op %d %s: two untouched results (or clones) of parsing the same text compare %s", pos, t, o))
			}
		case "g":
			r, _ := regIdx(f[1])
			k, _ := atoi(f[2])
			o, ok := next("g")
			if !ok {
				add("value-semantics", "missing g observation")
				return probs
			}
			if s := reg(r); !s.opaque {
				want := "!"
				if v, ok := s.get(kind, k); ok {
					want = hx(v)
				}
				if o != want {
					add("value-semantics", fmt.Sprintf("op %d %s: got %s want %s", pos, t, o, want))
				}
			}
		case "r":
			r, _ := regIdx(f[1])
			o, ok := next("r")
			if !ok {
				add("value-semantics", "missing r observation")
				return probs
			}
			if s := reg(r); !s.opaque && o != b01(s.mask == 0 && len(s.m) == 0) {
				add("value-semantics", fmt.Sprintf("op %d %s: IsRegular %s", pos, t, o))
			}
		case "e":
			r, _ := regIdx(f[1])
			o, ok := next("e")
			if !ok {
				add("value-semantics", "missing e observation")
				return probs
			}
			if s := reg(r); !s.opaque && o != kvs(s.each(kind)) {
				add("value-semantics", fmt.Sprintf("op %d %s: ForEachAttr %s want %s", pos, t, o, kvs(s.each(kind))))
			}
		case "t", "x", "w", "cl":
			if _, ok := next(f[0]); !ok {
				add("value-semantics", "missing "+f[0]+" observation")
				return probs
			}
		case "p", "q":
			r, _ := regIdx(f[1])
			o, ok := next(f[0])
			if !ok {
				add("value-semantics", "missing parse observation")
				return probs
			}
			regs[r] = newRef()
			if o == "ok" {
				regs[r].opaque = true
			}
			parsed(pos, t, f[0]+":"+f[2], o, r)
		case "rt":
			r, _ := regIdx(f[1])
			r2, _ := regIdx(f[2])
			o, ok := next("rt")
			if !ok {
				add("value-semantics", "missing rt observation")
				return probs
			}
			src := reg(r)
			parts := strings.Split(o, ":")
			good := len(parts) == 3 && parts[1] == "ok" && parts[2] == "0"
			oracle := "ver-text-roundtrip"
			if kind == "d" {
				oracle = "dep-text-roundtrip"
			}
			if !src.opaque && knownKeys(kf, src.mask, src.attrs()) {
				if !good {
					class := ""
					if kind == "v" && !verTextOK(kf, src.attrs()) {
						class = "F-C19-text"
					}
					if kind == "d" && !depTextOK(F, func(k int) (string, bool) { return src.get(kind, k) }) {
						class = "F-C19-deptest-quoted"
					}
					text, _ := unhex(parts[0])
					probs = append(probs, problem{oracle, fmt.Sprintf("op %d %s: contents %s written as %q read back: %s", pos, t, src.dump(kind), text, strings.Join(parts[1:], ":")), class})
				}
			}
			if len(parts) >= 2 {
				parsed(pos, t, "p:"+parts[0], parts[1], r2)
			}
			switch {
			case good:
				regs[r2] = src.clone()
			case len(parts) == 2 && parts[1] == "err":
				regs[r2] = newRef()
			default:
				regs[r2] = newRef()
				regs[r2].opaque = true
			}
		case "qs":
			r, _ := regIdx(f[1])
			k, _ := atoi(f[2])
			v, _ := unhex(f[3])
			o, ok := next("qs")
			if !ok {
				add("value-semantics", "missing qs observation")
				return probs
			}
			declared := isIn(kf.AllKeys, int64(k))
			regs[r] = newRef()
			if i := strings.LastIndex(o, ":"); i >= 0 {
				parsed(pos, t, "q:"+o[:i], o[i+1:], r)
			}
			if strings.HasSuffix(o, ":ok") {
				if !declared {
					regs[r].opaque = true
				} else if k < 0 {
					regs[r].mask = -k
				} else {
					regs[r].m[k] = v
				}
			} else if declared {
				add("ver-single-roundtrip", fmt.Sprintf("op %d %s: ParseSingle rejects the written form", pos, t))
			}
		case "K":
			n, _ := atoi(f[1])
			o, ok := next("K")
			if !ok || len(o) != n*n {
				add("value-semantics", "missing or short K observation")
				return probs
			}
			at := func(i, j int) byte { return o[i*n+j] }
			for i := 0; i < n; i++ {
				for j := 0; j < n; j++ {
					a, b := reg(i), reg(j)
					if at(i, j) == '?' {
						add("equal-iff-same", fmt.Sprintf("op %d: Equal disagrees with Compare == 0 on (%d,%d)", pos, i, j))
					}
					if !a.opaque && !b.opaque && (at(i, j) == '=') != a.equal(b) {
						add("equal-iff-same", fmt.Sprintf("op %d %s: (%d,%d) is %c but reference contents equal=%v", pos, t, i, j, at(i, j), a.equal(b)))
					}
					if sameParse(i, j) && at(i, j) != '=' {
						add("parse-function", fmt.Sprintf("op %d %s: registers %d and %d hold untouched results (or clones) of parsing the same text %s but compare %c", pos, t, i, j, prov[i], at(i, j)))
					}
				}
			}
			if d := orderLaws(n, at); d != "" {
				add("order-laws", fmt.Sprintf("op %d %s: %s in %s", pos, t, d, o))
			}
		case "D":
			n, _ := atoi(f[1])
			o, ok := next("D")
			if !ok {
				add("value-semantics", "missing D observation")
				return probs
			}
			ds := strings.Split(o, "/")
			if n == 0 {
				ds = nil
			}
			if len(ds) != n {
				add("value-semantics", "short D observation")
				return probs
			}
			for i := 0; i < n; i++ {
				if s := reg(i); !s.opaque && ds[i] != s.dump(kind) {
					add("value-semantics", fmt.Sprintf("op %d %s: register %d is %s, reference %s", pos, t, i, ds[i], s.dump(kind)))
				}
				if want, ok := frame[i]; ok && want != ds[i] {
					add("clone-independent", fmt.Sprintf("op %d %s: register %d shows %s, but no op wrote it since it showed (or was cloned from a register showing) %s", pos, t, i, ds[i], want))
				}
				frame[i] = ds[i]
				if key, ok := prov[i]; ok {
					if img, seen := image[key]; seen && img != ds[i] {
						add("parse-function", fmt.Sprintf("op %d %s: register %d holds the untouched result of parsing %s and shows %s, but the same parse showed %s earlier in this line", pos, t, i, key, ds[i], img))
					} else if !seen {
						image[key] = ds[i]
					}
				}
			}
		default:
			return probs
		}
	}
	return probs
}

// orderLaws checks the comparison matrix: reflexive, antisymmetric in sign,
// transitive (as a total preorder); for Equal-only matrices (=,!): an equivalence.
func orderLaws(n int, at func(i, j int) byte) string {
	le := func(i, j int) bool { c := at(i, j); return c == '<' || c == '=' }
	flip := map[byte]byte{'<': '>', '>': '<', '=': '=', '!': '!', '?': '?'}
	for i := 0; i < n; i++ {
		if at(i, i) != '=' {
			return fmt.Sprintf("not reflexive at %d", i)
		}
		for j := 0; j < n; j++ {
			if at(j, i) != flip[at(i, j)] {
				return fmt.Sprintf("not antisymmetric at (%d,%d)", i, j)
			}
			for k := 0; k < n; k++ {
				if at(i, j) == '!' || at(j, k) == '!' || at(i, k) == '!' {
					// equivalence only
					if at(i, j) == '=' && at(j, k) == '=' && at(i, k) != '=' {
						return fmt.Sprintf("equality not transitive at (%d,%d,%d)", i, j, k)
					}
					continue
				}
				if le(i, j) && le(j, k) && !le(i, k) {
					return fmt.Sprintf("not transitive at (%d,%d,%d)", i, j, k)
				}
				if at(i, j) == '=' && at(j, k) != at(i, k) {
					return fmt.Sprintf("equal elements compare differently at (%d,%d,%d)", i, j, k)
				}
				if le(i, j) && le(j, k) && (at(i, j) == '<' || at(j, k) == '<') && at(i, k) != '<' {
					return fmt.Sprintf("strictness lost at (%d,%d,%d)", i, j, k)
				}
			}
		}
	}
	return ""
}

func hx(s string) string {
	if s == "" {
		return "-"
	}
	return fmt.Sprintf("%x", s)
}
