package main

import (
	"fmt"
	"sort"
	"strconv"
	"strings"

	"deps.dev/util/resolve"
	"deps.dev/util/resolve/dep"

	"verifharness/fw"
)

// Wire format (one op line):
//
//	C13 gcanon v=<r>,<r>,...  e=<s>><d>:<reqhex>:<t>,...  err=<node>:<r>:<msghex>,...
//
// "-" is the empty list. <r> is the rank of a resolve.VersionKey in vkPool and
// <t> the rank of a dep.Type in typPool; both pools are sorted with the real
// comparators when the harness starts, so "rank order = Compare order" holds by
// construction, and the ops vkorder/typeorder report whether the comparators are
// strict total orders on the pools (the assumption of the rank encoding).
// Requirement strings and error messages travel as hex bytes.
// A result is "ok v=... e=... err=..." in the same syntax (node order, edge
// order and per-node error order exactly as Canon left them), "err" or "panic".

type nerr struct {
	req int
	msg string
}
type gnode struct {
	ver  int
	errs []nerr
}
type gedge struct {
	s, d int
	req  string
	typ  int
}
type graph struct {
	nodes []gnode
	edges []gedge
}

var vkPool []resolve.VersionKey
var vkRank map[resolve.VersionKey]int
var typPool []dep.Type

func init() {
	for _, sys := range []resolve.System{resolve.NPM, resolve.Maven, resolve.PyPI} {
		for _, name := range []string{"", "a", "aa", "b"} {
			for _, vt := range []resolve.VersionType{resolve.Concrete, resolve.Requirement} {
				for _, v := range []string{"", "1", "1.0", "2"} {
					vkPool = append(vkPool, resolve.VersionKey{
						PackageKey:  resolve.PackageKey{System: sys, Name: name},
						VersionType: vt,
						Version:     v,
					})
				}
			}
		}
	}
	// insertion sort with the real comparator (no dependence on package sort)
	for i := 1; i < len(vkPool); i++ {
		for j := i; j > 0 && vkPool[j].Compare(vkPool[j-1]) < 0; j-- {
			vkPool[j], vkPool[j-1] = vkPool[j-1], vkPool[j]
		}
	}
	vkRank = map[resolve.VersionKey]int{}
	for i, k := range vkPool {
		vkRank[k] = i
	}

	mk := func(keys []dep.AttrKey, kv ...string) dep.Type {
		t := dep.NewType(keys...)
		for i := 0; i+1 < len(kv); i += 2 {
			k, _ := strconv.Atoi(kv[i])
			t.AddAttr(dep.AttrKey(k), kv[i+1])
		}
		return t
	}
	sc := strconv.Itoa(int(dep.Scope))
	xt := strconv.Itoa(int(dep.XTest))
	ka := strconv.Itoa(int(dep.KnownAs))
	mc := strconv.Itoa(int(dep.MavenClassifier))
	mt := strconv.Itoa(int(dep.MavenArtifactType))
	typPool = []dep.Type{
		mk(nil),
		mk([]dep.AttrKey{dep.Dev}),
		mk([]dep.AttrKey{dep.Opt}),
		mk([]dep.AttrKey{dep.Test}),
		mk([]dep.AttrKey{dep.Dev, dep.Opt}),
		mk(nil, sc, "peer"),
		mk(nil, sc, "bundle"),
		mk(nil, sc, ""),
		mk([]dep.AttrKey{dep.Dev}, sc, "peer"),
		mk(nil, xt, ""),
		mk(nil, ka, "x"),
		mk(nil, ka, "y"),
		mk(nil, sc, "peer", ka, "x"),
		mk(nil, sc, "peer", ka, "y"),
		// same value on the highest key, different values on a lower one
		mk(nil, sc, "bundle", ka, "x"),
		mk(nil, sc, "", ka, "x"),
		mk(nil, mc, "sources", mt, "jar"),
		mk(nil, mc, "tests", mt, "jar"),
		mk(nil, mc, "tests", mt, "pom"),
		mk([]dep.AttrKey{dep.Opt}, mc, "tests", mt, "jar"),
	}
	for i := 1; i < len(typPool); i++ {
		for j := i; j > 0 && typPool[j].Compare(typPool[j-1]) < 0; j-- {
			typPool[j], typPool[j-1] = typPool[j-1], typPool[j]
		}
	}
}

func vkTotal() bool {
	for i := range vkPool {
		if vkPool[i].Compare(vkPool[i]) != 0 {
			return false
		}
		for j := i + 1; j < len(vkPool); j++ {
			if !(vkPool[i].Compare(vkPool[j]) < 0 && vkPool[j].Compare(vkPool[i]) > 0) {
				return false
			}
		}
	}
	return true
}

func typTotal() bool {
	for i := range typPool {
		if typPool[i].Compare(typPool[i]) != 0 {
			return false
		}
		for j := i + 1; j < len(typPool); j++ {
			if !(typPool[i].Compare(typPool[j]) < 0 && typPool[j].Compare(typPool[i]) > 0) {
				return false
			}
		}
	}
	return true
}

func typRank(t dep.Type) int {
	for i := range typPool {
		if typPool[i].Compare(t) == 0 && t.Compare(typPool[i]) == 0 {
			return i
		}
	}
	return -1
}

func joinOrDash(s []string) string {
	if len(s) == 0 {
		return "-"
	}
	return strings.Join(s, ",")
}

// enc renders the payload "v=... e=... err=...".
func (g *graph) enc() string {
	var v, e, er []string
	for i, n := range g.nodes {
		v = append(v, strconv.Itoa(n.ver))
		for _, x := range n.errs {
			er = append(er, fmt.Sprintf("%d:%d:%s", i, x.req, fw.Hx(x.msg)))
		}
	}
	for _, x := range g.edges {
		e = append(e, fmt.Sprintf("%d>%d:%s:%d", x.s, x.d, fw.Hx(x.req), x.typ))
	}
	return "v=" + joinOrDash(v) + " e=" + joinOrDash(e) + " err=" + joinOrDash(er)
}

func listField(pfx, s string) ([]string, bool) {
	if !strings.HasPrefix(s, pfx) {
		return nil, false
	}
	s = s[len(pfx):]
	if s == "-" {
		return nil, true
	}
	return strings.Split(s, ","), true
}

func atoi(s string) (int, bool) {
	if s == "" || len(s) > 9 {
		return 0, false
	}
	for _, c := range s {
		if c < '0' || c > '9' {
			return 0, false
		}
	}
	n, _ := strconv.Atoi(s)
	return n, true
}

func unhex(s string) (string, bool) {
	if s == "-" {
		return "", true
	}
	if len(s)%2 != 0 || s == "" {
		return "", false
	}
	for _, c := range s {
		if !(c >= '0' && c <= '9' || c >= 'a' && c <= 'f') {
			return "", false
		}
	}
	return fw.Unhx(s), true
}

// dec parses the three payload fields; ok=false on syntax errors or an error
// attached to a node that does not exist.
func dec(v, e, er string) (*graph, bool) {
	g := &graph{}
	vs, ok := listField("v=", v)
	if !ok {
		return nil, false
	}
	for _, s := range vs {
		r, ok := atoi(s)
		if !ok {
			return nil, false
		}
		g.nodes = append(g.nodes, gnode{ver: r})
	}
	es, ok := listField("e=", e)
	if !ok {
		return nil, false
	}
	for _, s := range es {
		p := strings.Split(s, ":")
		if len(p) != 3 {
			return nil, false
		}
		sd := strings.Split(p[0], ">")
		if len(sd) != 2 {
			return nil, false
		}
		a, ok1 := atoi(sd[0])
		b, ok2 := atoi(sd[1])
		rq, ok3 := unhex(p[1])
		t, ok4 := atoi(p[2])
		if !(ok1 && ok2 && ok3 && ok4) {
			return nil, false
		}
		g.edges = append(g.edges, gedge{a, b, rq, t})
	}
	ers, ok := listField("err=", er)
	if !ok {
		return nil, false
	}
	for _, s := range ers {
		p := strings.Split(s, ":")
		if len(p) != 3 {
			return nil, false
		}
		n, ok1 := atoi(p[0])
		r, ok2 := atoi(p[1])
		m, ok3 := unhex(p[2])
		if !(ok1 && ok2 && ok3) || n >= len(g.nodes) {
			return nil, false
		}
		g.nodes[n].errs = append(g.nodes[n].errs, nerr{r, m})
	}
	return g, true
}

func decLine(line string) (*graph, bool) {
	f := strings.Fields(line)
	if len(f) != 5 || f[0] != "C13" || f[1] != "gcanon" {
		return nil, false
	}
	return dec(f[2], f[3], f[4])
}

func decResult(res string) (*graph, bool) {
	f := strings.Fields(res)
	if len(f) != 4 || f[0] != "ok" {
		return nil, false
	}
	return dec(f[1], f[2], f[3])
}

// toReal builds the real graph through the public API. Edges whose endpoints are
// not nodes cannot be added with AddEdge; they are appended to the exported
// Edges field (the malformed stream: Canon then indexes out of range).
func (g *graph) toReal() (*resolve.Graph, bool) {
	rg := &resolve.Graph{}
	for _, n := range g.nodes {
		if n.ver >= len(vkPool) {
			return nil, false
		}
		id := rg.AddNode(vkPool[n.ver])
		for _, x := range n.errs {
			if x.req >= len(vkPool) {
				return nil, false
			}
			if err := rg.AddError(id, vkPool[x.req], x.msg); err != nil {
				return nil, false
			}
		}
	}
	for _, x := range g.edges {
		if x.typ >= len(typPool) {
			return nil, false
		}
		t := typPool[x.typ].Clone()
		if err := rg.AddEdge(resolve.NodeID(x.s), resolve.NodeID(x.d), x.req, t); err != nil {
			rg.Edges = append(rg.Edges, resolve.Edge{From: resolve.NodeID(x.s), To: resolve.NodeID(x.d), Requirement: x.req, Type: t})
		}
	}
	return rg, true
}

// fromReal encodes a real graph; unknown contents become rank 999999 (never
// produced by the model, so they surface as a correspondence mismatch).
func fromReal(rg *resolve.Graph) *graph {
	g := &graph{}
	rk := func(k resolve.VersionKey) int {
		if r, ok := vkRank[k]; ok {
			return r
		}
		return 999999
	}
	for _, n := range rg.Nodes {
		gn := gnode{ver: rk(n.Version)}
		for _, x := range n.Errors {
			gn.errs = append(gn.errs, nerr{rk(x.Req), x.Error})
		}
		g.nodes = append(g.nodes, gn)
	}
	for _, x := range rg.Edges {
		t := typRank(x.Type)
		if t < 0 {
			t = 999999
		}
		g.edges = append(g.edges, gedge{int(x.From), int(x.To), x.Requirement, t})
	}
	return g
}

// content is a node's content with its errors sorted (as text), used by the
// oracles only (multisets up to error order).
func (n gnode) content() string {
	var es []string
	for _, x := range n.errs {
		es = append(es, fmt.Sprintf("%d:%s", x.req, fw.Hx(x.msg)))
	}
	sort.Strings(es)
	return fmt.Sprintf("%d[%s]", n.ver, strings.Join(es, " "))
}

// invariants returns the root content, the sorted node contents and the sorted
// content-edges ("from-content > to-content : req : type"); ok=false if an edge
// endpoint is not a node.
func (g *graph) invariants() (root string, nodes, edges []string, ok bool) {
	cs := make([]string, len(g.nodes))
	for i, n := range g.nodes {
		cs[i] = n.content()
	}
	if len(cs) > 0 {
		root = cs[0]
	}
	nodes = append([]string(nil), cs...)
	sort.Strings(nodes)
	for _, e := range g.edges {
		if e.s >= len(cs) || e.d >= len(cs) {
			return "", nil, nil, false
		}
		edges = append(edges, fmt.Sprintf("%s>%s:%s:%d", cs[e.s], cs[e.d], fw.Hx(e.req), e.typ))
	}
	sort.Strings(edges)
	return root, nodes, edges, true
}

func eqStrs(a, b []string) bool {
	if len(a) != len(b) {
		return false
	}
	for i := range a {
		if a[i] != b[i] {
			return false
		}
	}
	return true
}

// hasDupNodes: two nodes with equal content (errors sorted).
func (g *graph) hasDupNodes() bool {
	seen := map[string]bool{}
	for _, n := range g.nodes {
		c := n.content()
		if seen[c] {
			return true
		}
		seen[c] = true
	}
	return false
}

// encNode renders a node for the ncmp op: <r>;<r>:<msghex>,...
func encNode(n gnode) string {
	var es []string
	for _, x := range n.errs {
		es = append(es, fmt.Sprintf("%d:%s", x.req, fw.Hx(x.msg)))
	}
	return fmt.Sprintf("%d;%s", n.ver, joinOrDash(es))
}

func decNode(s string) (gnode, bool) {
	p := strings.Split(s, ";")
	if len(p) != 2 {
		return gnode{}, false
	}
	r, ok := atoi(p[0])
	if !ok || r >= len(vkPool) {
		return gnode{}, false
	}
	n := gnode{ver: r}
	if p[1] != "-" {
		for _, x := range strings.Split(p[1], ",") {
			q := strings.Split(x, ":")
			if len(q) != 2 {
				return gnode{}, false
			}
			rr, ok1 := atoi(q[0])
			m, ok2 := unhex(q[1])
			if !(ok1 && ok2) || rr >= len(vkPool) {
				return gnode{}, false
			}
			n.errs = append(n.errs, nerr{rr, m})
		}
	}
	return n, true
}

func (n gnode) toReal() resolve.Node {
	rn := resolve.Node{Version: vkPool[n.ver]}
	for _, x := range n.errs {
		rn.Errors = append(rn.Errors, resolve.NodeError{Req: vkPool[x.req], Error: x.msg})
	}
	return rn
}
