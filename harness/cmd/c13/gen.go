package main

import (
	"fmt"
	"math/rand"
	"sort"
	"strings"

	"verifharness/fw"
)

// ---------- graph utilities ----------

func (g *graph) clone() *graph {
	h := &graph{}
	for _, n := range g.nodes {
		h.nodes = append(h.nodes, gnode{n.ver, append([]nerr(nil), n.errs...)})
	}
	h.edges = append([]gedge(nil), g.edges...)
	return h
}

// relabel returns the graph with node i moved to position perm[i] (perm[0] = 0).
// Edge and error order are kept.
func (g *graph) relabel(perm []int) *graph {
	h := &graph{nodes: make([]gnode, len(g.nodes))}
	for i, n := range g.nodes {
		h.nodes[perm[i]] = gnode{n.ver, append([]nerr(nil), n.errs...)}
	}
	for _, e := range g.edges {
		h.edges = append(h.edges, gedge{perm[e.s], perm[e.d], e.req, e.typ})
	}
	return h
}

func (g *graph) sortEdges() {
	sort.SliceStable(g.edges, func(i, j int) bool {
		a, b := g.edges[i], g.edges[j]
		if a.s != b.s {
			return a.s < b.s
		}
		if a.d != b.d {
			return a.d < b.d
		}
		if a.req != b.req {
			return a.req < b.req
		}
		return a.typ < b.typ
	})
}

func (g *graph) shuffle(r *rand.Rand) {
	r.Shuffle(len(g.edges), func(i, j int) { g.edges[i], g.edges[j] = g.edges[j], g.edges[i] })
	for k := range g.nodes {
		es := g.nodes[k].errs
		r.Shuffle(len(es), func(i, j int) { es[i], es[j] = es[j], es[i] })
	}
}

// perms returns all permutations of 0..n-1 that fix 0.
func perms(n int) [][]int {
	var out [][]int
	p := make([]int, n)
	used := make([]bool, n)
	var rec func(i int)
	rec = func(i int) {
		if i == n {
			out = append(out, append([]int(nil), p...))
			return
		}
		for v := 1; v < n; v++ {
			if !used[v] {
				used[v] = true
				p[i] = v
				rec(i + 1)
				used[v] = false
			}
		}
	}
	if n == 0 {
		return [][]int{{}}
	}
	p[0] = 0
	rec(1)
	return out
}

func randPerm(r *rand.Rand, n int) []int {
	p := make([]int, n)
	if n == 0 {
		return p
	}
	q := r.Perm(n - 1)
	for i := 1; i < n; i++ {
		p[i] = q[i-1] + 1
	}
	return p
}

// ---------- running a case ----------

type runner struct {
	c *fw.Ctx
}

func (rn *runner) op(g *graph) (int, string) { return rn.c.Op("C13 gcanon " + g.enc()) }

// single runs one graph with the per-graph oracles (preserve, idem) and the
// distribution counts; returns its op index and result.
func (rn *runner) single(stream string, g *graph) (int, string) {
	c := rn.c
	i, res := rn.op(g)
	// preserve
	if bad, _ := recheck("preserve", []string{"C13 gcanon " + g.enc()}, []string{res}); bad {
		c.Check("preserve", i)
	} else {
		c.Tally(1)
	}
	dup := g.hasDupNodes()
	switch {
	case strings.HasPrefix(res, "ok "):
		if dup {
			c.Count(stream + ".ok-bfs")
		} else {
			c.Count(stream + ".ok-nodup")
		}
		if len(g.nodes) >= 2 {
			c.Nontrivial(res)
		}
		// idem
		j, res2 := c.Op("C13 gcanon " + res[3:])
		if res2 != res {
			c.Check("idem", i, j)
		} else {
			c.Tally(1)
		}
	case res == "err":
		c.Count(stream + ".err-" + errKind(g))
	default:
		c.Count(stream + "." + res)
	}
	return i, res
}

// pair checks iso between two already-run ops.
func (rn *runner) pair(i int, ri string, j int, rj string) {
	if ri != rj {
		rn.c.Check("iso", i, j)
	} else {
		rn.c.Tally(1)
	}
}

// ---------- exhaustive small scope ----------

type nlabel struct {
	ver  int
	errs []nerr
}
type elabel struct {
	req string
	typ int
}

// exhaustive enumerates every graph with n nodes whose node labels come from
// labs, and where each ordered pair of nodes (self-loops if loops) carries one of
// the edge-label subsets in opts; maxEdges < 0 means no bound. keep selects a
// deterministic sample (nil = all). Every graph is run; every graph is paired
// with all its renumberings fixing the root.
func (rn *runner) exhaustive(name string, n int, labs []nlabel, opts [][]elabel, loops bool, maxEdges int, keep func(idx int) bool) {
	c := rn.c
	var pairs [][2]int
	for s := 0; s < n; s++ {
		for d := 0; d < n; d++ {
			if s != d || loops {
				pairs = append(pairs, [2]int{s, d})
			}
		}
	}
	ps := perms(n)
	lab := make([]int, n)
	choice := make([]int, len(pairs))
	idx := 0
	total, kept := 0, 0
	var recE func(k, edges int)
	emit := func() {
		total++
		idx++
		if keep != nil && !keep(idx) {
			return
		}
		kept++
		g := &graph{}
		for i := 0; i < n; i++ {
			g.nodes = append(g.nodes, gnode{labs[lab[i]].ver, append([]nerr(nil), labs[lab[i]].errs...)})
		}
		for k, p := range pairs {
			for _, l := range opts[choice[k]] {
				g.edges = append(g.edges, gedge{p[0], p[1], l.req, l.typ})
			}
		}
		g.sortEdges()
		i, ri := rn.single(name, g)
		if idx%5 == 0 && len(g.edges) > 1 { // the same graph with its edges listed in reverse order
			h := g.clone()
			for a, b := 0, len(h.edges)-1; a < b; a, b = a+1, b-1 {
				h.edges[a], h.edges[b] = h.edges[b], h.edges[a]
			}
			j, rj := rn.op(h)
			rn.pair(i, ri, j, rj)
			c.Count(name + ".reversed-edge-order")
		}
		for _, p := range ps[1:] {
			h := g.relabel(p)
			h.sortEdges()
			var j int
			var rj string
			if keep == nil {
				j, rj = rn.op(h) // h is itself enumerated: run it there, only pair here
			} else {
				j, rj = rn.single(name, h)
			}
			rn.pair(i, ri, j, rj)
		}
	}
	recE = func(k, edges int) {
		if k == len(pairs) {
			emit()
			return
		}
		for o := range opts {
			ne := edges + len(opts[o])
			if maxEdges >= 0 && ne > maxEdges {
				continue
			}
			choice[k] = o
			recE(k+1, ne)
		}
	}
	var recL func(i int)
	recL = func(i int) {
		if i == n {
			recE(0, 0)
			return
		}
		for l := range labs {
			lab[i] = l
			recL(i + 1)
		}
	}
	recL(0)
	mode := "exhaustive"
	if keep != nil {
		mode = "sampled"
	}
	bound := ""
	if maxEdges >= 0 {
		bound = fmt.Sprintf(",edges<=%d", maxEdges)
	}
	c.Note(fmt.Sprintf("%s: n=%d labels=%d edge-options/pair=%d loops=%v%s: %s %d of %d graphs, each with all %d renumberings",
		name, n, len(labs), len(opts), loops, bound, mode, kept, total, len(ps)))
	for i := 0; i < kept; i++ {
		c.Count(name + ".graphs")
	}
}

// ---------- random graphs ----------

var reqPool = []string{"", "*", "^1", "^1.0", "a", "\xff", "\x7f", "^"}
var msgPool = []string{"", "e", "e2", "not found", "\xff", "\xc3\xa9", "E"}

func randGraph(r *rand.Rand) *graph {
	var n int
	switch k := r.Intn(20); {
	case k < 1:
		n = 1
	case k < 12:
		n = 2 + r.Intn(5)
	case k < 18:
		n = 7 + r.Intn(9)
	default:
		n = 16 + r.Intn(25)
	}
	// few distinct contents, so that duplicates (also of the root) are common
	nk := 1 + r.Intn(4)
	if r.Intn(4) == 0 {
		nk = 1 + r.Intn(n+1)
	}
	keys := make([]int, nk)
	for i := range keys {
		keys[i] = r.Intn(len(vkPool))
	}
	nt := 1 + r.Intn(3)
	typs := make([]int, nt)
	for i := range typs {
		typs[i] = r.Intn(len(typPool))
	}
	nr := 1 + r.Intn(3)
	reqs := make([]string, nr)
	for i := range reqs {
		reqs[i] = reqPool[r.Intn(len(reqPool))]
	}
	g := &graph{}
	errRate := []int{0, 0, 5, 2}[r.Intn(4)]
	for i := 0; i < n; i++ {
		nd := gnode{ver: keys[r.Intn(nk)]}
		if errRate > 0 && r.Intn(errRate) == 0 {
			for k := 1 + r.Intn(3); k > 0; k-- {
				nd.errs = append(nd.errs, nerr{keys[r.Intn(nk)], msgPool[r.Intn(2+r.Intn(len(msgPool)-1))]})
			}
		}
		g.nodes = append(g.nodes, nd)
	}
	// spanning structure: most nodes get a parent among the earlier nodes; in
	// "careful" mode a parent never gets two children of equal content, so that
	// the BFS labelling of graphs with duplicates succeeds often.
	careful := r.Intn(3) != 0
	kids := make([]map[string]bool, n)
	for i := range kids {
		kids[i] = map[string]bool{}
	}
	for i := 1; i < n; i++ {
		if r.Intn(12) == 0 {
			continue
		}
		ci := g.nodes[i].content()
		p := r.Intn(i)
		for try := 0; careful && kids[p][ci] && try < 8; try++ {
			p = r.Intn(i)
		}
		if careful && kids[p][ci] {
			// make the content distinct by an error instead
			g.nodes[i].errs = append(g.nodes[i].errs, nerr{keys[0], fmt.Sprintf("u%d", i)})
			ci = g.nodes[i].content()
		}
		kids[p][ci] = true
		g.edges = append(g.edges, gedge{p, i, reqs[r.Intn(nr)], typs[r.Intn(nt)]})
	}
	for k := r.Intn(n + 2); k > 0; k-- {
		s, d := r.Intn(n), r.Intn(n)
		switch r.Intn(6) {
		case 0:
			d = s // self-loop
		case 1:
			if len(g.edges) > 0 { // parallel edge
				e := g.edges[r.Intn(len(g.edges))]
				s, d = e.s, e.d
			}
		case 2:
			if len(g.edges) > 0 { // back edge (cycle)
				e := g.edges[r.Intn(len(g.edges))]
				s, d = e.d, e.s
			}
		}
		if careful && s != d && kids[s][g.nodes[d].content()] && r.Intn(4) != 0 {
			// keep "no two equal children" mostly intact: point at an existing child or skip
			continue
		}
		kids[s][g.nodes[d].content()] = true
		g.edges = append(g.edges, gedge{s, d, reqs[r.Intn(nr)], typs[r.Intn(nt)]})
	}
	g.shuffle(r)
	return g
}

func sizeClass(n int) string {
	switch {
	case n <= 1:
		return "n=1"
	case n <= 6:
		return "n=2-6"
	case n <= 15:
		return "n=7-15"
	}
	return "n=16-40"
}

// ---------- Run ----------

func run(c *fw.Ctx) {
	rn := &runner{c}
	r := c.Rng

	// comparator assumptions of the rank encoding
	for _, o := range []string{"vkorder", "typeorder"} {
		i, _ := c.Op("C13 " + o)
		c.Check("total", i)
	}

	// Node.Compare over a pool of nodes: all pairs run, laws in memory
	var pool []gnode
	for _, v := range []int{0, 1, 40, 95} {
		pool = append(pool, gnode{ver: v})
		for _, es := range [][]nerr{
			{{0, ""}}, {{0, "a"}}, {{1, ""}}, {{0, "\xff"}}, {{0, "a"}, {0, ""}}, {{0, ""}, {0, "a"}},
			{{0, "ab"}}, {{0, "a"}, {1, ""}}, {{1, ""}, {0, "a"}}, {{0, ""}, {0, ""}},
		} {
			pool = append(pool, gnode{v, es})
		}
	}
	np := len(pool)
	sg := make([][]int, np)
	ix := make([][]int, np)
	for a := range pool {
		sg[a] = make([]int, np)
		ix[a] = make([]int, np)
		for b := range pool {
			i, res := c.Opf("C13 ncmp %s %s", encNode(pool[a]), encNode(pool[b]))
			ix[a][b], sg[a][b] = i, sgnOf(res)
			c.Check("cmp-eq", i)
		}
	}
	for a := range pool {
		for b := range pool {
			if sg[a][b] != -sg[b][a] || sg[a][b] == 9 {
				c.Check("cmp-antisym", ix[a][b], ix[b][a])
			} else {
				c.Tally(1)
			}
			for d := range pool {
				if sg[a][b] <= 0 && sg[b][d] <= 0 {
					want := -1
					if sg[a][b] == 0 && sg[b][d] == 0 {
						want = 0
					}
					if sg[a][d] != want {
						c.Check("cmp-trans", ix[a][b], ix[b][d], ix[a][d])
						continue
					}
				}
				c.Tally(1)
			}
		}
	}
	c.Count("ncmp.pairs")

	// small-scope exhaustive. Contents: k0 < k1 are two version keys; the label
	// alphabets contain equal contents on purpose (duplicates, also of the root).
	k0, k1 := 5, 9
	lab2 := []nlabel{{k0, nil}, {k1, nil}}
	lab3 := []nlabel{{k0, nil}, {k1, nil}, {k0, []nerr{{k1, "e"}}}}
	none := []elabel{}
	l1 := []elabel{{"", 0}}
	l2 := []elabel{{"a", 1}}
	l12 := []elabel{{"", 0}, {"a", 1}}
	l1p := []elabel{{"", 0}, {"", 1}} // parallel edges differing in type only
	one := [][]elabel{none, l1}
	four := [][]elabel{none, l1, l2, l12}
	three := [][]elabel{none, l1, l1p}

	rn.exhaustive("exh.n1", 1, lab3, four, true, -1, nil)
	rn.exhaustive("exh.n2", 2, lab3, four, true, -1, nil)
	rn.exhaustive("exh.n3.single", 3, lab3, one, true, -1, nil)
	if !c.Thor {
		rn.exhaustive("exh.n3.parallel", 3, lab2, three, true, -1, func(i int) bool { return i%16 == int(c.Seed&15) })
		rn.exhaustive("exh.n4.single", 4, lab2, one, false, -1, nil)
	} else {
		rn.exhaustive("exh.n3.parallel", 3, lab3, three, true, -1, nil)
		rn.exhaustive("exh.n4.single", 4, lab3, one, false, -1, nil)
		rn.exhaustive("exh.n4.loops", 4, lab2, one, true, -1, nil)
		rn.exhaustive("exh.n5.single", 5, lab2, one, false, 5, nil)
		rn.exhaustive("exh.n5.more", 5, lab2, one, false, -1, func(i int) bool { return (i*2654435761+int(c.Seed))%2039 == 0 })
	}

	// random graphs with random renumberings and shuffles
	nrand := c.N(20000, 300000)
	for it := 0; it < nrand; it++ {
		g := randGraph(r)
		c.Count("rand." + sizeClass(len(g.nodes)))
		i, ri := rn.single("rand", g)
		if it < 6 {
			c.Sample("C13 gcanon " + g.enc() + "  =>  " + ri)
		}
		for k := 0; k < 2; k++ {
			h := g.relabel(randPerm(r, len(g.nodes)))
			h.shuffle(r)
			j, rj := rn.single("rand.relabelled", h)
			rn.pair(i, ri, j, rj)
		}
	}

	// malformed: an edge endpoint that is not a node (Canon indexes out of range)
	for it := 0; it < c.N(200, 2000); it++ {
		g := randGraph(r)
		n := len(g.nodes)
		e := gedge{r.Intn(n), n + r.Intn(3), "", 0}
		if r.Intn(2) == 0 {
			e.s, e.d = e.d, e.s
		}
		g.edges = append(g.edges, e)
		g.shuffle(r)
		i, _ := rn.op(g)
		c.Check("preserve", i)
		c.Count("malformed")
	}
}
