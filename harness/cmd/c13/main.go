// c13 is the correspondence/oracle harness for property C13 (Graph.Canon yields
// one representative per isomorphism class). See codec.go for the wire format.
package main

import (
	"fmt"
	"strings"
	"time"

	"verifharness/fw"
)

const rule = "streams: (1) corpus; (2) comparator pool (ncmp over all pairs of a node pool + order laws); " +
	"(3) small-scope exhaustive labelled rooted graphs (bounds listed in distribution keys exh.*; every graph is paired " +
	"with all its renumberings fixing the root); (4) random graphs of 1..40 nodes drawn from few distinct contents " +
	"(duplicates, duplicates of the root, parallel edges with different requirement/type, self-loops, cycles, node errors), " +
	"each with random renumberings and shuffles of edge and per-node error order; (5) malformed graphs (edge endpoints that " +
	"are not nodes). A case is distinct by its op line; non-trivial = Canon succeeded on a graph with at least two nodes, " +
	"counted by distinct canonical form."

// exec runs the real code on one op.
func exec(f []string) string {
	switch f[0] {
	case "gcanon":
		if len(f) != 4 {
			return "bad-op"
		}
		g, ok := dec(f[1], f[2], f[3])
		if !ok {
			return "bad-op"
		}
		rg, ok := g.toReal()
		if !ok {
			return "bad-op"
		}
		rg.Error = "graph-wide error"
		rg.Duration = 7 * time.Second
		err := rg.Canon() // may panic: recovered by the framework
		if rg.Error != "graph-wide error" || rg.Duration != 7*time.Second {
			return "ok meta-changed"
		}
		if err != nil {
			return "err"
		}
		return "ok " + fromReal(rg).enc()
	case "ncmp":
		if len(f) != 3 {
			return "bad-op"
		}
		a, ok1 := decNode(f[1])
		b, ok2 := decNode(f[2])
		if !ok1 || !ok2 {
			return "bad-op"
		}
		return fmt.Sprintf("ok %d", fw.Sgn(a.toReal().Compare(b.toReal())))
	case "vkorder":
		if vkTotal() {
			return "ok total"
		}
		return "ok nontotal"
	case "typeorder":
		if typTotal() {
			return "ok total"
		}
		return "ok nontotal"
	}
	return "bad-op"
}

// errKind re-runs Canon to learn which failure it was (distribution counts only;
// never part of a result).
func errKind(g *graph) string {
	rg, ok := g.toReal()
	if !ok {
		return "bad"
	}
	err := rg.Canon()
	switch {
	case err == nil:
		return "none"
	case strings.Contains(err.Error(), "unreachable"):
		return "unreachable"
	case strings.Contains(err.Error(), "duplicate direct"):
		return "dupdirect"
	}
	return "other"
}

// recheck evaluates an oracle from op lines and their Go results alone.
//
//	iso       two gcanon ops on isomorphic graphs: results must be identical
//	idem      a gcanon op and the gcanon op of its result: second result = first result
//	preserve  one gcanon op: on ok, same root content, same multiset of (node, errors),
//	          same multiset of (from-content, to-content, requirement, type) edges
//	cmp-antisym / cmp-trans / cmp-eq   Node.Compare is a total order whose ties are identical nodes
//	total     vkorder/typeorder answered "ok total"
func recheck(oracle string, ops, res []string) (bool, string) {
	switch oracle {
	case "iso":
		if len(ops) != 2 {
			return true, "iso needs two ops"
		}
		a, ok1 := decLine(ops[0])
		b, ok2 := decLine(ops[1])
		if !ok1 || !ok2 {
			return true, "iso: undecodable op"
		}
		ra, na, ea, oka := a.invariants()
		rb, nb, eb, okb := b.invariants()
		if !oka || !okb || ra != rb || !eqStrs(na, nb) || !eqStrs(ea, eb) {
			return true, "iso: the two inputs are not relabelings of each other (generator or corpus error)"
		}
		if res[0] != res[1] {
			return true, "isomorphic graphs canonicalise differently: " + res[0] + "  VS  " + res[1]
		}
		return false, ""
	case "idem":
		if len(ops) != 2 {
			return true, "idem needs two ops"
		}
		if !strings.HasPrefix(res[0], "ok ") {
			return false, ""
		}
		if ops[1] != "C13 gcanon "+res[0][3:] {
			return true, "idem: second op is not the first op's result"
		}
		if res[1] != res[0] {
			return true, "Canon is not idempotent: " + res[0] + "  THEN  " + res[1]
		}
		return false, ""
	case "preserve":
		if len(ops) != 1 {
			return true, "preserve needs one op"
		}
		if !strings.HasPrefix(res[0], "ok ") {
			if res[0] == "err" {
				return false, ""
			}
			a, ok := decLine(ops[0])
			if ok {
				if _, _, _, wf := a.invariants(); !wf && res[0] == "panic" {
					return false, "" // malformed stream: Go indexes out of range, as modelled
				}
			}
			return true, "unexpected result " + res[0]
		}
		a, ok1 := decLine(ops[0])
		b, ok2 := decResult(res[0])
		if !ok1 || !ok2 {
			return true, "preserve: undecodable"
		}
		ra, na, ea, oka := a.invariants()
		rb, nb, eb, okb := b.invariants()
		switch {
		case !oka || !okb:
			return true, "edge endpoint out of range"
		case ra != rb:
			return true, "root changed: " + ra + " -> " + rb
		case !eqStrs(na, nb):
			return true, "node multiset changed"
		case !eqStrs(ea, eb):
			return true, "edge multiset changed"
		}
		return false, ""
	case "cmp-antisym":
		if len(ops) != 2 {
			return true, "needs two ops"
		}
		return !(sgnOf(res[0]) == -sgnOf(res[1]) && sgnOf(res[0]) != 9), "Compare(a,b) != -Compare(b,a): " + res[0] + " " + res[1]
	case "cmp-trans":
		if len(ops) != 3 {
			return true, "needs three ops"
		}
		ab, bc, ac := sgnOf(res[0]), sgnOf(res[1]), sgnOf(res[2])
		if ab <= 0 && bc <= 0 {
			want := -1
			if ab == 0 && bc == 0 {
				want = 0
			}
			if ac != want {
				return true, fmt.Sprintf("a<=b (%d), b<=c (%d) but Compare(a,c)=%d", ab, bc, ac)
			}
		}
		return false, ""
	case "cmp-eq":
		if len(ops) != 1 {
			return true, "needs one op"
		}
		f := strings.Fields(ops[0])
		if len(f) != 4 {
			return true, "bad ncmp op"
		}
		if (f[2] == f[3]) != (sgnOf(res[0]) == 0) {
			return true, "Compare = 0 does not coincide with identical nodes: " + res[0]
		}
		return false, ""
	case "total":
		return res[0] != "ok total", "comparator is not a strict total order on the pool: " + res[0]
	}
	return true, "unknown oracle " + oracle
}

func sgnOf(res string) int {
	switch res {
	case "ok -1":
		return -1
	case "ok 0":
		return 0
	case "ok 1":
		return 1
	}
	return 9
}

func main() {
	fw.Main(&fw.Prop{
		ID:       "C13",
		Rule:     rule,
		Exec:     exec,
		Run:      run,
		Recheck:  recheck,
		Classify: func(string, []string, []string) string { return "" }, // no known-finding classes
	})
}
