package main

// Universes: an explicit, self-contained wire form (every string hex encoded),
// builders of LocalClients from it (in the given or a permuted insertion
// order), generators for npm / Maven / PyPI and a converter from the
// repository's own testdata universes.

import (
	"fmt"
	"math/rand"
	"os"
	"path/filepath"
	"sort"
	"strconv"
	"strings"

	"deps.dev/util/resolve"
	"deps.dev/util/resolve/dep"
	"deps.dev/util/resolve/verifx"
	"deps.dev/util/resolve/version"
	"verifharness/fw"
)

type kv struct {
	K int
	V string
}

type uReq struct {
	Name, Version string
	Attrs         []kv
}

type uVer struct {
	Version string
	Attrs   []kv
	Reqs    []uReq
}

type uPkg struct {
	Name string
	Vers []uVer
}

type universe struct {
	Sys  resolve.System
	Pkgs []uPkg
}

func sysName(s resolve.System) string {
	switch s {
	case resolve.NPM:
		return "npm"
	case resolve.Maven:
		return "maven"
	case resolve.PyPI:
		return "pypi"
	}
	return "?"
}

func sysOf(s string) (resolve.System, bool) {
	switch s {
	case "npm":
		return resolve.NPM, true
	case "maven":
		return resolve.Maven, true
	case "pypi":
		return resolve.PyPI, true
	}
	return 0, false
}

func encAttrs(as []kv) string {
	if len(as) == 0 {
		return "-"
	}
	p := make([]string, len(as))
	for i, a := range as {
		p[i] = fmt.Sprintf("%d=%s", a.K, fw.Hx(a.V))
	}
	return strings.Join(p, ",")
}

func decAttrs(s string) ([]kv, bool) {
	if s == "-" {
		return nil, true
	}
	var out []kv
	for _, p := range strings.Split(s, ",") {
		i := strings.IndexByte(p, '=')
		if i < 0 {
			return nil, false
		}
		k, err := strconv.Atoi(p[:i])
		if err != nil || k < -128 || k > 127 {
			return nil, false
		}
		out = append(out, kv{k, fw.Unhx(p[i+1:])})
	}
	return out, true
}

// encode renders the universe as one whitespace-free token:
// records separated by ';', fields by ':':
//
//	p:<name> ; v:<version>:<attrs> ; r:<name>:<requirement>:<attrs>
func (u *universe) encode() string {
	var rec []string
	for _, p := range u.Pkgs {
		rec = append(rec, "p:"+fw.Hx(p.Name))
		for _, v := range p.Vers {
			rec = append(rec, "v:"+fw.Hx(v.Version)+":"+encAttrs(v.Attrs))
			for _, r := range v.Reqs {
				rec = append(rec, "r:"+fw.Hx(r.Name)+":"+fw.Hx(r.Version)+":"+encAttrs(r.Attrs))
			}
		}
	}
	if len(rec) == 0 {
		return "-"
	}
	return strings.Join(rec, ";")
}

func decodeUniverse(sys resolve.System, s string) (*universe, bool) {
	u := &universe{Sys: sys}
	if s == "-" {
		return u, true
	}
	for _, rec := range strings.Split(s, ";") {
		f := strings.Split(rec, ":")
		switch {
		case f[0] == "p" && len(f) == 2:
			u.Pkgs = append(u.Pkgs, uPkg{Name: fw.Unhx(f[1])})
		case f[0] == "v" && len(f) == 3 && len(u.Pkgs) > 0:
			as, ok := decAttrs(f[2])
			if !ok {
				return nil, false
			}
			p := &u.Pkgs[len(u.Pkgs)-1]
			p.Vers = append(p.Vers, uVer{Version: fw.Unhx(f[1]), Attrs: as})
		case f[0] == "r" && len(f) == 4 && len(u.Pkgs) > 0 && len(u.Pkgs[len(u.Pkgs)-1].Vers) > 0:
			as, ok := decAttrs(f[3])
			if !ok {
				return nil, false
			}
			p := &u.Pkgs[len(u.Pkgs)-1]
			v := &p.Vers[len(p.Vers)-1]
			v.Reqs = append(v.Reqs, uReq{Name: fw.Unhx(f[1]), Version: fw.Unhx(f[2]), Attrs: as})
		default:
			return nil, false
		}
	}
	return u, true
}

// text is a human-readable rendering for replay details and samples.
func (u *universe) text() string {
	var b strings.Builder
	for _, p := range u.Pkgs {
		fmt.Fprintf(&b, "%s\n", p.Name)
		for _, v := range p.Vers {
			fmt.Fprintf(&b, "  %s %s\n", v.Version, encAttrsText(v.Attrs, false))
			for _, r := range v.Reqs {
				fmt.Fprintf(&b, "    %s@%s %s\n", r.Name, r.Version, encAttrsText(r.Attrs, true))
			}
		}
	}
	return b.String()
}

func encAttrsText(as []kv, isDep bool) string {
	if len(as) == 0 {
		return ""
	}
	var p []string
	for _, a := range as {
		name := ""
		if isDep {
			name = dep.AttrKey(a.K).String()
		} else {
			name = version.AttrKey(a.K).String()
		}
		if a.V == "" {
			p = append(p, name)
		} else {
			p = append(p, fmt.Sprintf("%s=%q", name, a.V))
		}
	}
	return "{" + strings.Join(p, ",") + "}"
}

type addItem struct {
	v    resolve.Version
	reqs []resolve.RequirementVersion
}

// items returns the AddVersion calls that build the universe, in universe
// order. Every call gets fresh slices and fresh attribute sets, so that two
// clients built from the same universe share no memory.
func (u *universe) items() []addItem {
	var out []addItem
	for _, p := range u.Pkgs {
		pk := resolve.PackageKey{System: u.Sys, Name: p.Name}
		for _, v := range p.Vers {
			it := addItem{v: resolve.Version{VersionKey: resolve.VersionKey{PackageKey: pk, VersionType: resolve.Concrete, Version: v.Version}}}
			for _, a := range v.Attrs {
				it.v.SetAttr(version.AttrKey(a.K), a.V)
			}
			for _, r := range v.Reqs {
				rv := resolve.RequirementVersion{VersionKey: resolve.VersionKey{
					PackageKey:  resolve.PackageKey{System: u.Sys, Name: r.Name},
					VersionType: resolve.Requirement, Version: r.Version}}
				for _, a := range r.Attrs {
					rv.Type.AddAttr(dep.AttrKey(a.K), a.V)
				}
				it.reqs = append(it.reqs, rv)
			}
			out = append(out, it)
		}
	}
	return out
}

// client builds a LocalClient; perm == nil is universe order, otherwise the
// AddVersion calls are issued in the order perm.
func (u *universe) client(perm []int) *resolve.LocalClient {
	its := u.items()
	c := resolve.NewLocalClient()
	if perm == nil {
		for _, it := range its {
			c.AddVersion(it.v, it.reqs)
		}
		return c
	}
	for _, i := range perm {
		c.AddVersion(its[i].v, its[i].reqs)
	}
	return c
}

type rootRef struct{ Name, Version string }

func (u *universe) allRoots() []rootRef {
	var rs []rootRef
	for _, p := range u.Pkgs {
		for _, v := range p.Vers {
			rs = append(rs, rootRef{p.Name, v.Version})
		}
	}
	return rs
}

func encRoots(rs []rootRef) string {
	if len(rs) == 0 {
		return "-"
	}
	p := make([]string, len(rs))
	for i, r := range rs {
		p[i] = fw.Hx(r.Name) + "/" + fw.Hx(r.Version)
	}
	return strings.Join(p, ",")
}

func decRoots(s string) ([]rootRef, bool) {
	if s == "-" {
		return nil, true
	}
	var out []rootRef
	for _, p := range strings.Split(s, ",") {
		f := strings.Split(p, "/")
		if len(f) != 2 {
			return nil, false
		}
		out = append(out, rootRef{fw.Unhx(f[0]), fw.Unhx(f[1])})
	}
	return out, true
}

// distinctKeys reports U1: no (package, version) pair is listed twice.
func (u *universe) distinctKeys() bool {
	seen := map[[2]string]bool{}
	for _, p := range u.Pkgs {
		for _, v := range p.Vers {
			k := [2]string{p.Name, v.Version}
			if seen[k] {
				return false
			}
			seen[k] = true
		}
	}
	return true
}

func (u *universe) size() (pk, vs, rq int) {
	for _, p := range u.Pkgs {
		pk++
		for _, v := range p.Vers {
			vs++
			rq += len(v.Reqs)
		}
	}
	return
}

func (u *universe) clone() *universe {
	n := &universe{Sys: u.Sys}
	for _, p := range u.Pkgs {
		np := uPkg{Name: p.Name}
		for _, v := range p.Vers {
			nv := uVer{Version: v.Version, Attrs: append([]kv(nil), v.Attrs...)}
			for _, r := range v.Reqs {
				nv.Reqs = append(nv.Reqs, uReq{r.Name, r.Version, append([]kv(nil), r.Attrs...)})
			}
			np.Vers = append(np.Vers, nv)
		}
		n.Pkgs = append(n.Pkgs, np)
	}
	return n
}

// ---------------------------------------------------------------- generators

func pick(r *rand.Rand, xs ...string) string { return xs[r.Intn(len(xs))] }

func subset(r *rand.Rand, pool []string, k int) []string {
	if k > len(pool) {
		k = len(pool)
	}
	idx := r.Perm(len(pool))[:k]
	sort.Ints(idx)
	out := make([]string, k)
	for i, j := range idx {
		out[i] = pool[j]
	}
	// Listing order of the versions inside the universe is itself random:
	// the default insertion order is not the sorted order.
	r.Shuffle(len(out), func(i, j int) { out[i], out[j] = out[j], out[i] })
	return out
}

var (
	npmVersions = []string{"1.0.0", "1.1.0", "1.2.0", "2.0.0", "2.1.0", "2.0.0-beta.1", "3.0.0-rc.1", "0.1.0", "0.2.0", "1.0.0-alpha", "v1.3.0", "1.0.0+build", "nonsense"}
	npmReqs     = []string{"^1.0.0", "~1.1.0", ">=1.0.0 <2.0.0", "*", "1.x", "2.x", "latest", "2.0.0-beta.1", "^2.0.0", ">=1.2.0", "^0.1.0", "<2.0.0 || >=2.1.0", ">=3.0.0-rc.0", "1.0.0 - 2.0.0", "^9.0.0", "", "next", "nonsense", "^1.0.0-0"}
	mvnVersions = []string{"1.0", "1.0.0", "1.1", "2.0-alpha-1", "2.0", "2.1", "3.0", "2.0-SNAPSHOT", "1", "2.0.0", "1.0-final", "x.y"}
	mvnReqs     = []string{"1.0", "1.1", "2.0", "3.0", "9.9", "1.0.0", "[1.0,2.0]", "[1.1,)", "(,2.0)", "[2.0]", "[1.0,1.1],[2.0,3.0]", "(1.0,2.0)", "[2.1,3.0]", "[1.0]", "[1,3)", "(,1.0]", "[9,)"}
	pyVersions  = []string{"1.0", "1.0.0", "1.1", "2.0rc1", "2.0", "2.1.dev1", "3.0", "1.0.post1", "2.0.0", "1!0.5", "2.0a1", "oops"}
	pyReqs      = []string{">=1.0", "<2.0", "==1.1", "~=1.0", "!=1.1", ">=1.0,<3.0", "", ">=2.0rc1", "<=2.0", ">1.0", "==2.*", ">=1.1,!=2.0", "<1.0", ">=2.0.dev0", "==1.0", "==1.0.0", "===1.0", ">=2.0a1", ">=9"}
	pyMarkers   = []string{`extra == "x"`, `extra == "y"`, `python_version >= "3"`, `python_version < "3"`, `sys_platform == "win32"`, `os_name == "posix" and extra == "x"`, `python_version >= "3" or extra == "y"`, `bogus marker`}
)

func genUniverse(r *rand.Rand, sys resolve.System, big bool) *universe {
	u := &universe{Sys: sys}
	n := 2 + r.Intn(6)
	if big {
		n = 5 + r.Intn(8)
	}
	names := make([]string, n)
	for i := range names {
		switch sys {
		case resolve.Maven:
			names[i] = fmt.Sprintf("g:p%d", i)
		case resolve.NPM:
			names[i] = fmt.Sprintf("p%d", i)
			if r.Intn(12) == 0 {
				names[i] = fmt.Sprintf("@s/p%d", i)
			}
			if r.Intn(20) == 0 {
				names[i] = fmt.Sprintf("P%d", i)
			}
		default:
			names[i] = fmt.Sprintf("p%d", i)
		}
	}
	var pool, reqs []string
	switch sys {
	case resolve.NPM:
		pool, reqs = npmVersions, npmReqs
	case resolve.Maven:
		pool, reqs = mvnVersions, mvnReqs
	default:
		pool, reqs = pyVersions, pyReqs
	}
	maxV := 5
	if big {
		maxV = 8
	}
	for _, name := range names {
		p := uPkg{Name: name}
		vs := subset(r, pool, 1+r.Intn(maxV))
		latest := -1
		if sys == resolve.NPM && r.Intn(2) == 0 {
			latest = r.Intn(len(vs))
		}
		for vi, vstr := range vs {
			v := uVer{Version: vstr}
			if vi == latest {
				tags := "latest"
				if r.Intn(4) == 0 {
					tags = "next,latest"
				}
				v.Attrs = append(v.Attrs, kv{int(version.Tags), tags})
			} else if sys == resolve.NPM && r.Intn(10) == 0 {
				v.Attrs = append(v.Attrs, kv{int(version.Tags), "next"})
			}
			if r.Intn(8) == 0 {
				v.Attrs = append(v.Attrs, kv{int(version.Blocked), ""})
			}
			if sys == resolve.Maven && r.Intn(10) == 0 {
				v.Attrs = append(v.Attrs, kv{int(version.Registries), "dep:central"})
			}
			nd := r.Intn(4)
			if r.Intn(6) == 0 {
				nd += 2
			}
			used := map[string]bool{}
			for j := 0; j < nd; j++ {
				q := names[r.Intn(n)]
				if r.Intn(25) == 0 {
					q = "missing"
				}
				if sys != resolve.Maven && used[q] { // U3 / U4
					continue
				}
				used[q] = true
				rq := uReq{Name: q, Version: pick(r, reqs...)}
				switch sys {
				case resolve.NPM:
					switch r.Intn(12) {
					case 0:
						rq.Attrs = []kv{{int(dep.Opt), ""}}
					case 1:
						rq.Attrs = []kv{{int(dep.Dev), ""}}
					case 2:
						rq.Attrs = []kv{{int(dep.Scope), "peer"}}
					case 3:
						rq.Attrs = []kv{{int(dep.Scope), "bundle"}}
					case 4:
						rq.Attrs = []kv{{int(dep.KnownAs), fmt.Sprintf("alias%d", r.Intn(3))}}
					}
				case resolve.Maven:
					switch r.Intn(14) {
					case 0:
						rq.Attrs = []kv{{int(dep.Test), ""}}
					case 1:
						rq.Attrs = []kv{{int(dep.Opt), ""}}
					case 2:
						rq.Attrs = []kv{{int(dep.Scope), "provided"}}
					case 3:
						rq.Attrs = []kv{{int(dep.Scope), "runtime"}}
					case 4:
						rq.Attrs = []kv{{int(dep.MavenExclusions), pick(r, names[r.Intn(n)], "*:*", "g:*", "*:p1")}}
					case 5:
						rq.Attrs = []kv{{int(dep.MavenClassifier), pick(r, "tests", "sources")}}
					case 6:
						rq.Attrs = []kv{{int(dep.MavenArtifactType), pick(r, "war", "pom", "test-jar")}}
					case 7:
						rq.Attrs = []kv{{int(dep.MavenDependencyOrigin), "management"}}
					case 8:
						rq.Attrs = []kv{{int(dep.MavenDependencyOrigin), "management"}, {int(dep.Scope), "test"}}
					}
				default:
					switch r.Intn(8) {
					case 0, 1:
						rq.Attrs = []kv{{int(dep.Environment), pick(r, pyMarkers...)}}
					case 2:
						rq.Attrs = []kv{{int(dep.EnabledDependencies), pick(r, "x", "y", "x,y")}}
					case 3:
						rq.Attrs = []kv{{int(dep.EnabledDependencies), "x"}, {int(dep.Environment), pick(r, pyMarkers...)}}
					}
				}
				v.Reqs = append(v.Reqs, rq)
			}
			p.Vers = append(p.Vers, v)
		}
		u.Pkgs = append(u.Pkgs, p)
	}
	return u
}

// ---------------------------------------------------------------- testdata

// fromClient converts a LocalClient (as built by the repository's test data
// parser) into the wire form.
func fromClient(sys resolve.System, c *resolve.LocalClient) *universe {
	u := &universe{Sys: sys}
	var names []string
	for pk := range c.PackageVersions {
		names = append(names, pk.Name)
	}
	sort.Strings(names)
	for _, n := range names {
		pk := resolve.PackageKey{System: sys, Name: n}
		vs := c.PackageVersions[pk]
		if len(vs) == 0 {
			continue
		}
		p := uPkg{Name: n}
		for _, v := range vs {
			if v.VersionType != resolve.Concrete {
				continue
			}
			uv := uVer{Version: v.Version}
			v.ForEachAttr(func(k version.AttrKey, val string) { uv.Attrs = append(uv.Attrs, kv{int(k), val}) })
			reqs, _ := c.Requirements(ctxBG, v.VersionKey)
			for _, r := range reqs {
				ur := uReq{Name: r.Name, Version: r.Version}
				t := r.Type.Clone()
				tp := &t
				for k := -128; k < 128; k++ {
					if k == 0 {
						continue
					}
					if k < 0 && (-k)&(-k-1) != 0 {
						continue // flag keys are single bits
					}
					if val, ok := tp.GetAttr(dep.AttrKey(k)); ok {
						ur.Attrs = append(ur.Attrs, kv{k, val})
					}
				}
				uv.Reqs = append(uv.Reqs, ur)
			}
			p.Vers = append(p.Vers, uv)
		}
		u.Pkgs = append(u.Pkgs, p)
	}
	return u
}

type corpusCase struct {
	name  string
	u     *universe
	roots []rootRef
}

// testdataUniverses loads every universe of util/resolve/<sys>/testdata/*.data
// with the roots its tests resolve.
func testdataUniverses(repo string, sys resolve.System) (out []corpusCase, notes []string) {
	dir := filepath.Join(repo, "util", "resolve", sysName(sys), "testdata")
	files, _ := filepath.Glob(filepath.Join(dir, "*.data"))
	more, _ := filepath.Glob(filepath.Join(dir, "*", "*.data"))
	files = append(files, more...)
	sort.Strings(files)
	for _, f := range files {
		if _, err := os.Stat(f); err != nil {
			continue
		}
		var a *verifx.TestArtifact
		var err error
		func() {
			defer func() {
				if r := recover(); r != nil {
					err = fmt.Errorf("panic: %v", r)
				}
			}()
			a, err = verifx.ParseTestFiles(sys, f)
		}()
		if err != nil {
			notes = append(notes, fmt.Sprintf("testdata %s: not parsed (%v)", filepath.Base(f), err))
			continue
		}
		var names []string
		for n := range a.Universe {
			names = append(names, n)
		}
		sort.Strings(names)
		for _, n := range names {
			u := fromClient(sys, a.Universe[n])
			cc := corpusCase{name: filepath.Base(f) + "/" + n, u: u}
			have := map[rootRef]bool{}
			for _, r := range u.allRoots() {
				have[r] = true
			}
			seen := map[rootRef]bool{}
			for _, t := range a.Test {
				r := rootRef{t.VK.Name, t.VK.Version}
				if have[r] && !seen[r] {
					seen[r] = true
					cc.roots = append(cc.roots, r)
				}
			}
			for _, r := range u.allRoots() {
				if len(cc.roots) >= 12 {
					break
				}
				if !seen[r] {
					seen[r] = true
					cc.roots = append(cc.roots, r)
				}
			}
			out = append(out, cc)
		}
	}
	return
}
