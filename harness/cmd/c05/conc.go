package main

// The concurrency phase runs in a child process (this binary, mode
// "concserve"): a resolver that keeps unsynchronised shared state can die
// with a fatal runtime error ("concurrent map writes"), which no recover()
// catches; in-process that would take the whole harness - and every failure
// recorded so far - with it. The child serves requests line by line; if it
// dies while serving one, that history gets conc:0 and a new child is started.

import (
	"bufio"
	"bytes"
	"crypto/sha256"
	"encoding/hex"
	"fmt"
	"io"
	"os"
	"os/exec"
	"strings"
	"sync"
	"time"

	"deps.dev/util/resolve"
)

func shortHash(s string) string {
	h := sha256.Sum256([]byte(s))
	return hex.EncodeToString(h[:])[:16]
}

// concRun is the concurrent section itself: up to 16 goroutines over ONE
// client; npm and Maven share one resolver (npm's constructor documents
// that, Maven's resolver holds only the client), PyPI uses one resolver per
// goroutine (its caches are not locked). Returns one canonical graph text per
// task and whether the client reports the same afterwards.
func concRun(u *universe, tasks []rootRef) (results []string, dumpSame bool, diff string) {
	sys := u.Sys
	c := u.client(nil)
	before := dumpClient(c, u)
	shared := newResolver(sys, c)
	results = make([]string, len(tasks))
	var wg sync.WaitGroup
	gate := make(chan struct{})
	for w := 0; w < maxConc; w++ {
		wg.Add(1)
		go func(w int) {
			defer wg.Done()
			r := shared
			if sys == resolve.PyPI {
				r = newResolver(sys, c)
			}
			<-gate
			for i := w; i < len(tasks); i += maxConc {
				results[i] = resolveLater(r, sys, tasks[i], "")
			}
		}(w)
	}
	close(gate)
	wg.Wait()
	after := dumpClient(c, u)
	if after != before {
		return results, false, firstDiff(before, after)
	}
	return results, true, ""
}

// concServeMain: one request per line "<sys> <universe> tasks=<roots>", one
// response per line "ok <hash,hash,...> dump=<0|1>".
func concServeMain() {
	sc := bufio.NewScanner(os.Stdin)
	sc.Buffer(make([]byte, 1<<20), 1<<27)
	w := bufio.NewWriter(os.Stdout)
	for sc.Scan() {
		f := strings.Fields(sc.Text())
		resp := "bad"
		if len(f) == 3 && strings.HasPrefix(f[2], "tasks=") {
			if sys, ok := sysOf(f[0]); ok {
				u, ok1 := decodeUniverse(sys, f[1])
				tasks, ok2 := decRoots(strings.TrimPrefix(f[2], "tasks="))
				if ok1 && ok2 {
					res, same, _ := concRun(u, tasks)
					hs := make([]string, len(res))
					for i, r := range res {
						if r == "timeout" || r == "hang" {
							hs[i] = r
						} else {
							hs[i] = shortHash(r)
						}
					}
					resp = "ok " + strings.Join(hs, ",") + " dump=" + b01(same)
				}
			}
		}
		fmt.Fprintln(w, resp)
		w.Flush()
	}
}

type concChild struct {
	cmd    *exec.Cmd
	in     io.WriteCloser
	out    *bufio.Reader
	stderr *tailBuf
}

// tailBuf keeps the last bytes written to it.
type tailBuf struct {
	mu sync.Mutex
	b  []byte
}

func (t *tailBuf) Write(p []byte) (int, error) {
	t.mu.Lock()
	t.b = append(t.b, p...)
	if len(t.b) > 8192 {
		t.b = t.b[len(t.b)-8192:]
	}
	t.mu.Unlock()
	return len(p), nil
}

func (t *tailBuf) head(n int) string {
	t.mu.Lock()
	defer t.mu.Unlock()
	s := string(t.b)
	// the first lines of a Go fatal error say what happened
	if i := strings.Index(s, "fatal error"); i >= 0 {
		s = s[i:]
	}
	if len(s) > n {
		s = s[:n]
	}
	return s
}

var concPool = make(chan *concChild, 32)

func startConcChild() (*concChild, error) {
	exe, err := os.Executable()
	if err != nil {
		return nil, err
	}
	cmd := exec.Command(exe, "concserve")
	in, err := cmd.StdinPipe()
	if err != nil {
		return nil, err
	}
	out, err := cmd.StdoutPipe()
	if err != nil {
		return nil, err
	}
	tb := &tailBuf{}
	cmd.Stderr = tb
	if err := cmd.Start(); err != nil {
		return nil, err
	}
	return &concChild{cmd: cmd, in: in, out: bufio.NewReaderSize(out, 1<<16), stderr: tb}, nil
}

// concInChild runs the concurrent section in a child. crashed reports that
// the child died (with the head of its fatal error message).
func concInChild(u *universe, tasks []rootRef) (hashes []string, dumpSame bool, crashed string, err error) {
	var ch *concChild
	select {
	case ch = <-concPool:
	default:
		ch, err = startConcChild()
		if err != nil {
			return nil, false, "", err
		}
	}
	req := fmt.Sprintf("%s %s tasks=%s\n", sysName(u.Sys), u.encode(), encRoots(tasks))
	type reply struct {
		line string
		err  error
	}
	rc := make(chan reply, 1)
	go func() {
		if _, werr := io.WriteString(ch.in, req); werr != nil {
			rc <- reply{"", werr}
			return
		}
		var buf bytes.Buffer
		for {
			part, isPrefix, rerr := ch.out.ReadLine()
			buf.Write(part)
			if rerr != nil {
				rc <- reply{"", rerr}
				return
			}
			if !isPrefix {
				break
			}
		}
		rc <- reply{buf.String(), nil}
	}()
	var rp reply
	select {
	case rp = <-rc:
	case <-time.After(18 * time.Second):
		ch.cmd.Process.Kill()
		ch.cmd.Wait()
		return nil, false, "", fmt.Errorf("conc child timed out")
	}
	if rp.err != nil {
		// the child died while serving this request
		ch.in.Close()
		ch.cmd.Wait()
		msg := ch.stderr.head(600)
		if msg == "" {
			msg = "child exited: " + rp.err.Error()
		}
		return nil, false, msg, nil
	}
	select {
	case concPool <- ch:
	default:
		ch.in.Close()
		go ch.cmd.Wait()
	}
	f := strings.Fields(rp.line)
	if len(f) != 3 || f[0] != "ok" || !strings.HasPrefix(f[2], "dump=") {
		return nil, false, "", fmt.Errorf("conc child answered %q", rp.line)
	}
	return strings.Split(f[1], ","), f[2] == "dump=1", "", nil
}
