package main

// Gadget universes: "the same (package, requirement) pair reached from
// different roots, with root-dependent context". Random universes reach this
// shape only by accident; resolver-wide memoisation keyed by (package,
// requirement) - or by a requirement's attribute string - goes wrong exactly
// there: an entry computed under one root is reused under another.
//
// Common skeleton (all three systems):
//
//	hub H            several versions; its versions depend on some dependents,
//	                 so every hub version, taken as root, lies on a cycle
//	dependents D_i   require H with a string from a SMALL shared pool (plain
//	                 and prerelease-admitting strings next to each other)
//	aggregators B_j  depend on several dependents (and sometimes on H)
//
// and a history that resolves hub versions, aggregators and dependents on
// ONE resolver. Maven additionally gets a layered family with exclusions on
// nested dependencies, drawn from a small shared pool of exclusion strings.

import (
	"fmt"
	"math/rand"

	"deps.dev/util/resolve"
	"deps.dev/util/resolve/dep"
	"deps.dev/util/resolve/version"
)

type gadgetParams struct {
	name               func(string) string
	hubVersions        []string // ascending; the first two are releases
	plainReqs, preReqs []string // on the hub
	depVersions        []string
	looseReqs          []string // on dependents
}

func gadgetFor(sys resolve.System) gadgetParams {
	switch sys {
	case resolve.NPM:
		return gadgetParams{
			name:        func(s string) string { return s },
			hubVersions: []string{"1.0.0", "2.0.0", "1.1.0", "2.1.0-beta.1", "3.0.0-rc.1", "0.9.0"},
			plainReqs:   []string{">=1.0.0", "*", "^1.0.0", "1.x || 2.x", "<3.0.0", "latest"},
			preReqs:     []string{">=0.5.0-a.1", ">=2.1.0-beta.0", "^3.0.0-rc.0", ">=1.0.0-0"},
			depVersions: []string{"1.0.0", "2.0.0"},
			looseReqs:   []string{"*", ">=1.0.0", "^1.0.0"},
		}
	case resolve.Maven:
		return gadgetParams{
			name:        func(s string) string { return "g:" + s },
			hubVersions: []string{"1.0", "2.0", "1.1", "2.1-alpha-1", "3.0-SNAPSHOT", "0.9"},
			plainReqs:   []string{"[1.0,)", "1.0", "[1.0,3.0)", "2.0", "(,3.0)", "[1.0,2.0]"},
			preReqs:     []string{"[0.5-alpha-1,)", "[2.1-alpha-1,)", "(,3.0-SNAPSHOT]", "[1.0-rc-1,)"},
			depVersions: []string{"1.0", "2.0"},
			looseReqs:   []string{"1.0", "[1.0,)", "2.0"},
		}
	default:
		return gadgetParams{
			name:        func(s string) string { return s },
			hubVersions: []string{"1.0", "2.0", "1.5", "3.0rc1", "2.1.dev1", "0.9"},
			plainReqs:   []string{">=1.0", "", "<3.0", ">=0.9", "!=1.5", ">=1.0,<4"},
			preReqs:     []string{">=0.5a1", ">=1.0rc1", ">=2.1.dev0", "<3.0rc2", ">=0.1.dev0"},
			depVersions: []string{"1.0", "2.0"},
			looseReqs:   []string{"", ">=1.0", "<9"},
		}
	}
}

func pickN(r *rand.Rand, pool []string, n int) []string {
	if n > len(pool) {
		n = len(pool)
	}
	idx := r.Perm(len(pool))[:n]
	out := make([]string, n)
	for i, j := range idx {
		out[i] = pool[j]
	}
	return out
}

// genGadget builds a hub/dependents/aggregators universe and a history over
// it (hub versions first, lowest first, in half of the cases).
func genGadget(r *rand.Rand, sys resolve.System) (*universe, []rootRef) {
	gp := gadgetFor(sys)
	u := &universe{Sys: sys}
	hub := gp.name("a")
	// hub versions: the two releases plus up to two more
	hv := append([]string{}, gp.hubVersions[:2]...)
	hv = append(hv, pickN(r, gp.hubVersions[2:], r.Intn(3))...)
	// the small pool of requirement strings on the hub: at least one plain, one prerelease-admitting
	pool := append(pickN(r, gp.plainReqs, 1+r.Intn(2)), pickN(r, gp.preReqs, 1+r.Intn(2))...)
	nd := 2 + r.Intn(3)
	deps := make([]string, nd)
	for i := range deps {
		deps[i] = gp.name(fmt.Sprintf("d%d", i))
	}
	// hub
	hp := uPkg{Name: hub}
	order := r.Perm(len(hv))
	for _, vi := range order {
		v := uVer{Version: hv[vi]}
		if sys == resolve.NPM && vi == 1 && r.Intn(2) == 0 {
			v.Attrs = []kv{{int(version.Tags), "latest"}}
		}
		// every hub version depends on some dependents: the cycle through the root
		for i, d := range deps {
			if i < 2 && vi == 0 || r.Intn(3) == 0 {
				v.Reqs = append(v.Reqs, uReq{Name: d, Version: pick(r, gp.looseReqs...)})
			}
		}
		hp.Vers = append(hp.Vers, v)
	}
	u.Pkgs = append(u.Pkgs, hp)
	// dependents: each requires the hub with a string of the pool; the first
	// two use a plain and a prerelease-admitting one, so both kinds meet
	for i, d := range deps {
		p := uPkg{Name: d}
		for _, dv := range gp.depVersions[:1+r.Intn(2)] {
			v := uVer{Version: dv}
			rq := pick(r, pool...)
			if i == 0 {
				rq = pool[0]
			} else if i == 1 {
				rq = pool[len(pool)-1]
			}
			hreq := uReq{Name: hub, Version: rq}
			if sys == resolve.NPM && r.Intn(6) == 0 {
				hreq.Attrs = []kv{{int(dep.Scope), "peer"}}
			}
			if sys == resolve.PyPI && r.Intn(8) == 0 {
				hreq.Attrs = []kv{{int(dep.EnabledDependencies), "x"}}
			}
			v.Reqs = append(v.Reqs, hreq)
			if i+1 < nd && r.Intn(3) == 0 {
				v.Reqs = append(v.Reqs, uReq{Name: deps[i+1+r.Intn(nd-i-1)], Version: pick(r, gp.looseReqs...)})
			}
			p.Vers = append(p.Vers, v)
		}
		u.Pkgs = append(u.Pkgs, p)
	}
	// aggregators
	na := 1 + r.Intn(3)
	for j := 0; j < na; j++ {
		p := uPkg{Name: gp.name(fmt.Sprintf("b%d", j))}
		v := uVer{Version: gp.depVersions[0]}
		for i, d := range deps {
			if i < 2 && j == 0 || r.Intn(2) == 0 {
				v.Reqs = append(v.Reqs, uReq{Name: d, Version: pick(r, gp.looseReqs...)})
			}
		}
		if r.Intn(3) == 0 {
			v.Reqs = append(v.Reqs, uReq{Name: hub, Version: pick(r, pool...)})
		}
		p.Vers = append(p.Vers, v)
		u.Pkgs = append(u.Pkgs, p)
	}
	return u, gadgetHistory(r, u, hub, hv)
}

// gadgetHistory: every version of every package; in half of the cases the
// hub's versions come first (in the given order), otherwise all shuffled.
func gadgetHistory(r *rand.Rand, u *universe, first string, firstVersions []string) []rootRef {
	var head, rest []rootRef
	for _, v := range firstVersions {
		head = append(head, rootRef{first, v})
	}
	for _, rt := range u.allRoots() {
		if rt.Name != first {
			rest = append(rest, rt)
		}
	}
	r.Shuffle(len(rest), func(i, j int) { rest[i], rest[j] = rest[j], rest[i] })
	all := append(head, rest...)
	if r.Intn(2) == 0 {
		r.Shuffle(len(all), func(i, j int) { all[i], all[j] = all[j], all[i] })
	}
	if len(all) > 14 {
		all = all[:14]
	}
	return all
}

// genMavenExclusions builds a layered Maven universe
//
//	roots g:r*  ->  parents g:p*  ->  mids g:q*  ->  leaves g:l*
//
// where the edges of the upper layers carry exclusions drawn from a small
// shared pool of exclusion strings, so that the same exclusion string occurs
// below different parents (which themselves carry exclusions) and under
// different roots. Every layer's packages are roots of the history.
func genMavenExclusions(r *rand.Rand) (*universe, []rootRef) {
	u := &universe{Sys: resolve.Maven}
	nl := 3 + r.Intn(2)
	leaves := make([]string, nl)
	for i := range leaves {
		leaves[i] = fmt.Sprintf("g:l%d", i)
	}
	// pool of exclusion strings: single leaves and one pair
	pool := []string{leaves[0], leaves[1]}
	if r.Intn(2) == 0 {
		pool = append(pool, leaves[2])
	}
	if r.Intn(2) == 0 {
		pool = append(pool, leaves[0]+"|"+leaves[nl-1])
	}
	if r.Intn(4) == 0 {
		pool = append(pool, "g:*")
	}
	withExcl := func(rq uReq, p float64) uReq {
		if r.Float64() < p {
			rq.Attrs = []kv{{int(dep.MavenExclusions), pick(r, pool...)}}
		}
		return rq
	}
	ver := func(two bool) []string {
		if two {
			return []string{"1.0", "2.0"}
		}
		return []string{"1.0"}
	}
	reqPool := []string{"1.0", "1.0", "[1.0,2.0]", "2.0"}
	for _, l := range leaves {
		p := uPkg{Name: l}
		for _, v := range ver(r.Intn(3) == 0) {
			p.Vers = append(p.Vers, uVer{Version: v})
		}
		u.Pkgs = append(u.Pkgs, p)
	}
	nq := 1 + r.Intn(2)
	mids := make([]string, nq)
	for i := range mids {
		mids[i] = fmt.Sprintf("g:q%d", i)
		v := uVer{Version: "1.0"}
		for _, l := range leaves {
			if r.Intn(5) != 0 {
				v.Reqs = append(v.Reqs, uReq{Name: l, Version: pick(r, reqPool...)})
			}
		}
		u.Pkgs = append(u.Pkgs, uPkg{Name: mids[i], Vers: []uVer{v}})
	}
	np := 2 + r.Intn(2)
	parents := make([]string, np)
	for i := range parents {
		parents[i] = fmt.Sprintf("g:p%d", i)
		v := uVer{Version: "1.0"}
		v.Reqs = append(v.Reqs, withExcl(uReq{Name: pick(r, mids...), Version: "1.0"}, 0.85))
		if r.Intn(3) == 0 {
			v.Reqs = append(v.Reqs, withExcl(uReq{Name: pick(r, leaves...), Version: pick(r, reqPool...)}, 0.3))
		}
		u.Pkgs = append(u.Pkgs, uPkg{Name: parents[i], Vers: []uVer{v}})
	}
	nr := 2 + r.Intn(2)
	for i := 0; i < nr; i++ {
		v := uVer{Version: "1.0"}
		if i%2 == 0 || r.Intn(2) == 0 {
			v.Reqs = append(v.Reqs, withExcl(uReq{Name: pick(r, parents...), Version: "1.0"}, 0.85))
		}
		if i%2 == 1 || r.Intn(3) == 0 {
			v.Reqs = append(v.Reqs, withExcl(uReq{Name: pick(r, mids...), Version: "1.0"}, 0.85))
		}
		u.Pkgs = append(u.Pkgs, uPkg{Name: fmt.Sprintf("g:r%d", i), Vers: []uVer{v}})
	}
	var roots []rootRef
	for _, rt := range u.allRoots() {
		if rt.Name[2] != 'l' {
			roots = append(roots, rt)
		}
	}
	r.Shuffle(len(roots), func(i, j int) { roots[i], roots[j] = roots[j], roots[i] })
	return u, roots
}
