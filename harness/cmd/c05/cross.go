package main

// Cross-universe op: does a resolution depend on what this PROCESS resolved
// before (package-level state shared by all clients and resolvers)?
//
//	C05 cross <sys> <universe1> roots1=.. <universe2> roots2=..
//
// The op resolves the roots of universe 1 (fresh client and resolver each),
// then those of universe 2, and compares the second set of graphs with what
// a freshly started child process (this binary, mode "g0") computes for
// universe 2 alone. Universe 2 is generated as a variant of universe 1 (same
// package names and requirement strings, other version lists), so that any
// answer remembered under a key of universe 1 is wrong for universe 2.

import (
	"bytes"
	"crypto/sha256"
	"encoding/hex"
	"fmt"
	"math/rand"
	"os"
	"os/exec"
	"strings"
	"time"
)

func g0List(u *universe, roots []rootRef) []string {
	out := make([]string, len(roots))
	for i, rt := range roots {
		c := u.client(nil)
		s := resolveOne(newResolver(u.Sys, c), u.Sys, rt, soloDeadline)
		if s == "timeout" || s == "hang" {
			out[i] = "T"
			continue
		}
		h := sha256.Sum256([]byte(s))
		out[i] = hex.EncodeToString(h[:])[:12]
	}
	return out
}

func g0Main(args []string) {
	if len(args) == 0 {
		args = stdinFields()
	}
	if len(args) != 3 {
		os.Exit(2)
	}
	sys, ok := sysOf(args[0])
	if !ok {
		os.Exit(2)
	}
	u, ok := decodeUniverse(sys, args[1])
	if !ok {
		os.Exit(2)
	}
	roots, ok := decRoots(strings.TrimPrefix(args[2], "roots="))
	if !ok {
		os.Exit(2)
	}
	fmt.Println(strings.Join(g0List(u, roots), " "))
}

// g0AfterMain: resolve the roots of a first universe, then print g0List of a second.
func g0AfterMain(args []string) {
	if len(args) == 0 {
		args = stdinFields()
	}
	if len(args) != 5 {
		os.Exit(2)
	}
	sys, ok := sysOf(args[0])
	if !ok {
		os.Exit(2)
	}
	u1, ok1 := decodeUniverse(sys, args[1])
	r1, ok2 := decRoots(strings.TrimPrefix(args[2], "roots="))
	if !ok1 || !ok2 {
		os.Exit(2)
	}
	g0List(u1, r1)
	g0Main([]string{args[0], args[3], args[4]})
}

func execCross(f []string) string {
	if len(f) != 5 || !strings.HasPrefix(f[2], "roots1=") || !strings.HasPrefix(f[4], "roots2=") {
		return "bad-op"
	}
	sys, ok := sysOf(f[0])
	if !ok {
		return "bad-op"
	}
	u1, ok1 := decodeUniverse(sys, f[1])
	u2, ok2 := decodeUniverse(sys, f[3])
	r1, ok3 := decRoots(strings.TrimPrefix(f[2], "roots1="))
	r2, ok4 := decRoots(strings.TrimPrefix(f[4], "roots2="))
	if !(ok1 && ok2 && ok3 && ok4) {
		return "bad-op"
	}
	_, _ = u1, u2
	_, _ = r1, r2
	exe, err := os.Executable()
	if err != nil {
		return "err"
	}
	// Both sides run in fresh child processes, so the op does not depend on
	// what this (long-lived) harness process resolved before: the first
	// child resolves universe 1 and then universe 2, the second only universe 2.
	child := func(args ...string) ([]string, string) {
		cmd := exec.Command(exe, args[0])
		cmd.Stdin = strings.NewReader(strings.Join(args[1:], " ") + "\n")
		var ob bytes.Buffer
		cmd.Stdout = &ob
		if err := cmd.Start(); err != nil {
			return nil, "err"
		}
		done := make(chan error, 1)
		go func() { done <- cmd.Wait() }()
		select {
		case err := <-done:
			if err != nil {
				return nil, "err"
			}
		case <-time.After(8 * time.Second):
			cmd.Process.Kill()
			return nil, "timeout"
		}
		return strings.Fields(ob.String()), ""
	}
	here, bad := child("g0after", f[0], f[1], "roots="+strings.TrimPrefix(f[2], "roots1="), f[3], "roots="+strings.TrimPrefix(f[4], "roots2="))
	if bad != "" {
		return bad
	}
	there, bad := child("g0", f[0], f[3], "roots="+strings.TrimPrefix(f[4], "roots2="))
	if bad != "" {
		return bad
	}
	if len(there) != len(here) {
		return "err"
	}
	same, cmp := true, 0
	for i := range here {
		if here[i] == "T" || there[i] == "T" {
			continue
		}
		cmp++
		if here[i] != there[i] {
			same = false
		}
	}
	return fmt.Sprintf("ok n=%d fresh:%s", cmp, b01(same))
}

// variant derives universe 2 from universe 1: same names and requirement
// strings, but about half of the non-root versions removed.
func variant(r *rand.Rand, u *universe) *universe {
	v := u.clone()
	for pi := range v.Pkgs {
		vs := v.Pkgs[pi].Vers
		if len(vs) < 2 {
			continue
		}
		keep := vs[:0:0]
		for _, x := range vs {
			if r.Intn(2) == 0 {
				keep = append(keep, x)
			}
		}
		if len(keep) == 0 {
			keep = append(keep, vs[r.Intn(len(vs))])
		}
		v.Pkgs[pi].Vers = keep
	}
	return v
}

func crossLine(u1 *universe, r1 []rootRef, u2 *universe, r2 []rootRef) string {
	return fmt.Sprintf("C05 cross %s %s roots1=%s %s roots2=%s", sysName(u1.Sys), u1.encode(), encRoots(r1), u2.encode(), encRoots(r2))
}
