package main

import (
	"os"
	"runtime/pprof"
)

func init() {
	if p := os.Getenv("C05_PROF"); p != "" {
		f, _ := os.Create(p)
		pprof.StartCPUProfile(f)
		profStop = func() { pprof.StopCPUProfile(); f.Close() }
	}
}

var profStop = func() {}
