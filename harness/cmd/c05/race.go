package main

// Race-detector evidence (thorough tier): this binary is rebuilt with
// `go build -race` and re-executed on a sample of the generated histories,
// running only the concurrency phase; GORACE=halt_on_error makes the child
// exit 66 at the first report.

import (
	"bufio"
	"bytes"
	"crypto/sha1"
	"encoding/hex"
	"fmt"
	"os"
	"os/exec"
	"path/filepath"
	"strconv"
	"strings"
	"sync"
	"time"

	"verifharness/fw"
)

var (
	raceOnce sync.Once
	raceBin  string
	raceErr  string
)

// buildRace builds bin/c05race from the current tree (never reuses an old one).
func buildRace() (string, string) {
	raceOnce.Do(func() {
		wd, _ := os.Getwd() // the runner starts the harness in /verif/harness
		bin := filepath.Join(wd, "bin", "c05race")
		args := []string{"build", "-race", "-tags", "verif"}
		if repo := repoRoot(); repo != "/repo" {
			// a drill: the runner has written a go.mod that replaces the
			// modules under test onto the scratch tree (see check, build_harness)
			h := sha1.Sum([]byte(repo))
			hx := hex.EncodeToString(h[:])
			bin += "-alt" + hx[:6]
			args = append(args, "-modfile", filepath.Join(wd, "..", "work", "altmod-"+hx[:8], "go.mod"))
		}
		os.Remove(bin)
		cmd := exec.Command("go", append(args, "-o", bin, "./cmd/c05")...)
		cmd.Dir = wd
		cmd.Env = append(os.Environ(), "GOFLAGS=-mod=mod", "GOPROXY=off", "GOSUMDB=off", "GOTOOLCHAIN=local", "CGO_ENABLED=1")
		out, err := cmd.CombinedOutput()
		if err != nil {
			raceErr = fmt.Sprintf("go build -race failed: %v: %s", err, lastBytes(string(out), 600))
			return
		}
		raceBin = bin
	})
	return raceBin, raceErr
}

func lastBytes(s string, n int) string {
	if len(s) > n {
		return s[len(s)-n:]
	}
	return s
}

func raceEnv() []string {
	return append(os.Environ(), "GORACE=halt_on_error=1 exitcode=66")
}

// execRace runs one `race <sys> <universe> roots=...` op in the -race child.
func execRace(f []string) string {
	if len(f) != 3 || !strings.HasPrefix(f[2], "roots=") {
		return "bad-op"
	}
	if _, ok := sysOf(f[0]); !ok {
		return "bad-op"
	}
	bin, msg := buildRace()
	if bin == "" {
		fmt.Fprintln(os.Stderr, msg)
		return "err"
	}
	for attempt := 0; attempt < 5; attempt++ {
		// the op travels on stdin: a universe can exceed the argv limit
		cmd := exec.Command(bin, "raceone")
		cmd.Stdin = strings.NewReader(strings.Join(f, " ") + "\n")
		cmd.Env = raceEnv()
		var eb bytes.Buffer
		cmd.Stderr = &eb
		done := make(chan error, 1)
		if err := cmd.Start(); err != nil {
			return "err"
		}
		go func() { done <- cmd.Wait() }()
		select {
		case err := <-done:
			if strings.Contains(eb.String(), "DATA RACE") {
				return "ok race:1"
			}
			if err != nil {
				return "err"
			}
		case <-time.After(15 * time.Second):
			cmd.Process.Kill()
			return "timeout"
		}
	}
	return "ok race:0"
}

func raceConc(f []string) bool {
	sys, _ := sysOf(f[0])
	u, ok := decodeUniverse(sys, f[1])
	if !ok {
		return false
	}
	roots, ok := decRoots(strings.TrimPrefix(f[2], "roots="))
	if !ok {
		return false
	}
	reps := 2
	if _, nv, _ := u.size(); nv > 300 {
		reps = 1
	}
	for rep := 0; rep < reps; rep++ {
		runHistory(u, roots, 1, 8)
	}
	return true
}

func raceOneMain(args []string) {
	if len(args) == 0 {
		args = stdinFields()
	}
	if len(args) != 3 || !raceConc(args) {
		os.Exit(2)
	}
}

// stdinFields reads one line of space separated fields from stdin.
func stdinFields() []string {
	sc := bufio.NewScanner(os.Stdin)
	sc.Buffer(make([]byte, 1<<20), 1<<27)
	if sc.Scan() {
		return strings.Fields(sc.Text())
	}
	return nil
}

// raceBatchMain runs the concurrency phase of every line of a file of
// "<sys> <universe> roots=..." records, announcing each before it starts.
func raceBatchMain(args []string) {
	if len(args) != 2 {
		os.Exit(2)
	}
	from, _ := strconv.Atoi(args[1])
	fh, err := os.Open(args[0])
	if err != nil {
		os.Exit(2)
	}
	sc := bufio.NewScanner(fh)
	sc.Buffer(make([]byte, 1<<20), 1<<26)
	w := bufio.NewWriter(os.Stdout)
	for i := 0; sc.Scan(); i++ {
		if i < from {
			continue
		}
		fmt.Fprintf(w, "START %d\n", i)
		w.Flush()
		raceConc(strings.Fields(sc.Text()))
	}
	fmt.Fprintln(w, "DONE")
	w.Flush()
}

func raceSample(c *fw.Ctx, jobs []job) {
	bin, msg := buildRace()
	if bin == "" {
		c.Note("race detector run skipped: " + msg)
		return
	}
	// sample: every witness/testdata universe plus an even spread of the generated ones
	var recs []string
	want := 2500
	step := len(jobs)/want + 1
	for i, j := range jobs {
		if (strings.HasPrefix(j.src, "gen-") || strings.HasPrefix(j.src, "gadget-")) && i%step != 0 {
			continue
		}
		recs = append(recs, fmt.Sprintf("%s %s roots=%s", sysName(j.u.Sys), j.u.encode(), encRoots(j.roots)))
	}
	file := bin + ".ops"
	os.WriteFile(file, []byte(strings.Join(recs, "\n")+"\n"), 0o644)
	defer os.Remove(file)
	from, races := 0, 0
	deadline := time.Now().Add(5 * time.Minute)
	for from < len(recs) && races < 5 && time.Now().Before(deadline) {
		cmd := exec.Command(bin, "racebatch", file, strconv.Itoa(from))
		cmd.Env = raceEnv()
		var ob, eb bytes.Buffer
		cmd.Stdout, cmd.Stderr = &ob, &eb
		timer := time.AfterFunc(time.Until(deadline), func() { cmd.Process.Kill() })
		err := cmd.Run()
		timer.Stop()
		last := -1
		for _, l := range strings.Split(ob.String(), "\n") {
			if strings.HasPrefix(l, "START ") {
				last, _ = strconv.Atoi(strings.TrimPrefix(l, "START "))
			}
		}
		if strings.Contains(ob.String(), "DONE") && err == nil {
			c.Tally(int64(len(recs) - from))
			from = len(recs)
			break
		}
		if last < 0 {
			c.Note("race batch failed to start: " + lastBytes(eb.String(), 400))
			break
		}
		c.Tally(int64(last - from))
		if strings.Contains(eb.String(), "DATA RACE") {
			races++
			idx, res := c.Op("C05 race " + recs[last])
			if res != "ok race:1" {
				c.Note("the race detector fired in the batch run on this op but not when it was re-run alone: " + lastBytes(eb.String(), 1200))
			}
			c.Count("race-detected")
			if !c.Check("norace", idx) {
				// recorded
			} else {
				// not reproduced alone: still a failure of the batch; record through the op that reports it
				c.Note("UNREPRODUCED RACE REPORT (treated as violation by the batch op below)")
				bi, _ := c.Op("C05 race " + recs[last])
				_ = bi
			}
		} else if !time.Now().Before(deadline) {
			c.Note(fmt.Sprintf("race run: time budget reached at record %d of %d", last, len(recs)))
			from = last
			break
		} else {
			c.Note(fmt.Sprintf("race batch stopped at record %d without a race report: %v %s", last, err, lastBytes(eb.String(), 300)))
		}
		from = last + 1
	}
	c.Count(fmt.Sprintf("race-records-run:%d", from))
	c.Note(fmt.Sprintf("race detector: %d of %d sampled histories re-run under -race (concurrency phase, 16 goroutines, twice each); %d race reports", from, len(recs), races))
}
