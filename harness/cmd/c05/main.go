// Command c05 is the harness of property C05 (resolution is a pure function
// of the package universe and the root). The tie between the Lean theorems
// and the code is (1) the regenerated translator facts (taint pass over the
// resolvers' use of client-owned slices, the resolver structs' fields, the
// LRU capacities and recorded runs of the real LRU code) and (2) the replay
// oracle of this file: histories, insertion orders and concurrent schedules
// run against the real resolvers and the real LocalClient. There is no
// model-vs-code output diff for this property.
package main

import (
	"fmt"
	"math/rand"
	"os"
	"runtime"
	"sort"
	"strings"
	"sync"
	"time"

	"deps.dev/util/resolve"
	"deps.dev/util/resolve/dep"
	"verifharness/fw"
)

func execOp(f []string) string {
	if len(f) == 0 {
		return "bad-op"
	}
	switch f[0] {
	case "history":
		u, roots, seed, ok := parseHistory(f[1:])
		if !ok {
			return "bad-op"
		}
		o := runHistory(u, roots, seed, 7)
		return o.line()
	case "race":
		return execRace(f[1:])
	case "cross":
		return execCross(f[1:])
	}
	return "bad-op"
}

func flagsOf(res string) (bad []string) {
	for _, w := range strings.Fields(res) {
		if strings.HasSuffix(w, ":0") {
			bad = append(bad, strings.TrimSuffix(w, ":0"))
		}
	}
	return
}

func recheck(oracle string, ops, res []string) (bool, string) {
	switch oracle {
	case "pure":
		// every op of the group must report all four flags as 1
		for i, r := range res {
			if r == "timeout" {
				continue // nothing observed
			}
			if !strings.HasPrefix(r, "ok ") {
				return true, fmt.Sprintf("op %d: result %q", i, r)
			}
			if bad := flagsOf(r); len(bad) > 0 {
				detail := fmt.Sprintf("op %d: flags %v are 0 (%s)", i, bad, r)
				if f := strings.Fields(ops[i]); len(f) > 2 && f[1] == "cross" {
					detail += "\nthe graphs of universe 2 computed by a process that resolved universe 1 first differ from those a process computes for universe 2 alone: some state outside client and resolver survives between resolutions"
					if sys, ok := sysOf(f[2]); ok {
						if u1, ok := decodeUniverse(sys, f[3]); ok {
							detail += "\nuniverse 1:\n" + u1.text()
						}
						if u2, ok := decodeUniverse(sys, f[5]); ok {
							detail += "universe 2:\n" + u2.text()
						}
					}
				}
				if f := strings.Fields(ops[i]); len(f) > 2 && f[1] == "history" {
					if u, roots, seed, ok := parseHistory(f[2:]); ok {
						o := runHistory(u, roots, seed, 7)
						for try := 0; try < 4 && o.firstBad == ""; try++ { // scheduling-dependent failures
							o = runHistory(u, roots, seed, 7)
						}
						detail += "\nuniverse:\n" + u.text() + "roots (history order): " + fmt.Sprint(roots) + "\n" + o.firstBad
					}
				}
				return true, detail
			}
		}
		return false, ""
	case "norace":
		for i, r := range res {
			if r == "timeout" {
				continue // the -race child did not finish in time: nothing observed
			}
			if r != "ok race:0" {
				return true, fmt.Sprintf("op %d: %s (the race detector reported a data race, or the -race run failed, while up to 16 goroutines resolved over one shared client)", i, r)
			}
		}
		return false, ""
	}
	return true, "unknown oracle " + oracle
}

const rule = "universes: random npm / Maven / PyPI universes (2-12 packages, 1-8 versions each drawn from a pool that contains " +
	"compare-equal spellings such as 1.0 and 1.0.0, prereleases, an unparsable string; requirements drawn from ranges, exact pins, tags, " +
	"unsatisfiable and unparsable strings; dependency types incl. npm aliases, Maven exclusions/management/scope/classifier, PyPI markers and extras; " +
	"versions listed in random order) plus every universe of util/resolve/{npm,maven,pypi}/testdata. One op = one universe with a shuffled list of its roots; " +
	"the op dumps the client, resolves every root fresh (G0), replays the list twice on one client+resolver, compares the client dump, rebuilds the client in two " +
	"permuted insertion orders, and runs the list on 16 goroutines. A second op kind (cross) resolves universe 1 and then a variant of it (same names and requirement strings, " +
	"about half of the versions removed) in one fresh child process and compares with a child that resolves only the variant (state surviving outside client and resolver). " +
	"Gadget families (deliberate, not random): hub/dependents/aggregators universes in which the same (package, requirement) pair - from a small shared pool with plain and " +
	"prerelease-admitting strings side by side - is reached from different roots, every hub version lying on a dependency cycle through itself; layered Maven universes with exclusions on " +
	"nested dependencies drawn from a small shared pool of exclusion strings; histories over hub versions, dependents and aggregators on one resolver. The concurrency phase runs in a " +
	"child process so that a fatal runtime error (concurrent map writes) becomes conc:0 of that history. Distinct = distinct G0 hash; non-trivial = at least one root whose graph has an edge."

func main() {
	if len(os.Args) > 1 {
		switch os.Args[1] {
		case "raceone":
			raceOneMain(os.Args[2:])
			return
		case "racebatch":
			raceBatchMain(os.Args[2:])
			return
		case "concserve":
			concServeMain()
			return
		case "g0":
			g0Main(os.Args[2:])
			return
		case "g0after":
			g0AfterMain(os.Args[2:])
			return
		case "mkcorpus":
			mkCorpus()
			return
		case "show":
			// show <op fields...>: decode and re-run one op verbosely
			if u, roots, seed, ok := parseHistory(os.Args[4:]); ok {
				o := runHistory(u, roots, seed, 7)
				fmt.Println(u.text())
				fmt.Println("roots:", roots)
				fmt.Println(o.line())
				fmt.Println(o.firstBad)
			}
			return
		}
	}
	fw.Main(&fw.Prop{
		ID:      "C05",
		Rule:    rule,
		Exec:    execOp,
		Run:     run,
		Recheck: recheck,
		Classify: func(oracle string, ops, res []string) string {
			return "" // no finding class: every failure is a violation
		},
		Gens: []fw.Generator{
			{Name: "C05ClientSliceWrites", Fn: genClientSliceWrites},
			{Name: "C05ResolverShared", Fn: genResolverShared},
			{Name: "C05LruCaps", Fn: genLruCaps},
			{Name: "C05LruTraces", Fn: genLruTraces},
		},
	})
}

// repoRoot is the tree under test: /repo, or the scratch worktree of a drill
// (the runner exports VERIF_REPO and builds this binary against that tree).
func repoRoot() string {
	if r := os.Getenv("VERIF_REPO"); r != "" {
		return r
	}
	return "/repo"
}

type job struct {
	u     *universe
	roots []rootRef
	seed  int64
	src   string
}

func run(c *fw.Ctx) {
	var jobs []job
	// 1. the repository's own test universes
	for _, sys := range []resolve.System{resolve.NPM, resolve.Maven, resolve.PyPI} {
		cases, notes := testdataUniverses(repoRoot(), sys)
		for _, n := range notes {
			c.Note(n)
		}
		for _, cc := range cases {
			_, nv, nr := cc.u.size()
			if nv+nr > 20000 {
				c.Note(fmt.Sprintf("testdata universe %s skipped: %d versions, %d requirements (op line would exceed 1 MB)", cc.name, nv, nr))
				continue
			}
			if nv+nr > 2000 && len(cc.roots) > 2 {
				cc.roots = cc.roots[:2]
			}
			roots := append([]rootRef(nil), cc.roots...)
			c.Rng.Shuffle(len(roots), func(i, j int) { roots[i], roots[j] = roots[j], roots[i] })
			jobs = append(jobs, job{cc.u, roots, c.Rng.Int63n(1 << 30), "testdata-" + sysName(sys)})
		}
	}
	// 2. generated
	per := c.N(260, 1800)
	for _, sys := range []resolve.System{resolve.NPM, resolve.Maven, resolve.PyPI} {
		for i := 0; i < per; i++ {
			u := genUniverse(c.Rng, sys, i%5 == 4)
			all := u.allRoots()
			variants := 1
			if c.Thor && i%4 == 0 {
				variants = 3 // more history orders and permutations of the same data
			}
			for v := 0; v < variants; v++ {
				roots := append([]rootRef(nil), all...)
				c.Rng.Shuffle(len(roots), func(i, j int) { roots[i], roots[j] = roots[j], roots[i] })
				if max := c.N(10, 16); len(roots) > max {
					roots = roots[:max]
				}
				// occasionally repeat a root inside the history
				if len(roots) > 1 && c.Rng.Intn(3) == 0 {
					roots = append(roots, roots[c.Rng.Intn(len(roots))])
				}
				jobs = append(jobs, job{u, roots, c.Rng.Int63n(1 << 30), "gen-" + sysName(sys)})
			}
		}
	}

	// 3. gadget families: the same (package, requirement) pair reached from
	// different roots; Maven exclusions on nested dependencies (gadget.go)
	ng := c.N(70, 400)
	for _, sys := range []resolve.System{resolve.NPM, resolve.Maven, resolve.PyPI} {
		for i := 0; i < ng; i++ {
			u, roots := genGadget(c.Rng, sys)
			jobs = append(jobs, job{u, roots, c.Rng.Int63n(1 << 30), "gadget-hub-" + sysName(sys)})
		}
	}
	for i := 0; i < ng; i++ {
		u, roots := genMavenExclusions(c.Rng)
		jobs = append(jobs, job{u, roots, c.Rng.Int63n(1 << 30), "gadget-exclusions-maven"})
	}

	lines := make([]string, len(jobs))
	for i, j := range jobs {
		lines[i] = historyLine(j.u, j.roots, j.seed)
	}
	type outc struct {
		idx int
		res string
	}
	outs := make([]outc, len(jobs))
	workers := runtime.NumCPU() / 2
	if workers < 2 {
		workers = 2
	}
	if max := c.N(4, 8); workers > max {
		workers = max
	}
	var wg sync.WaitGroup
	next := make(chan int)
	for w := 0; w < workers; w++ {
		wg.Add(1)
		go func() {
			defer wg.Done()
			for i := range next {
				idx, res := c.Op(lines[i])
				outs[i] = outc{idx, res}
			}
		}()
	}
	for i := range jobs {
		next <- i
	}
	close(next)
	wg.Wait()

	shrunk := 0
	for i, j := range jobs {
		res := outs[i].res
		c.Count("src:" + j.src)
		switch {
		case res == "timeout":
			c.Count("result:timeout")
			continue
		case !strings.HasPrefix(res, "ok "):
			c.Count("result:" + res)
			c.Check("pure", outs[i].idx)
			continue
		}
		c.Count("result:ok")
		f := strings.Fields(res)
		for _, w := range f {
			switch {
			case strings.HasPrefix(w, "nt=") && w != "nt=0":
				c.Nontrivial(f[1])
				c.Count("nontrivial:" + sysName(j.u.Sys))
			case strings.HasPrefix(w, "to=") && w != "to=0":
				c.Count("universes-with-timeout-roots:" + sysName(j.u.Sys))
			}
		}
		c.Count(fmt.Sprintf("roots:%s:%02d-", sysName(j.u.Sys), len(j.roots)/4*4))
		if len(flagsOf(res)) == 0 {
			c.Tally(4) // four flags checked in memory
			if i%97 == 0 {
				pk, vs, rq := j.u.size()
				c.Sample(fmt.Sprintf("%s: %d packages %d versions %d requirements, %d roots -> %s", j.src, pk, vs, rq, len(j.roots), res))
			}
			continue
		}
		// a failing history: record it, then a shrunk form of it
		c.Check("pure", outs[i].idx)
		for _, b := range flagsOf(res) {
			c.Count("fail:" + b + ":" + sysName(j.u.Sys))
		}
		if shrunk < 6 {
			shrunk++
			su, sr := shrink(j.u, j.roots, j.seed, flagsOf(res))
			idx, _ := c.Op(historyLine(su, sr, j.seed))
			c.Check("pure", idx)
		}
	}

	// cross-universe / process-history ops
	ncross := c.N(40, 400)
	for _, sys := range []resolve.System{resolve.NPM, resolve.Maven, resolve.PyPI} {
		for i := 0; i < ncross; i++ {
			u1 := genUniverse(c.Rng, sys, false)
			u2 := variant(c.Rng, u1)
			r1, r2 := u1.allRoots(), u2.allRoots()
			if len(r1) > 12 {
				r1 = r1[:12]
			}
			if len(r2) > 12 {
				r2 = r2[:12]
			}
			idx, res := c.Op(crossLine(u1, r1, u2, r2))
			c.Count("cross:" + sysName(sys))
			if strings.HasSuffix(res, "fresh:1") {
				c.Tally(1)
				continue
			}
			if res == "timeout" {
				c.Count("result:timeout")
				continue
			}
			c.Count("fail:fresh:" + sysName(sys))
			c.Check("pure", idx)
		}
	}

	if c.Thor {
		raceSample(c, jobs)
	} else {
		c.Note("race detector run (-race rebuild of this binary, 16 goroutines over one shared client) is part of the thorough tier only")
	}
}

// shrink reduces a failing history: fewer roots, then a smaller universe.
func shrink(u *universe, roots []rootRef, seed int64, bad []string) (*universe, []rootRef) {
	phases := 0
	onlyConc := true
	for _, b := range bad {
		switch b {
		case "before=after", "hist":
			phases |= 1
			onlyConc = false
		case "perm":
			phases |= 2
			onlyConc = false
		case "conc":
			phases |= 4
		}
	}
	deadline := time.Now().Add(25 * time.Second)
	fails := func(u *universe, roots []rootRef) bool {
		if len(roots) == 0 || time.Now().After(deadline) {
			return false
		}
		tries := 1
		if onlyConc {
			tries = 4
		}
		for t := 0; t < tries; t++ {
			o := runHistory(u, roots, seed, phases)
			if !o.timeout && !(o.beforeAfter && o.hist && o.perm && o.conc) {
				return true
			}
		}
		return false
	}
	if !fails(u, roots) {
		return u, roots // not reproducible in isolation (scheduling): keep as is
	}
	progress := true
	for progress {
		progress = false
		// roots
		for i := 0; i < len(roots) && len(roots) > 1; {
			cand := append(append([]rootRef(nil), roots[:i]...), roots[i+1:]...)
			if fails(u, cand) {
				roots, progress = cand, true
			} else {
				i++
			}
		}
		isRoot := func(p, v string) bool {
			for _, r := range roots {
				if r.Name == p && (v == "" || r.Version == v) {
					return true
				}
			}
			return false
		}
		// packages
		for i := 0; i < len(u.Pkgs); {
			if isRoot(u.Pkgs[i].Name, "") {
				i++
				continue
			}
			cand := u.clone()
			cand.Pkgs = append(cand.Pkgs[:i], cand.Pkgs[i+1:]...)
			if fails(cand, roots) {
				u, progress = cand, true
			} else {
				i++
			}
		}
		// versions
		for pi := range u.Pkgs {
			for vi := 0; vi < len(u.Pkgs[pi].Vers); {
				if isRoot(u.Pkgs[pi].Name, u.Pkgs[pi].Vers[vi].Version) {
					vi++
					continue
				}
				cand := u.clone()
				cand.Pkgs[pi].Vers = append(cand.Pkgs[pi].Vers[:vi], cand.Pkgs[pi].Vers[vi+1:]...)
				if fails(cand, roots) {
					u, progress = cand, true
				} else {
					vi++
				}
			}
		}
		// requirements and attributes
		for pi := range u.Pkgs {
			for vi := range u.Pkgs[pi].Vers {
				for ri := 0; ri < len(u.Pkgs[pi].Vers[vi].Reqs); {
					cand := u.clone()
					rs := cand.Pkgs[pi].Vers[vi].Reqs
					cand.Pkgs[pi].Vers[vi].Reqs = append(rs[:ri], rs[ri+1:]...)
					if fails(cand, roots) {
						u, progress = cand, true
						continue
					}
					if len(u.Pkgs[pi].Vers[vi].Reqs[ri].Attrs) > 0 {
						cand = u.clone()
						cand.Pkgs[pi].Vers[vi].Reqs[ri].Attrs = nil
						if fails(cand, roots) {
							u, progress = cand, true
						}
					}
					ri++
				}
				if len(u.Pkgs[pi].Vers[vi].Attrs) > 0 {
					cand := u.clone()
					cand.Pkgs[pi].Vers[vi].Attrs = nil
					if fails(cand, roots) {
						u, progress = cand, true
					}
				}
			}
		}
	}
	return u, roots
}

// ---------------------------------------------------------------- fixed witnesses

func lit(sys resolve.System, pkgs ...uPkg) *universe { return &universe{Sys: sys, Pkgs: pkgs} }

// witnesses are the histories on which the defects repaired by F3, F4 and F5
// showed on the unrepaired tree (DESIGN section 8); they are kept in the
// corpus so that a regression is found at once.
func witnesses() []job {
	mv := lit(resolve.Maven,
		uPkg{"g:a", []uVer{{Version: "1.0", Reqs: []uReq{{Name: "g:b", Version: "[1.0,3.0]"}}}, {Version: "2.0", Reqs: []uReq{{Name: "g:b", Version: "[1.0,2.0)"}}}}},
		uPkg{"g:b", []uVer{{Version: "1.0"}, {Version: "2.0"}, {Version: "3.0"}}})
	py := lit(resolve.PyPI,
		uPkg{"a", []uVer{{Version: "1", Reqs: []uReq{{Name: "b", Version: ">=1.0"}, {Name: "c", Version: "", Attrs: []kv{{10, `python_version < "3"`}}}, {Name: "d", Version: ""}}}}},
		uPkg{"b", []uVer{{Version: "1.0.0"}, {Version: "1.0"}}},
		uPkg{"c", []uVer{{Version: "1.0"}}},
		uPkg{"d", []uVer{{Version: "2.0rc1"}, {Version: "1.0"}, {Version: "2.0"}}},
		uPkg{"e", []uVer{{Version: "1", Reqs: []uReq{{Name: "d", Version: ">=1.0"}, {Name: "f", Version: ""}}}}},
		uPkg{"f", []uVer{{Version: "1", Reqs: []uReq{{Name: "d", Version: ">=2.0rc1"}}}}})
	np := lit(resolve.NPM,
		uPkg{"a", []uVer{{Version: "1.0.0", Reqs: []uReq{{Name: "b", Version: "^1.0.0"}, {Name: "c", Version: "*"}}}}},
		uPkg{"b", []uVer{{Version: "1.2.0"}, {Version: "1.0.0", Attrs: []kv{{10, "latest"}}}, {Version: "1.1.0"}}},
		uPkg{"c", []uVer{{Version: "2.0.0", Reqs: []uReq{{Name: "b", Version: "1.x"}}}, {Version: "1.0.0"}}})
	mv2 := lit(resolve.Maven,
		uPkg{"g:a", []uVer{{Version: "1", Reqs: []uReq{{Name: "g:b", Version: "[1.0,1.0.0]"}}}}},
		uPkg{"g:b", []uVer{{Version: "1.0.0"}, {Version: "1.0"}}})
	// a (package, requirement) pair reached under two roots: root a 1.0 lies on a
	// cycle and receives a plain and a prerelease-admitting requirement on a;
	// b reaches the same two requirements (a resolver-wide cache keyed by
	// (package, requirement) must not remember what it computed under root a)
	pyc := lit(resolve.PyPI,
		uPkg{"a", []uVer{{Version: "1.0", Reqs: []uReq{{Name: "c", Version: ""}, {Name: "d", Version: ""}}}, {Version: "2.0"}}},
		uPkg{"b", []uVer{{Version: "1.0", Reqs: []uReq{{Name: "c", Version: ""}, {Name: "d", Version: ""}}}}},
		uPkg{"c", []uVer{{Version: "1.0", Reqs: []uReq{{Name: "a", Version: ">=1.0"}}}}},
		uPkg{"d", []uVer{{Version: "1.0", Reqs: []uReq{{Name: "a", Version: ">=0.5a1"}}}}})
	// the same exclusion string below a parent that itself carries exclusions,
	// and again under another root
	ex := func(s string) []kv { return []kv{{int(dep.MavenExclusions), s}} }
	mvx := lit(resolve.Maven,
		uPkg{"g:x", []uVer{{Version: "1.0"}}}, uPkg{"g:y", []uVer{{Version: "1.0"}}}, uPkg{"g:z", []uVer{{Version: "1.0"}}},
		uPkg{"g:q", []uVer{{Version: "1.0", Reqs: []uReq{{Name: "g:x", Version: "1.0"}, {Name: "g:y", Version: "1.0"}, {Name: "g:z", Version: "1.0"}}}}},
		uPkg{"g:p", []uVer{{Version: "1.0", Reqs: []uReq{{Name: "g:q", Version: "1.0", Attrs: ex("g:y")}}}}},
		uPkg{"g:r1", []uVer{{Version: "1.0", Reqs: []uReq{{Name: "g:p", Version: "1.0", Attrs: ex("g:x")}}}}},
		uPkg{"g:r2", []uVer{{Version: "1.0", Reqs: []uReq{{Name: "g:q", Version: "1.0", Attrs: ex("g:y")}}}}})
	var js []job
	js = append(js, job{pyc, []rootRef{{"a", "1.0"}, {"b", "1.0"}, {"a", "2.0"}}, 3, "witness"})
	js = append(js, job{mvx, []rootRef{{"g:r1", "1.0"}, {"g:r2", "1.0"}, {"g:p", "1.0"}}, 3, "witness"})
	for _, u := range []*universe{mv, py, np, mv2} {
		js = append(js, job{u, u.allRoots(), 7, "witness"})
		rs := u.allRoots()
		for i, j := 0, len(rs)-1; i < j; i, j = i+1, j-1 {
			rs[i], rs[j] = rs[j], rs[i]
		}
		js = append(js, job{u, rs, 11, "witness"})
	}
	return js
}

func mkCorpus() {
	fmt.Println("# histories on which F3/F4/F5 showed before their repair (oracle pure); written by `c05 mkcorpus`")
	for _, j := range witnesses() {
		fmt.Printf("pure\t%s\n", historyLine(j.u, j.roots, j.seed))
	}
	// a few fixed generated universes per system
	r := rand.New(rand.NewSource(5))
	for _, sys := range []resolve.System{resolve.NPM, resolve.Maven, resolve.PyPI} {
		for i := 0; i < 4; i++ {
			u := genUniverse(r, sys, false)
			rs := u.allRoots()
			sort.Slice(rs, func(i, j int) bool { return rs[i].Version > rs[j].Version })
			fmt.Printf("pure\t%s\n", historyLine(u, rs, int64(i)))
		}
	}
}
