package main

// Translator generator C05ClientSliceWrites: a small taint pass over the
// typed syntax of util/resolve and the three resolver packages.
//
// Sources: the slice result of a call, through an interface, of a method that
// resolve.Client declares (same name and signature: today Versions /
// Requirements / MatchingVersions), and reads m[..] of a map-of-slices field of
// a struct type that implements resolve.Client (today LocalClient's
// PackageVersions and imports). Both are found through go/types, not by name.
// Sanitisers: slices.Clone(x), append(<fresh or nil or x[:0:0]>, x...),
// make+copy, an element-wise copy loop into a fresh slice: a value is only
// client-owned if it aliases the client's backing array, so whatever is written
// INTO a freshly allocated slice (by copy, append or index assignment) is not.
// Sinks: sort.Slice/SliceStable/Sort/Stable/Strings/Ints, slices.Sort*/
// Reverse/Delete*/Compact*/Insert/Replace, copy(dst,..), clear, an index
// assignment x[i] = .. (also x[i].f = .., x[i]++), append(x[:i], ..), the
// package's own SortVersions / SortDependencies / sortNPMVersions /
// filterSlice / intersect, and (derived) any own function whose summary says
// that it writes through a parameter.
//
// Propagation: flow-sensitive inside a function (strong updates of local
// variables, joins at branches, loops iterated to a fixpoint), re-slicing,
// conversions, append's aliasing of its first argument, range over slices of
// reference elements, struct fields (field-based, flow-insensitive),
// function summaries (parameter -> sink, parameter -> result, parameter ->
// field) iterated to a global fixpoint over all four packages, so flows
// through any depth of calls between them are followed.

import (
	"fmt"
	"go/ast"
	"go/constant"
	"go/token"
	"go/types"
	"path/filepath"
	"sort"
	"strings"

	"golang.org/x/tools/go/packages"
	"verifharness/fw"
)

type label uint64

const clientBit label = 1

func paramBit(i int) label {
	if i > 60 {
		i = 60
	}
	return 1 << uint(i+1)
}

type funcInfo struct {
	key    string
	short  string // name used in reports: Recv.Name or Name
	pkg    *packages.Package
	decl   *ast.FuncDecl
	params []types.Object // receiver first if any

	sinkParams map[int]string
	retLabels  []label
	fieldFlows map[string]label
}

type site struct {
	file, fn string
	line     int
	sink     string
}

type taintPass struct {
	repo       string
	funcs      map[string]*funcInfo
	order      []string
	fieldTaint map[string]label
	sites      map[site]bool
	sources    map[[3]string]bool
	clones     map[[3]string]bool
	changed    bool
	ownerFuncs map[string]bool
	implCache  map[*types.Named]bool
}

// namedSinks only gives today's in-place helpers a readable sink label; it is not
// what makes them sinks. Every own function that writes through a parameter gets
// a derived summary (sinkParams) and is a sink under any name: renaming or
// moving one of these changes the label in `sites`/`writers`, nothing else.
var namedSinks = map[string]bool{
	"deps.dev/util/resolve.SortVersions":        true,
	"deps.dev/util/resolve.SortDependencies":    true,
	"deps.dev/util/resolve.sortNPMVersions":     true,
	"deps.dev/util/resolve/pypi.filterSlice":    true,
	"deps.dev/util/resolve/pypi.intersect":      true,
	"deps.dev/util/resolve.sortNPMDependencies": true,
}

// Functions of the client itself that are entitled to write its slices
// (ownerFuncs, computed by computeOwners): methods of a client implementation
// that resolve.Client does not declare (the mutator API, today
// LocalClient.AddVersion) and functions that return a client implementation
// (constructors, today NewLocalClient) - provided nothing else in the analysed
// packages refers to them. A helper that a Client method (or any resolver code)
// calls is therefore NOT an owner, whatever it is named.

var libSinks = map[string]bool{
	"sort.Slice": true, "sort.SliceStable": true, "sort.Sort": true, "sort.Stable": true,
	"sort.Strings": true, "sort.Ints": true, "sort.Float64s": true,
	"slices.Sort": true, "slices.SortFunc": true, "slices.SortStableFunc": true, "slices.Reverse": true,
	"slices.Delete": true, "slices.DeleteFunc": true, "slices.Compact": true, "slices.CompactFunc": true,
	"slices.Insert": true, "slices.Replace": true,
	"math/rand.Shuffle": false,
}

var libPass = map[string]bool{"slices.Clip": true, "slices.Grow": true}

var resolvePkgDirs = []string{"util/resolve", "util/resolve/npm", "util/resolve/maven", "util/resolve/pypi"}

func loadResolvePkgs(repo string) ([]*packages.Package, error) {
	var out []*packages.Package
	for _, d := range resolvePkgDirs {
		p, err := fw.LoadPkg(filepath.Join(repo, d))
		if err != nil {
			return nil, err
		}
		out = append(out, p)
	}
	return out, nil
}

func funcKey(f *types.Func) string {
	if f == nil {
		return ""
	}
	return f.Origin().FullName()
}

func newTaintPass(repo string) (*taintPass, error) {
	pkgs, err := loadResolvePkgs(repo)
	if err != nil {
		return nil, err
	}
	tp := &taintPass{repo: repo, funcs: map[string]*funcInfo{}, fieldTaint: map[string]label{},
		sources: map[[3]string]bool{}, clones: map[[3]string]bool{}, implCache: map[*types.Named]bool{}}
	for _, p := range pkgs {
		for _, f := range p.Syntax {
			for _, d := range f.Decls {
				fd, ok := d.(*ast.FuncDecl)
				if !ok || fd.Body == nil {
					continue
				}
				obj, ok := p.TypesInfo.Defs[fd.Name].(*types.Func)
				if !ok {
					continue
				}
				fi := &funcInfo{key: funcKey(obj), pkg: p, decl: fd, sinkParams: map[int]string{}, fieldFlows: map[string]label{}}
				fi.short = fd.Name.Name
				if fd.Recv != nil && len(fd.Recv.List) > 0 {
					fi.short = recvName(fd.Recv.List[0].Type) + "." + fd.Name.Name
					for _, n := range fd.Recv.List[0].Names {
						fi.params = append(fi.params, p.TypesInfo.Defs[n])
					}
					if len(fd.Recv.List[0].Names) == 0 {
						fi.params = append(fi.params, nil)
					}
				}
				for _, fl := range fd.Type.Params.List {
					if len(fl.Names) == 0 {
						fi.params = append(fi.params, nil)
					}
					for _, n := range fl.Names {
						fi.params = append(fi.params, p.TypesInfo.Defs[n])
					}
				}
				if fd.Type.Results != nil {
					n := 0
					for _, fl := range fd.Type.Results.List {
						if len(fl.Names) == 0 {
							n++
						} else {
							n += len(fl.Names)
						}
					}
					fi.retLabels = make([]label, n)
				}
				tp.funcs[fi.key] = fi
				tp.order = append(tp.order, fi.key)
			}
		}
	}
	sort.Strings(tp.order)
	if len(tp.funcs) < 50 {
		return nil, fmt.Errorf("taint pass: only %d functions found", len(tp.funcs))
	}
	tp.computeOwners()
	return tp, nil
}

// implementsClient: T or *T implements resolve.Client, in p's type universe.
func (tp *taintPass) implementsClient(p *packages.Package, nt *types.Named) bool {
	if nt == nil {
		return false
	}
	if v, ok := tp.implCache[nt]; ok {
		return v
	}
	it := resolveIface(p, "Client")
	_, isStruct := nt.Underlying().(*types.Struct)
	v := it != nil && isStruct && (types.Implements(nt, it) || types.Implements(types.NewPointer(nt), it))
	tp.implCache[nt] = v
	return v
}

// clientMethod: m has the name and signature of a method resolve.Client declares.
func clientMethod(p *packages.Package, m *types.Func) bool {
	it := resolveIface(p, "Client")
	if it == nil || m == nil {
		return false
	}
	for i := 0; i < it.NumMethods(); i++ {
		if cm := it.Method(i); cm.Name() == m.Name() && types.Identical(cm.Type(), m.Type()) {
			return true
		}
	}
	return false
}

func (tp *taintPass) computeOwners() {
	cand := map[string]bool{}
	for _, k := range tp.order {
		fi := tp.funcs[k]
		obj, _ := fi.pkg.TypesInfo.Defs[fi.decl.Name].(*types.Func)
		if obj == nil {
			continue
		}
		sig := obj.Type().(*types.Signature)
		if r := sig.Recv(); r != nil {
			if tp.implementsClient(fi.pkg, derefNamed(r.Type())) && !clientMethod(fi.pkg, obj) {
				cand[k] = true
			}
			continue
		}
		for i := 0; i < sig.Results().Len(); i++ {
			if tp.implementsClient(fi.pkg, derefNamed(sig.Results().At(i).Type())) {
				cand[k] = true
			}
		}
	}
	// a candidate that other analysed code refers to is an ordinary function
	for changed := true; changed; {
		changed = false
		for _, k := range tp.order {
			fi := tp.funcs[k]
			if cand[k] {
				continue
			}
			ast.Inspect(fi.decl.Body, func(n ast.Node) bool {
				if id, ok := n.(*ast.Ident); ok {
					if f, ok := fi.pkg.TypesInfo.Uses[id].(*types.Func); ok {
						if ck := funcKey(f); cand[ck] {
							delete(cand, ck)
							changed = true
						}
					}
				}
				return true
			})
		}
	}
	tp.ownerFuncs = cand
}

func recvName(e ast.Expr) string {
	switch t := e.(type) {
	case *ast.StarExpr:
		return recvName(t.X)
	case *ast.Ident:
		return t.Name
	case *ast.IndexExpr:
		return recvName(t.X)
	case *ast.IndexListExpr:
		return recvName(t.X)
	}
	return "?"
}

func (tp *taintPass) run() {
	for round := 0; round < 12; round++ {
		tp.changed = false
		tp.sites = map[site]bool{}
		for _, k := range tp.order {
			tp.analyse(tp.funcs[k])
		}
		if !tp.changed {
			return
		}
	}
}

// ---- per-function analysis

type fstate struct {
	vars map[types.Object]label
}

func (s *fstate) copy() *fstate {
	n := &fstate{vars: make(map[types.Object]label, len(s.vars))}
	for k, v := range s.vars {
		n.vars[k] = v
	}
	return n
}

func (s *fstate) join(o *fstate) bool {
	ch := false
	for k, v := range o.vars {
		if s.vars[k]|v != s.vars[k] {
			s.vars[k] |= v
			ch = true
		}
	}
	return ch
}

type fwalk struct {
	tp      *taintPass
	fi      *funcInfo
	info    *types.Info
	fset    *token.FileSet
	litDeep int
	local   map[string]label // field taint seen inside this function (incl. PARAM bits)
}

func (tp *taintPass) analyse(fi *funcInfo) {
	w := &fwalk{tp: tp, fi: fi, info: fi.pkg.TypesInfo, fset: fi.pkg.Fset, local: map[string]label{}}
	st := &fstate{vars: map[types.Object]label{}}
	for i, p := range fi.params {
		if p != nil {
			st.vars[p] = paramBit(i)
		}
	}
	// two passes so that field taint written late in the body is seen early
	w.block(fi.decl.Body.List, st.copy())
	w.block(fi.decl.Body.List, st)
}

func (w *fwalk) pos(n ast.Node) (string, int) {
	p := w.fset.Position(n.Pos())
	rel, err := filepath.Rel(w.tp.repo, p.Filename)
	if err != nil {
		rel = p.Filename
	}
	return rel, p.Line
}

func (w *fwalk) reach(n ast.Node, l label, sink string) {
	if l == 0 {
		return
	}
	if l&clientBit != 0 && !w.tp.ownerFuncs[w.fi.key] {
		f, line := w.pos(n)
		w.tp.sites[site{f, w.fi.short, line, sink}] = true
	}
	for i := range w.fi.params {
		if l&paramBit(i) != 0 {
			if _, ok := w.fi.sinkParams[i]; !ok {
				w.fi.sinkParams[i] = sink
				w.tp.changed = true
			}
		}
	}
}

func (w *fwalk) flowField(key string, l label) {
	if l == 0 {
		return
	}
	w.local[key] |= l
	if l&clientBit != 0 && w.tp.fieldTaint[key]&clientBit == 0 {
		w.tp.fieldTaint[key] |= clientBit
		w.tp.changed = true
	}
	if pl := l &^ clientBit; pl != 0 && w.fi.fieldFlows[key]|pl != w.fi.fieldFlows[key] {
		w.fi.fieldFlows[key] |= pl
		w.tp.changed = true
	}
}

func (w *fwalk) block(list []ast.Stmt, st *fstate) {
	for _, s := range list {
		w.stmt(s, st)
	}
}

func (w *fwalk) stmt(s ast.Stmt, st *fstate) {
	switch s := s.(type) {
	case nil:
	case *ast.BlockStmt:
		w.block(s.List, st)
	case *ast.ExprStmt:
		w.expr(s.X, st)
	case *ast.AssignStmt:
		w.assign(s, st)
	case *ast.IncDecStmt:
		w.lhsWrite(s.X, st, s)
	case *ast.DeclStmt:
		if gd, ok := s.Decl.(*ast.GenDecl); ok {
			for _, sp := range gd.Specs {
				if vs, ok := sp.(*ast.ValueSpec); ok {
					var ls []label
					if len(vs.Values) == 1 && len(vs.Names) > 1 {
						ls = w.multi(vs.Values[0], st, len(vs.Names))
					} else {
						for _, v := range vs.Values {
							ls = append(ls, w.expr(v, st))
						}
					}
					for i, n := range vs.Names {
						var l label
						if i < len(ls) {
							l = ls[i]
						}
						if o := w.info.Defs[n]; o != nil {
							st.vars[o] = l
						}
					}
				}
			}
		}
	case *ast.ReturnStmt:
		if w.litDeep > 0 {
			for _, r := range s.Results {
				w.expr(r, st)
			}
			return
		}
		var ls []label
		switch {
		case len(s.Results) == 1 && len(w.fi.retLabels) > 1:
			ls = w.multi(s.Results[0], st, len(w.fi.retLabels))
		case len(s.Results) == 0 && w.fi.decl.Type.Results != nil:
			for _, fl := range w.fi.decl.Type.Results.List {
				for _, n := range fl.Names {
					ls = append(ls, st.vars[w.info.Defs[n]])
				}
			}
		default:
			for _, r := range s.Results {
				ls = append(ls, w.expr(r, st))
			}
		}
		for i, l := range ls {
			if i < len(w.fi.retLabels) && w.fi.retLabels[i]|l != w.fi.retLabels[i] {
				w.fi.retLabels[i] |= l
				w.tp.changed = true
			}
		}
	case *ast.IfStmt:
		w.stmt(s.Init, st)
		w.expr(s.Cond, st)
		a := st.copy()
		w.block(s.Body.List, a)
		b := st.copy()
		if s.Else != nil {
			w.stmt(s.Else, b)
		}
		*st = *a
		st.join(b)
	case *ast.ForStmt:
		w.stmt(s.Init, st)
		for i := 0; i < 6; i++ {
			body := st.copy()
			if s.Cond != nil {
				w.expr(s.Cond, body)
			}
			w.block(s.Body.List, body)
			w.stmt(s.Post, body)
			if !st.join(body) {
				break
			}
		}
	case *ast.RangeStmt:
		xl := w.expr(s.X, st)
		el := label(0)
		if t := w.info.TypeOf(s.X); t != nil {
			switch u := t.Underlying().(type) {
			case *types.Slice:
				if refLike(u.Elem()) {
					el = xl
				}
			case *types.Array:
				if refLike(u.Elem()) {
					el = xl
				}
			case *types.Map:
				if refLike(u.Elem()) {
					el = xl
				}
			case *types.Pointer:
				el = 0
			}
		}
		for i := 0; i < 6; i++ {
			body := st.copy()
			if id, ok := s.Key.(*ast.Ident); ok && id.Name != "_" {
				if o := w.objOf(id); o != nil {
					body.vars[o] = 0
				}
			}
			if id, ok := s.Value.(*ast.Ident); ok && id.Name != "_" {
				if o := w.objOf(id); o != nil {
					body.vars[o] = el
				}
			}
			w.block(s.Body.List, body)
			if !st.join(body) {
				break
			}
		}
	case *ast.SwitchStmt:
		w.stmt(s.Init, st)
		if s.Tag != nil {
			w.expr(s.Tag, st)
		}
		w.clauses(s.Body, st)
	case *ast.TypeSwitchStmt:
		w.stmt(s.Init, st)
		// x := y.(type): the bound variable aliases y
		var bound label
		var as *ast.AssignStmt
		if a, ok := s.Assign.(*ast.AssignStmt); ok {
			as = a
			if ta, ok := a.Rhs[0].(*ast.TypeAssertExpr); ok {
				bound = w.expr(ta.X, st)
			}
		} else if e, ok := s.Assign.(*ast.ExprStmt); ok {
			w.expr(e.X, st)
		}
		out := st.copy()
		for _, c := range s.Body.List {
			cc := c.(*ast.CaseClause)
			b := st.copy()
			if as != nil {
				if o := w.info.Implicits[cc]; o != nil {
					b.vars[o] = bound
				}
			}
			w.block(cc.Body, b)
			out.join(b)
		}
		*st = *out
	case *ast.SelectStmt:
		out := st.copy()
		for _, c := range s.Body.List {
			cc := c.(*ast.CommClause)
			b := st.copy()
			w.stmt(cc.Comm, b)
			w.block(cc.Body, b)
			out.join(b)
		}
		*st = *out
	case *ast.LabeledStmt:
		w.stmt(s.Stmt, st)
	case *ast.GoStmt:
		w.expr(s.Call, st)
	case *ast.DeferStmt:
		w.expr(s.Call, st)
	case *ast.SendStmt:
		w.expr(s.Chan, st)
		w.expr(s.Value, st)
	case *ast.BranchStmt, *ast.EmptyStmt:
	}
}

func (w *fwalk) clauses(body *ast.BlockStmt, st *fstate) {
	out := st.copy()
	for _, c := range body.List {
		cc := c.(*ast.CaseClause)
		b := st.copy()
		for _, e := range cc.List {
			w.expr(e, b)
		}
		w.block(cc.Body, b)
		out.join(b)
	}
	*st = *out
}

// zeroCap: a full slice expression x[l:h:m] whose capacity bound m-l is the constant 0.
func (w *fwalk) zeroCap(sl *ast.SliceExpr) bool {
	if !sl.Slice3 || sl.Max == nil {
		return false
	}
	c := func(e ast.Expr) (int64, bool) {
		if e == nil {
			return 0, true
		}
		tv, ok := w.info.Types[e]
		if !ok || tv.Value == nil {
			return 0, false
		}
		return constant.Int64Val(constant.ToInt(tv.Value))
	}
	lo, ok1 := c(sl.Low)
	mx, ok2 := c(sl.Max)
	return ok1 && ok2 && mx-lo == 0
}

func (w *fwalk) objOf(id *ast.Ident) types.Object {
	if o := w.info.Defs[id]; o != nil {
		return o
	}
	return w.info.Uses[id]
}

func refLike(t types.Type) bool {
	switch t.Underlying().(type) {
	case *types.Slice, *types.Map, *types.Pointer:
		return true
	}
	return false
}

func isSliceT(t types.Type) bool {
	if t == nil {
		return false
	}
	_, ok := t.Underlying().(*types.Slice)
	return ok
}

func (w *fwalk) assign(s *ast.AssignStmt, st *fstate) {
	var ls []label
	if len(s.Rhs) == 1 && len(s.Lhs) > 1 {
		ls = w.multi(s.Rhs[0], st, len(s.Lhs))
	} else {
		for _, r := range s.Rhs {
			ls = append(ls, w.expr(r, st))
		}
	}
	for i, lhs := range s.Lhs {
		var l label
		if i < len(ls) {
			l = ls[i]
		}
		switch x := ast.Unparen(lhs).(type) {
		case *ast.Ident:
			if x.Name == "_" {
				continue
			}
			if o := w.objOf(x); o != nil {
				if s.Tok == token.ASSIGN || s.Tok == token.DEFINE {
					if _, isPkgVar := o.(*types.Var); isPkgVar && o.Parent() == o.Pkg().Scope() {
						w.flowField("var:"+o.Pkg().Path()+"."+o.Name(), l)
					} else {
						st.vars[o] = l
					}
				}
			}
		default:
			w.lhsWrite(lhs, st, s)
			if sel, ok := ast.Unparen(lhs).(*ast.SelectorExpr); ok {
				if k := w.fieldKey(sel); k != "" {
					w.flowField(k, l)
				}
			}
		}
	}
}

// lhsWrite reports writes through a tainted slice on the left-hand side:
// x[i] = .., x[i].f = .., x[i]++ ; and writes of the client's maps.
func (w *fwalk) lhsWrite(lhs ast.Expr, st *fstate, at ast.Node) {
	e := ast.Unparen(lhs)
	for {
		switch x := e.(type) {
		case *ast.SelectorExpr:
			e = ast.Unparen(x.X)
			continue
		case *ast.StarExpr:
			e = ast.Unparen(x.X)
			continue
		case *ast.IndexExpr:
			t := w.info.TypeOf(x.X)
			if t != nil {
				switch u := t.Underlying().(type) {
				case *types.Slice:
					w.reach(at, w.expr(x.X, st), "index-assign")
				case *types.Pointer:
					if _, ok := u.Elem().Underlying().(*types.Array); ok {
						w.reach(at, w.expr(x.X, st), "index-assign")
					}
				case *types.Map:
					if sel, ok := ast.Unparen(x.X).(*ast.SelectorExpr); ok && w.isClientMap(sel) && !w.tp.ownerFuncs[w.fi.key] {
						f, line := w.pos(at)
						w.tp.sites[site{f, w.fi.short, line, "client-map-write"}] = true
					}
				}
			}
			w.expr(x.Index, st)
			e = ast.Unparen(x.X)
			continue
		}
		return
	}
}

// isClientMap: sel selects a map-of-slices field of a struct type that
// implements resolve.Client (the client's own store).
func (w *fwalk) isClientMap(sel *ast.SelectorExpr) bool {
	s := w.info.Selections[sel]
	if s == nil || s.Kind() != types.FieldVal {
		return false
	}
	m, ok := s.Obj().Type().Underlying().(*types.Map)
	if !ok || !isSliceT(m.Elem()) {
		return false
	}
	// the struct that declares the field (promotion through embedding included)
	t := deref(s.Recv())
	for _, i := range s.Index()[:len(s.Index())-1] {
		st, ok := t.Underlying().(*types.Struct)
		if !ok {
			return false
		}
		t = deref(st.Field(i).Type())
	}
	return w.tp.implementsClient(w.fi.pkg, derefNamed(t)) || w.tp.implementsClient(w.fi.pkg, derefNamed(s.Recv()))
}

func deref(t types.Type) types.Type {
	if p, ok := t.Underlying().(*types.Pointer); ok {
		return p.Elem()
	}
	return t
}

func (w *fwalk) fieldKey(sel *ast.SelectorExpr) string {
	s := w.info.Selections[sel]
	if s == nil || s.Kind() != types.FieldVal {
		return ""
	}
	return "field:" + types.TypeString(deref(s.Recv()), nil) + "." + s.Obj().Name()
}

// multi evaluates an expression used in a tuple context.
func (w *fwalk) multi(e ast.Expr, st *fstate, n int) []label {
	out := make([]label, n)
	switch x := ast.Unparen(e).(type) {
	case *ast.CallExpr:
		rs := w.call(x, st)
		copy(out, rs)
	case *ast.TypeAssertExpr:
		out[0] = w.expr(x.X, st)
	case *ast.IndexExpr:
		out[0] = w.expr(x, st)
	case *ast.UnaryExpr:
		out[0] = w.expr(x, st)
	default:
		out[0] = w.expr(e, st)
	}
	return out
}

func (w *fwalk) expr(e ast.Expr, st *fstate) label {
	switch x := e.(type) {
	case nil:
		return 0
	case *ast.ParenExpr:
		return w.expr(x.X, st)
	case *ast.Ident:
		o := w.objOf(x)
		if o == nil {
			return 0
		}
		if v, ok := o.(*types.Var); ok && v.Pkg() != nil && v.Parent() == v.Pkg().Scope() {
			k := "var:" + v.Pkg().Path() + "." + v.Name()
			return w.tp.fieldTaint[k] | w.local[k]
		}
		return st.vars[o]
	case *ast.SliceExpr:
		w.expr(x.Low, st)
		w.expr(x.High, st)
		w.expr(x.Max, st)
		return w.expr(x.X, st)
	case *ast.IndexExpr:
		w.expr(x.Index, st)
		if sel, ok := ast.Unparen(x.X).(*ast.SelectorExpr); ok && w.isClientMap(sel) {
			f, _ := w.pos(x)
			w.tp.sources[[3]string{f, w.fi.short, "LocalClient." + sel.Sel.Name + "[..]"}] = true
			w.expr(sel.X, st)
			return clientBit
		}
		xl := w.expr(x.X, st)
		if t := w.info.TypeOf(x); t != nil && refLike(t) {
			return xl
		}
		return 0
	case *ast.IndexListExpr:
		return w.expr(x.X, st)
	case *ast.StarExpr:
		return w.expr(x.X, st)
	case *ast.UnaryExpr:
		return w.expr(x.X, st)
	case *ast.BinaryExpr:
		w.expr(x.X, st)
		w.expr(x.Y, st)
		return 0
	case *ast.KeyValueExpr:
		w.expr(x.Key, st)
		return w.expr(x.Value, st)
	case *ast.TypeAssertExpr:
		return w.expr(x.X, st)
	case *ast.SelectorExpr:
		if k := w.fieldKey(x); k != "" {
			w.expr(x.X, st)
			return w.tp.fieldTaint[k] | w.local[k]
		}
		// qualified identifier or method value
		if id, ok := x.X.(*ast.Ident); ok {
			if _, isPkg := w.objOf(id).(*types.PkgName); isPkg {
				if v, ok := w.info.Uses[x.Sel].(*types.Var); ok && v.Pkg() != nil {
					k := "var:" + v.Pkg().Path() + "." + v.Name()
					return w.tp.fieldTaint[k] | w.local[k]
				}
				return 0
			}
		}
		w.expr(x.X, st)
		return 0
	case *ast.CompositeLit:
		t := w.info.TypeOf(x)
		var stT *types.Struct
		if t != nil {
			stT, _ = deref(t).Underlying().(*types.Struct)
		}
		for i, el := range x.Elts {
			if stT != nil {
				if kvx, ok := el.(*ast.KeyValueExpr); ok {
					l := w.expr(kvx.Value, st)
					if id, ok := kvx.Key.(*ast.Ident); ok {
						w.flowField("field:"+types.TypeString(deref(t), nil)+"."+id.Name, l)
					}
				} else if i < stT.NumFields() {
					w.flowField("field:"+types.TypeString(deref(t), nil)+"."+stT.Field(i).Name(), w.expr(el, st))
				}
				continue
			}
			w.expr(el, st)
		}
		return 0
	case *ast.FuncLit:
		w.litDeep++
		w.block(x.Body.List, st)
		w.litDeep--
		return 0
	case *ast.CallExpr:
		rs := w.call(x, st)
		if len(rs) > 0 {
			return rs[0]
		}
		return 0
	}
	return 0
}

// call evaluates a call: sinks, sources, sanitisers, summaries. It returns
// the labels of the results.
func (w *fwalk) call(c *ast.CallExpr, st *fstate) []label {
	fun := ast.Unparen(c.Fun)
	// generic instantiation f[T](...)
	switch ix := fun.(type) {
	case *ast.IndexExpr:
		if id := identOf(ix.X); id != nil {
			if _, ok := w.info.Instances[id]; ok {
				fun = ast.Unparen(ix.X)
			}
		}
	case *ast.IndexListExpr:
		fun = ast.Unparen(ix.X)
	}
	// conversion T(x)
	if tv, ok := w.info.Types[fun]; ok && tv.IsType() {
		var l label
		for _, a := range c.Args {
			l |= w.expr(a, st)
		}
		if len(c.Args) == 1 && isSliceT(tv.Type) && isSliceT(w.info.TypeOf(c.Args[0])) {
			return []label{l}
		}
		if len(c.Args) == 1 {
			// named non-slice conversions (e.g. sort.Interface adapters over a slice)
			if isSliceT(w.info.TypeOf(c.Args[0])) {
				return []label{l}
			}
		}
		return []label{0}
	}
	var argL []label
	evalArgs := func() {
		for _, a := range c.Args {
			argL = append(argL, w.expr(a, st))
		}
	}
	// builtins
	if id, ok := fun.(*ast.Ident); ok {
		if _, isB := w.objOf(id).(*types.Builtin); isB {
			evalArgs()
			switch id.Name {
			case "append":
				if len(c.Args) == 0 {
					return []label{0}
				}
				if sl, isSl := ast.Unparen(c.Args[0]).(*ast.SliceExpr); isSl {
					if w.zeroCap(sl) {
						// x[:0:0] has no capacity: append must allocate, nothing of x is written
						// or aliased (this is how slices.Clone itself is written)
						argL[0] = 0
					}
					w.reach(c, argL[0], "append(x[:i],..)")
				}
				if argL[0] == 0 && c.Ellipsis.IsValid() && len(argL) == 2 && argL[1]&clientBit != 0 {
					f, _ := w.pos(c)
					w.tp.clones[[3]string{f, w.fi.short, "append(fresh, x...)"}] = true
				}
				return []label{argL[0]}
			case "copy":
				if len(argL) > 0 {
					w.reach(c, argL[0], "copy(dst,..)")
					if argL[0] == 0 && len(argL) == 2 && argL[1]&clientBit != 0 {
						f, _ := w.pos(c)
						w.tp.clones[[3]string{f, w.fi.short, "copy(fresh, x)"}] = true
					}
				}
			case "clear":
				if len(argL) > 0 {
					w.reach(c, argL[0], "clear")
				}
			}
			return []label{0}
		}
	}
	var callee *types.Func
	var recv ast.Expr
	switch f := fun.(type) {
	case *ast.Ident:
		callee, _ = w.objOf(f).(*types.Func)
	case *ast.SelectorExpr:
		if s := w.info.Selections[f]; s != nil {
			if s.Kind() == types.MethodVal {
				callee, _ = s.Obj().(*types.Func)
				recv = f.X
			}
		} else {
			callee, _ = w.info.Uses[f.Sel].(*types.Func)
		}
	}
	var recvL label
	switch f := fun.(type) {
	case *ast.Ident:
	case *ast.SelectorExpr:
		if recv != nil {
			recvL = w.expr(recv, st)
		} else if s := w.info.Selections[f]; s != nil {
			w.expr(f.X, st) // call of a function-typed field
		}
	default:
		w.expr(fun, st) // call of a function literal or of a call's result
	}
	evalArgs()
	nres := 1
	if t, ok := w.info.TypeOf(c).(*types.Tuple); ok && t.Len() > 1 {
		nres = t.Len()
	}
	res := make([]label, nres)
	if callee == nil {
		return res
	}
	name := callee.Name()
	// sources
	// sources: a call through an interface that has the Client methods (the
	// implementation is unknown, so the result is client-owned); calls on a
	// concrete client type use that method's summary instead (LocalClient's
	// methods return its map entries, which are sources themselves).
	if recv != nil && isIface(w.info.TypeOf(recv)) && nres >= 1 && clientMethod(w.fi.pkg, callee) && isSliceT(firstResult(callee)) {
		f, _ := w.pos(c)
		w.tp.sources[[3]string{f, w.fi.short, "Client." + name}] = true
		res[0] = clientBit
		return res
	}
	key := funcKey(callee)
	q := ""
	if callee.Pkg() != nil {
		q = callee.Pkg().Path() + "." + name
	}
	if recv == nil {
		if q == "slices.Clone" || q == "bytes.Clone" || q == "maps.Clone" {
			if len(argL) == 1 && argL[0]&clientBit != 0 {
				f, _ := w.pos(c)
				w.tp.clones[[3]string{f, w.fi.short, q}] = true
			}
			return res
		}
		if libSinks[q] {
			if len(argL) > 0 {
				w.reach(c, argL[0], q)
			}
			if strings.HasPrefix(q, "slices.") && len(argL) > 0 {
				res[0] = argL[0]
			}
			return res
		}
		if libPass[q] && len(argL) > 0 {
			res[0] = argL[0]
			return res
		}
	}
	all := argL
	if recv != nil {
		all = append([]label{recvL}, argL...)
	}
	if namedSinks[key] {
		short := name
		if callee.Pkg() != nil && callee.Pkg() != w.fi.pkg.Types {
			short = callee.Pkg().Name() + "." + name
		}
		for i, a := range c.Args {
			if isSliceT(w.info.TypeOf(a)) {
				w.reach(c, argL[i], short)
			}
		}
	}
	if ci := w.tp.funcs[key]; ci != nil {
		short := ci.short
		if ci.pkg != w.fi.pkg {
			short = ci.pkg.Types.Name() + "." + short
		}
		sig, _ := callee.Type().(*types.Signature)
		packedFrom := len(all) + 1
		if sig != nil && sig.Variadic() && !c.Ellipsis.IsValid() {
			// arguments from this position on are packed into a fresh slice:
			// a write to that slice is not a write to the argument
			packedFrom = len(ci.params) - 1
		}
		for i, l := range all {
			if l == 0 {
				continue
			}
			pi := i
			if pi >= len(ci.params) { // variadic tail
				pi = len(ci.params) - 1
			}
			if pi < 0 {
				continue
			}
			if sk, ok := ci.sinkParams[pi]; ok && !namedSinks[key] && i < packedFrom {
				w.reach(c, l, short+">"+sk)
			}
			for fk, fl := range ci.fieldFlows {
				if fl&paramBit(pi) != 0 {
					w.flowField(fk, l)
				}
			}
		}
		for r := range res {
			if r >= len(ci.retLabels) {
				break
			}
			rl := ci.retLabels[r]
			if rl&clientBit != 0 {
				res[r] |= clientBit
			}
			for i, l := range all {
				pi := i
				if pi >= len(ci.params) {
					pi = len(ci.params) - 1
				}
				if pi >= 0 && rl&paramBit(pi) != 0 {
					res[r] |= l
				}
			}
		}
	}
	return res
}

func firstResult(f *types.Func) types.Type {
	sig, ok := f.Type().(*types.Signature)
	if !ok || sig.Results().Len() == 0 {
		return nil
	}
	return sig.Results().At(0).Type()
}

func isIface(t types.Type) bool {
	if t == nil {
		return false
	}
	_, ok := t.Underlying().(*types.Interface)
	return ok
}

func identOf(e ast.Expr) *ast.Ident {
	switch x := ast.Unparen(e).(type) {
	case *ast.Ident:
		return x
	case *ast.SelectorExpr:
		return x.Sel
	}
	return nil
}

// ---- output

func leanStrList(xs []string) string {
	q := make([]string, len(xs))
	for i, x := range xs {
		q[i] = fw.LeanStr(x)
	}
	return "(" + strings.Join(q, ", ") + ")"
}

func genClientSliceWrites(repo string) (string, error) {
	tp, err := newTaintPass(repo)
	if err != nil {
		return "", err
	}
	tp.run()
	var ss []site
	for s := range tp.sites {
		ss = append(ss, s)
	}
	sort.Slice(ss, func(i, j int) bool {
		if ss[i].file != ss[j].file {
			return ss[i].file < ss[j].file
		}
		if ss[i].line != ss[j].line {
			return ss[i].line < ss[j].line
		}
		return ss[i].sink < ss[j].sink
	})
	var b strings.Builder
	b.WriteString("/-! Taint pass over util/resolve, util/resolve/{npm,maven,pypi}: values obtained from\n")
	b.WriteString("Client.Versions / Requirements / MatchingVersions (or LocalClient's maps) that reach an\n")
	b.WriteString("in-place write without an intervening copy. See harness/cmd/c05/taint.go. -/\n")
	b.WriteString("namespace DepsDev.Gen.C05ClientSliceWrites\n\n")
	b.WriteString("/-- (file, function, line, sink) -/\ndef sites : List (String × String × Nat × String) := [")
	for i, s := range ss {
		if i > 0 {
			b.WriteString(",")
		}
		fmt.Fprintf(&b, "\n  (%s, %s, %d, %s)", fw.LeanStr(s.file), fw.LeanStr(s.fn), s.line, fw.LeanStr(s.sink))
	}
	b.WriteString("]\n\n")
	emit3 := func(name, doc string, m map[[3]string]bool) {
		var ks [][3]string
		for k := range m {
			ks = append(ks, k)
		}
		sort.Slice(ks, func(i, j int) bool {
			for x := 0; x < 3; x++ {
				if ks[i][x] != ks[j][x] {
					return ks[i][x] < ks[j][x]
				}
			}
			return false
		})
		fmt.Fprintf(&b, "/-- %s -/\ndef %s : List (String × String × String) := [", doc, name)
		for i, k := range ks {
			if i > 0 {
				b.WriteString(",")
			}
			fmt.Fprintf(&b, "\n  %s", leanStrList(k[:]))
		}
		b.WriteString("]\n\n")
	}
	emit3("sources", "client reads the pass saw: (file, function, what)", tp.sources)
	emit3("clones", "client-derived values that pass through a copy: (file, function, how)", tp.clones)
	// derived summaries, for the reader: own functions that write through a parameter
	var sk []string
	for _, k := range tp.order {
		fi := tp.funcs[k]
		var is []int
		for i := range fi.sinkParams {
			is = append(is, i)
		}
		sort.Ints(is)
		for _, i := range is {
			sk = append(sk, fmt.Sprintf("%s#%d:%s", fi.key, i, fi.sinkParams[i]))
		}
	}
	b.WriteString("/-- own functions that write through a parameter (derived summaries): function#param:sink -/\ndef writers : List String := [")
	for i, s := range sk {
		if i > 0 {
			b.WriteString(",")
		}
		b.WriteString("\n  " + fw.LeanStr(s))
	}
	b.WriteString("]\n\n")
	fmt.Fprintf(&b, "def functionsAnalysed : Nat := %d\n\nend DepsDev.Gen.C05ClientSliceWrites\n", len(tp.funcs))
	if len(tp.sources) == 0 {
		return "", fmt.Errorf("taint pass saw no client read at all")
	}
	return b.String(), nil
}
