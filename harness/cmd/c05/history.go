package main

// The history / permutation / concurrency replay of one op line
//
//	C05 history <sys> <universe> roots=<r1,r2,...> perm=<seed>
//
// against the real resolvers and the real LocalClient.

import (
	"context"
	"crypto/sha256"
	"encoding/hex"
	"fmt"
	"math/rand"
	"sort"
	"strconv"
	"strings"
	"sync"
	"time"

	"deps.dev/util/resolve"
	"deps.dev/util/resolve/maven"
	"deps.dev/util/resolve/npm"
	"deps.dev/util/resolve/pypi"
	"deps.dev/util/resolve/version"
)

var ctxBG = context.Background()

const (
	soloDeadline  = 300 * time.Millisecond // a root whose solo resolution exceeds this is left out (recorded as to=)
	laterDeadline = 3 * time.Second        // every later resolution of a root that finished solo
	opBudget      = 9 * time.Second        // whole op; beyond it the op reports "timeout"
	maxConc       = 16
)

func newResolver(sys resolve.System, c resolve.Client) resolve.Resolver {
	switch sys {
	case resolve.NPM:
		return npm.NewResolver(c)
	case resolve.Maven:
		return maven.NewResolver(c)
	default:
		return pypi.NewResolver(c)
	}
}

// canonGraph is the canonical text of a resolution outcome. Error texts of
// the Resolve call itself are not part of the property (DESIGN 3.2); a
// graph-level Error is reduced to a flag; node errors are kept.
func canonGraph(g *resolve.Graph, err error) string {
	if err != nil {
		return "err"
	}
	if g == nil {
		return "nil"
	}
	ge := ""
	if g.Error != "" {
		ge = "E! "
	}
	pre := ""
	if cerr := g.Canon(); cerr != nil {
		// Not canonicalisable: node ids stay as they are; compare edge
		// and node multisets by content instead.
		pre = "nocanon "
		var ns, es []string
		for _, n := range g.Nodes {
			ns = append(ns, flatNode(n))
		}
		for _, e := range g.Edges {
			es = append(es, fmt.Sprintf("%s>%s:%q:%s", flatNode(g.Nodes[e.From]), flatNode(g.Nodes[e.To]), e.Requirement, e.Type))
		}
		root := ""
		if len(ns) > 0 {
			root = ns[0]
		}
		sort.Strings(ns)
		sort.Strings(es)
		return ge + pre + "root=" + root + " N=" + strings.Join(ns, ",") + " E=" + strings.Join(es, ",")
	}
	var b strings.Builder
	b.WriteString(ge)
	b.WriteString("N=")
	for i, n := range g.Nodes {
		if i > 0 {
			b.WriteByte(',')
		}
		fmt.Fprintf(&b, "%d:%s", i, flatNode(n))
	}
	b.WriteString(" E=")
	for i, e := range g.Edges {
		if i > 0 {
			b.WriteByte(',')
		}
		fmt.Fprintf(&b, "%d>%d:%q:%s", e.From, e.To, e.Requirement, e.Type)
	}
	return b.String()
}

func flatNode(n resolve.Node) string {
	s := fmt.Sprintf("%q@%q", n.Version.Name, n.Version.Version)
	if n.Version.VersionType != resolve.Concrete {
		s += fmt.Sprintf("/t%d", n.Version.VersionType)
	}
	for _, e := range n.Errors {
		s += fmt.Sprintf("[!%q@%q:%q]", e.Req.Name, e.Req.Version, e.Error)
	}
	return s
}

// resolveLater is resolveOne for the phases after G0: a timeout of a root that
// finished solo is retried once, alone, with a longer deadline, so that a
// loaded machine is not mistaken for a history-dependent result.
func resolveLater(r resolve.Resolver, sys resolve.System, root rootRef, want string) string {
	got := resolveOne(r, sys, root, laterDeadline)
	if got == "timeout" && want != "timeout" {
		got = resolveOne(r, sys, root, 2*laterDeadline)
	}
	return got
}

func resolveOne(r resolve.Resolver, sys resolve.System, root rootRef, d time.Duration) (out string) {
	defer func() {
		if rec := recover(); rec != nil {
			out = "panic"
		}
	}()
	ctx, cancel := context.WithTimeout(ctxBG, d)
	defer cancel()
	vk := resolve.VersionKey{PackageKey: resolve.PackageKey{System: sys, Name: root.Name}, VersionType: resolve.Concrete, Version: root.Version}
	type res struct {
		g   *resolve.Graph
		err error
		pan bool
	}
	ch := make(chan res, 1)
	go func() {
		defer func() {
			if rec := recover(); rec != nil {
				ch <- res{pan: true}
			}
		}()
		g, err := r.Resolve(ctx, vk)
		ch <- res{g: g, err: err}
	}()
	// Wait for the resolution goroutine itself: a resolver that is still
	// running must not be used for the next call (the PyPI resolver's
	// caches are not locked), so an expired deadline is not a reason to
	// walk away. The resolvers poll their context (PyPI every 100 rounds),
	// so this returns soon after the deadline; one that does not return
	// within 15 s more is reported as "hang".
	select {
	case x := <-ch:
		if x.pan {
			return "panic"
		}
		if ctx.Err() != nil {
			return "timeout"
		}
		return canonGraph(x.g, x.err)
	case <-time.After(d + 15*time.Second):
		return "hang"
	}
}

// dumpClient is everything a client reports: for every package (known or
// mentioned), Versions with attributes; for every version, Version and
// Requirements with types; MatchingVersions for every requirement of the
// universe plus a few fixed probes.
func dumpClient(c resolve.Client, u *universe) string {
	var b strings.Builder
	sys := u.Sys
	pkgSet := map[string]bool{}
	type rq struct{ n, v string }
	reqSet := map[rq]bool{}
	for _, p := range u.Pkgs {
		pkgSet[p.Name] = true
		for _, v := range p.Vers {
			for _, r := range v.Reqs {
				pkgSet[r.Name] = true
				reqSet[rq{r.Name, r.Version}] = true
			}
		}
	}
	var names []string
	for n := range pkgSet {
		names = append(names, n)
	}
	sort.Strings(names)
	probes := []string{"", "*", "latest", "1.0", "1.0.0", ">=1.0", "[1.0,)", "^1.0.0"}
	for _, n := range names {
		for _, pr := range probes {
			reqSet[rq{n, pr}] = true
		}
	}
	verStr := func(v resolve.Version) string {
		var as []string
		v.ForEachAttr(func(k version.AttrKey, val string) { as = append(as, fmt.Sprintf("%d=%q", int(k), val)) })
		return fmt.Sprintf("%s{%s}", v.Version, strings.Join(as, ","))
	}
	for _, n := range names {
		pk := resolve.PackageKey{System: sys, Name: n}
		vs, err := c.Versions(ctxBG, pk)
		if err != nil {
			fmt.Fprintf(&b, "P %q err\n", n)
			continue
		}
		fmt.Fprintf(&b, "P %q:", n)
		for _, v := range vs {
			b.WriteByte(' ')
			b.WriteString(verStr(v))
		}
		b.WriteByte('\n')
		for _, v := range vs {
			w, err := c.Version(ctxBG, v.VersionKey)
			if err != nil {
				fmt.Fprintf(&b, " V %q err\n", v.Version)
			} else {
				fmt.Fprintf(&b, " V %s\n", verStr(w))
			}
			rs, err := c.Requirements(ctxBG, v.VersionKey)
			if err != nil {
				fmt.Fprintf(&b, " R %q err\n", v.Version)
				continue
			}
			fmt.Fprintf(&b, " R %q:", v.Version)
			for _, r := range rs {
				fmt.Fprintf(&b, " %q@%q[%s]", r.Name, r.Version, r.Type)
			}
			b.WriteByte('\n')
		}
	}
	var rqs []rq
	for r := range reqSet {
		rqs = append(rqs, r)
	}
	sort.Slice(rqs, func(i, j int) bool {
		if rqs[i].n != rqs[j].n {
			return rqs[i].n < rqs[j].n
		}
		return rqs[i].v < rqs[j].v
	})
	if len(rqs) > 800 { // very large universes: an even sample of the requirement probes
		step := len(rqs)/800 + 1
		var sub []rq
		for i := 0; i < len(rqs); i += step {
			sub = append(sub, rqs[i])
		}
		rqs = sub
	}
	for _, r := range rqs {
		vk := resolve.VersionKey{PackageKey: resolve.PackageKey{System: sys, Name: r.n}, VersionType: resolve.Requirement, Version: r.v}
		ms, err := c.MatchingVersions(ctxBG, vk)
		if err != nil {
			fmt.Fprintf(&b, "M %q@%q err\n", r.n, r.v)
			continue
		}
		fmt.Fprintf(&b, "M %q@%q:", r.n, r.v)
		for _, m := range ms {
			b.WriteByte(' ')
			b.WriteString(verStr(m))
		}
		b.WriteByte('\n')
	}
	return b.String()
}

type histOut struct {
	timeout                       bool
	g0                            map[rootRef]string
	live                          []rootRef // roots (in op order, with repetitions) whose solo run finished
	dropped                       int
	beforeAfter, hist, perm, conc bool
	skipped                       bool   // perm and conc not run because an earlier phase failed
	firstBad                      string // first disagreement, human-readable
	nontrivial                    int    // roots whose graph has an edge
}

// runHistory executes the op. phases: bit set of phases to run beyond G0
// (1 = history+before/after, 2 = permutation, 4 = concurrency).
func runHistory(u *universe, roots []rootRef, permSeed int64, phases int) histOut {
	o := histOut{g0: map[rootRef]string{}, beforeAfter: true, hist: true, perm: true, conc: true}
	start := time.Now()
	over := func() bool { return time.Since(start) > opBudget }
	note := func(format string, a ...any) {
		if o.firstBad == "" {
			o.firstBad = fmt.Sprintf(format, a...)
		}
	}
	sys := u.Sys

	// race-detector mode (phases == 8): only the concurrent section, nothing compared.
	if phases == 8 {
		c := u.client(nil)
		var tasks []rootRef
		for len(tasks) < 2*maxConc && len(roots) > 0 {
			tasks = append(tasks, roots...)
		}
		if len(tasks) > 4*maxConc {
			tasks = tasks[:4*maxConc]
		}
		shared := newResolver(sys, c)
		var wg sync.WaitGroup
		gate := make(chan struct{})
		for w := 0; w < maxConc; w++ {
			wg.Add(1)
			go func(w int) {
				defer wg.Done()
				r := shared
				if sys == resolve.PyPI {
					r = newResolver(sys, c)
				}
				<-gate
				for i := w; i < len(tasks); i += maxConc {
					resolveOne(r, sys, tasks[i], soloDeadline)
				}
			}(w)
		}
		close(gate)
		wg.Wait()
		return o
	}

	// (ii) every distinct root once on a fresh client and a fresh resolver.
	to := 0
	for _, rt := range roots {
		if _, ok := o.g0[rt]; ok {
			continue
		}
		c := u.client(nil)
		o.g0[rt] = resolveOne(newResolver(sys, c), sys, rt, soloDeadline)
		if o.g0[rt] == "hang" { // ignored its context for 15 s: termination is C04's subject; left out here
			o.g0[rt] = "timeout"
		}
		if o.g0[rt] == "timeout" {
			to++
			if to > 3 {
				o.timeout = true
				return o
			}
		} else if strings.Contains(o.g0[rt], " E=") && !strings.HasSuffix(o.g0[rt], " E=") {
			o.nontrivial++
		}
	}
	for _, rt := range roots {
		if o.g0[rt] != "timeout" {
			o.live = append(o.live, rt)
		}
	}
	o.dropped = to

	// (i),(iii),(iv) one shared client and one resolver, the whole root list twice.
	if phases&1 != 0 {
		c := u.client(nil)
		before := dumpClient(c, u)
		r := newResolver(sys, c)
		for pass := 0; pass < 2 && !over(); pass++ {
			for i, rt := range o.live {
				got := resolveLater(r, sys, rt, o.g0[rt])
				if got != o.g0[rt] {
					o.hist = false
					note("history: pass %d position %d root %s@%s\nfresh:\n%s\nshared:\n%s", pass, i, rt.Name, rt.Version, o.g0[rt], got)
				}
				if over() {
					break
				}
			}
		}
		after := dumpClient(c, u)
		if after != before {
			o.beforeAfter = false
			note("client changed:\n%s", firstDiff(before, after))
		}
		// a client built the same way a second time reports the same
		if d2 := dumpClient(u.client(nil), u); d2 != before {
			o.beforeAfter = false
			note("two clients built from the same calls differ:\n%s", firstDiff(before, d2))
		}
	}
	if over() {
		o.timeout = true
		return o
	}

	// A history that already failed is not run further (under a defect the
	// remaining phases can be slow); the skipped flags print as "-".
	if !(o.beforeAfter && o.hist) {
		o.skipped = true
		return o
	}

	// (v) permuted insertion order.
	if phases&2 != 0 && u.distinctKeys() {
		rng := rand.New(rand.NewSource(permSeed))
		n := len(u.items())
		ref := dumpClient(u.client(nil), u)
		for round := 0; round < 2 && !over(); round++ {
			perm := rng.Perm(n)
			if round == 1 { // reversed order as a fixed second permutation
				for i := range perm {
					perm[i] = n - 1 - i
				}
			}
			c := u.client(perm)
			if d := dumpClient(c, u); d != ref {
				o.perm = false
				note("insertion order %v changes what the client reports:\n%s", perm, firstDiff(ref, d))
			}
			seen := map[rootRef]bool{}
			for _, rt := range o.live {
				if seen[rt] {
					continue
				}
				seen[rt] = true
				got := resolveLater(newResolver(sys, c), sys, rt, o.g0[rt])
				if got != o.g0[rt] {
					o.perm = false
					note("insertion order %v: root %s@%s\nuniverse order:\n%s\npermuted:\n%s", perm, rt.Name, rt.Version, o.g0[rt], got)
				}
				if over() {
					break
				}
			}
		}
	}
	if over() {
		o.timeout = true
		return o
	}

	// (vi) concurrency: up to 16 goroutines over one shared client, in a
	// child process (see conc.go).
	if phases&4 != 0 && len(o.live) > 0 {
		var tasks []rootRef
		for len(tasks) < 2*maxConc {
			tasks = append(tasks, o.live...)
		}
		if len(tasks) > 4*maxConc {
			tasks = tasks[:4*maxConc]
		}
		hashes, same, crashed, err := concInChild(u, tasks)
		switch {
		case err != nil:
			// could not run the child at all (or it exceeded its time): nothing observed
			o.timeout = true
			return o
		case crashed != "":
			o.conc = false
			note("concurrent: the process running %d concurrent Resolve calls over one client died:\n%s", len(tasks), crashed)
		default:
			for i, rt := range tasks {
				want := o.g0[rt]
				if i >= len(hashes) || hashes[i] != shortHash(want) {
					o.conc = false
					got := "?"
					if i < len(hashes) {
						got = hashes[i]
					}
					note("concurrent: task %d root %s@%s\nsolo:\n%s\nconcurrent (hash or outcome): %s, expected hash %s", i, rt.Name, rt.Version, want, got, shortHash(want))
				}
			}
			if !same {
				o.conc = false
				note("client changed under concurrent resolution")
			}
		}
	}
	if over() {
		o.timeout = true
	}
	return o
}

func firstDiff(a, b string) string {
	la, lb := strings.Split(a, "\n"), strings.Split(b, "\n")
	for i := 0; i < len(la) || i < len(lb); i++ {
		x, y := "<none>", "<none>"
		if i < len(la) {
			x = la[i]
		}
		if i < len(lb) {
			y = lb[i]
		}
		if x != y {
			return fmt.Sprintf("line %d\n  before: %s\n  after:  %s", i, x, y)
		}
	}
	return "(equal)"
}

func b01(b bool) string {
	if b {
		return "1"
	}
	return "0"
}

func (o *histOut) line() string {
	if o.timeout {
		return "timeout"
	}
	// hash of G0 over the distinct roots in sorted order
	var ks []rootRef
	for k := range o.g0 {
		ks = append(ks, k)
	}
	sort.Slice(ks, func(i, j int) bool {
		if ks[i].Name != ks[j].Name {
			return ks[i].Name < ks[j].Name
		}
		return ks[i].Version < ks[j].Version
	})
	h := sha256.New()
	for _, k := range ks {
		fmt.Fprintf(h, "%q %q\n%s\n", k.Name, k.Version, o.g0[k])
	}
	pf, cf := b01(o.perm), b01(o.conc)
	if o.skipped {
		pf, cf = "-", "-"
	}
	return fmt.Sprintf("ok g0=%s n=%d nt=%d to=%d before=after:%s hist:%s perm:%s conc:%s",
		hex.EncodeToString(h.Sum(nil))[:12], len(ks), o.nontrivial, o.dropped, b01(o.beforeAfter), b01(o.hist), pf, cf)
}

// parseHistory decodes the fields after "history".
func parseHistory(f []string) (u *universe, roots []rootRef, seed int64, ok bool) {
	if len(f) != 4 || !strings.HasPrefix(f[2], "roots=") || !strings.HasPrefix(f[3], "perm=") {
		return nil, nil, 0, false
	}
	sys, ok := sysOf(f[0])
	if !ok {
		return nil, nil, 0, false
	}
	u, ok = decodeUniverse(sys, f[1])
	if !ok {
		return nil, nil, 0, false
	}
	roots, ok = decRoots(strings.TrimPrefix(f[2], "roots="))
	if !ok {
		return nil, nil, 0, false
	}
	seed, err := strconv.ParseInt(strings.TrimPrefix(f[3], "perm="), 10, 64)
	if err != nil {
		return nil, nil, 0, false
	}
	return u, roots, seed, true
}

func historyLine(u *universe, roots []rootRef, seed int64) string {
	return fmt.Sprintf("C05 history %s %s roots=%s perm=%d", sysName(u.Sys), u.encode(), encRoots(roots), seed)
}
