package main

// Translator generators C05ResolverShared, C05LruCaps, C05LruTraces.

import (
	"fmt"
	"go/ast"
	"go/constant"
	"go/token"
	"go/types"
	"math/rand"
	"os"
	"os/exec"
	"path/filepath"
	"sort"
	"strings"

	"golang.org/x/tools/go/packages"
	"verifharness/fw"
)

const resolvePath = "deps.dev/util/resolve"

// resolveIface returns the interface type util/resolve.<name> AS SEEN FROM p
// (each package is loaded in its own type universe, so the object must come
// from p's own import graph for types.Implements to mean anything).
func resolveIface(p *packages.Package, name string) *types.Interface {
	var tp *types.Package
	if p.PkgPath == resolvePath {
		tp = p.Types
	} else if ip := p.Imports[resolvePath]; ip != nil {
		tp = ip.Types
	}
	if tp == nil {
		return nil
	}
	o := tp.Scope().Lookup(name)
	if o == nil {
		return nil
	}
	it, _ := o.Type().Underlying().(*types.Interface)
	return it
}

// implementers lists p's own named struct types T such that T or *T implements
// it, in name order. This is how the translator finds "the resolver struct" and
// "the local client": by what the type IS, not by what it is called.
func implementers(p *packages.Package, it *types.Interface) []*types.Named {
	var out []*types.Named
	if it == nil {
		return nil
	}
	sc := p.Types.Scope()
	for _, n := range sc.Names() {
		tn, ok := sc.Lookup(n).(*types.TypeName)
		if !ok || tn.IsAlias() {
			continue
		}
		nt, ok := tn.Type().(*types.Named)
		if !ok {
			continue
		}
		if _, isStruct := nt.Underlying().(*types.Struct); !isStruct {
			continue
		}
		if types.Implements(nt, it) || types.Implements(types.NewPointer(nt), it) {
			out = append(out, nt)
		}
	}
	return out
}

// derefNamed: the named type behind t or *t (instantiations mapped to their origin).
func derefNamed(t types.Type) *types.Named {
	if t == nil {
		return nil
	}
	if p, ok := t.(*types.Pointer); ok {
		t = p.Elem()
	}
	n, _ := t.(*types.Named)
	if n != nil {
		n = n.Origin()
	}
	return n
}

// deadNodes: statements that can never run because an if condition is a
// compile-time constant (`if debug { .. }` with `const debug = false`, the else
// branch of a constant-true condition). go/types has folded the condition.
func deadNodes(p *packages.Package, body ast.Node) map[ast.Node]bool {
	dead := map[ast.Node]bool{}
	ast.Inspect(body, func(n ast.Node) bool {
		is, ok := n.(*ast.IfStmt)
		if !ok || is.Init != nil {
			return true
		}
		tv, ok := p.TypesInfo.Types[is.Cond]
		if !ok || tv.Value == nil || tv.Value.Kind() != constant.Bool {
			return true
		}
		if constant.BoolVal(tv.Value) {
			if is.Else != nil {
				dead[is.Else] = true
			}
		} else {
			dead[is.Body] = true
		}
		return true
	})
	return dead
}

// storesIntoCache: call is a method call on an LRU cache whose (generic) method
// has a parameter of the cache's VALUE type parameter, i.e. it puts a value in
// (today: Add(k K, v V); Get(k K) has no such parameter).
func storesIntoCache(p *packages.Package, call *ast.CallExpr) bool {
	sel, ok := ast.Unparen(call.Fun).(*ast.SelectorExpr)
	if !ok {
		return false
	}
	s := p.TypesInfo.Selections[sel]
	if s == nil || s.Kind() != types.MethodVal || !isLruCacheType(ptrTo(s.Recv())) {
		return false
	}
	fn, ok := s.Obj().(*types.Func)
	if !ok {
		return false
	}
	sig, ok := fn.Origin().Type().(*types.Signature)
	if !ok {
		return false
	}
	for i := 0; i < sig.Params().Len(); i++ {
		if tp, ok := sig.Params().At(i).Type().(*types.TypeParam); ok && tp.Index() >= 1 {
			return true
		}
	}
	return false
}

func ptrTo(t types.Type) types.Type {
	if _, ok := t.(*types.Pointer); ok {
		return t
	}
	return types.NewPointer(t)
}

// isClientType: the interface deps.dev/util/resolve.Client.
func isClientType(t types.Type) bool {
	n, ok := t.(*types.Named)
	return ok && n.Obj().Pkg() != nil && n.Obj().Pkg().Path() == "deps.dev/util/resolve" && n.Obj().Name() == "Client"
}

// isLruCacheType: *pypi/internal/lru.Cache[..].
func isLruCacheType(t types.Type) bool {
	p, ok := t.(*types.Pointer)
	if !ok {
		return false
	}
	n, ok := p.Elem().(*types.Named)
	return ok && n.Obj().Pkg() != nil && strings.HasSuffix(n.Obj().Pkg().Path(), "pypi/internal/lru") && n.Obj().Name() == "Cache"
}

// immutableType: a value of this type, once set, cannot change without an
// assignment to the variable holding it, and holds no reference to anything
// that can: booleans, numbers, strings, named types over those without
// pointer-receiver methods, arrays and structs of such (again without
// pointer-receiver methods: sync.Mutex or atomic.Int64 are NOT immutable).
func immutableType(t types.Type) bool {
	if n, ok := t.(*types.Named); ok {
		ms := types.NewMethodSet(types.NewPointer(n))
		for i := 0; i < ms.Len(); i++ {
			if f, ok := ms.At(i).Obj().(*types.Func); ok {
				if sig, ok := f.Type().(*types.Signature); ok && sig.Recv() != nil {
					if _, ptr := sig.Recv().Type().(*types.Pointer); ptr {
						return false
					}
				}
			}
		}
	}
	switch u := t.Underlying().(type) {
	case *types.Basic:
		return u.Kind() != types.UnsafePointer && u.Info()&(types.IsBoolean|types.IsNumeric|types.IsString) != 0
	case *types.Array:
		return immutableType(u.Elem())
	case *types.Struct:
		for i := 0; i < u.NumFields(); i++ {
			if !immutableType(u.Field(i).Type()) {
				return false
			}
		}
		return true
	}
	return false
}

func relType(t types.Type) string {
	return types.TypeString(t, func(p *types.Package) string { return p.Path() })
}

// genResolverShared lists the fields of the three resolver structs (the struct
// type of each resolver package that implements resolve.Resolver, whatever its
// name), every write to one of them outside a constructor, and every package-level
// variable of the resolver packages (and util/resolve) that some function
// other than init writes (assignment, index assignment, append-assignment,
// delete, ++/--, address taken, or a pointer-receiver method call on a
// variable of a sync / container / own struct type).
func genResolverShared(repo string) (string, error) {
	pkgs, err := loadResolvePkgs(repo)
	if err != nil {
		return "", err
	}
	var fields, fwrites, stateful [][]string
	var vwrites, vars [][]string
	var fillerReads, fillerOther [][]string
	for _, p := range pkgs {
		sysn := p.Types.Name()
		// the resolver struct of a resolver package: its struct type that implements
		// resolve.Resolver (whatever it is called)
		isResolverPkg := p.PkgPath != resolvePath
		var st *types.Struct
		var named *types.Named
		if isResolverPkg {
			impls := implementers(p, resolveIface(p, "Resolver"))
			if len(impls) != 1 {
				return "", fmt.Errorf("%s: %d struct types implement resolve.Resolver, want exactly 1", p.PkgPath, len(impls))
			}
			named = impls[0]
			st = named.Underlying().(*types.Struct)
		}
		if st != nil && isResolverPkg {
			for i := 0; i < st.NumFields(); i++ {
				ft := st.Field(i).Type()
				class := "other"
				switch {
				case isClientType(ft):
					class = "client"
				case isLruCacheType(ft):
					class = "lru-cache"
				case immutableType(ft):
					class = "immutable"
				}
				fields = append(fields, []string{sysn, st.Field(i).Name(), relType(ft), class})
				if class == "lru-cache" || class == "other" {
					stateful = append(stateful, []string{sysn, st.Field(i).Name(), relType(ft), class})
				}
			}
		}
		// package-level vars
		scope := p.Types.Scope()
		pkgVar := func(o types.Object) bool {
			v, ok := o.(*types.Var)
			return ok && v.Parent() == scope
		}
		for _, n := range scope.Names() {
			if v, ok := scope.Lookup(n).(*types.Var); ok {
				vars = append(vars, []string{sysn, n, relType(v.Type())})
			}
		}
		for _, f := range p.Syntax {
			for _, d := range f.Decls {
				fd, ok := d.(*ast.FuncDecl)
				if !ok || fd.Body == nil {
					continue
				}
				fname := fd.Name.Name
				if fd.Recv != nil && len(fd.Recv.List) > 0 {
					fname = recvName(fd.Recv.List[0].Type) + "." + fname
				}
				isInit := fd.Recv == nil && fd.Name.Name == "init"
				// assignments inside a constructor, before the object is handed out, are
				// construction. A constructor is recognised by what it does: a function
				// without receiver and without a resolver parameter that creates a
				// resolver value (composite literal or new).
				isCtor := fd.Recv == nil && named != nil && createsValueOf(p, fd, named)
				// functions that fill an LRU cache: which fields of this package's
				// own structs do they read (directly, closures included)?
				fills := false
				dead := deadNodes(p, fd.Body)
				ast.Inspect(fd.Body, func(n ast.Node) bool {
					if n != nil && dead[n] {
						return false
					}
					if call, ok := n.(*ast.CallExpr); ok && storesIntoCache(p, call) {
						fills = true
					}
					return true
				})
				if fills {
					ast.Inspect(fd.Body, func(n ast.Node) bool {
						if n != nil && dead[n] {
							return false // a read that can never execute decides nothing
						}
						sel, ok := n.(*ast.SelectorExpr)
						if !ok {
							return true
						}
						s := p.TypesInfo.Selections[sel]
						if s == nil || s.Kind() != types.FieldVal {
							return true
						}
						if nt, ok := deref(s.Recv()).(*types.Named); ok && nt.Obj().Pkg() == p.Types {
							row := []string{sysn, fname, nt.Obj().Name() + "." + s.Obj().Name(), relType(s.Obj().Type())}
							fillerReads = append(fillerReads, row)
							if ft := s.Obj().Type(); !isClientType(ft) && !isLruCacheType(ft) {
								fillerOther = append(fillerOther, row)
							}
						}
						return true
					})
				}
				rootVar := func(e ast.Expr) (types.Object, bool) {
					direct := true
					for {
						switch x := ast.Unparen(e).(type) {
						case *ast.Ident:
							o := p.TypesInfo.Uses[x]
							if o != nil && pkgVar(o) {
								return o, direct
							}
							return nil, false
						case *ast.IndexExpr:
							e, direct = x.X, false
						case *ast.SelectorExpr:
							if s := p.TypesInfo.Selections[x]; s != nil && s.Kind() == types.FieldVal {
								e, direct = x.X, false
							} else if o := p.TypesInfo.Uses[x.Sel]; o != nil && pkgVar(o) {
								return o, direct
							} else {
								return nil, false
							}
						case *ast.StarExpr:
							e, direct = x.X, false
						case *ast.SliceExpr:
							e, direct = x.X, false
						default:
							return nil, false
						}
					}
				}
				noteVar := func(e ast.Expr, how string) {
					if isInit {
						return
					}
					if o, _ := rootVar(e); o != nil {
						vwrites = append(vwrites, []string{o.Pkg().Name(), o.Name(), fname, how})
					}
				}
				resolverField := func(e ast.Expr) string {
					sel, ok := ast.Unparen(e).(*ast.SelectorExpr)
					if !ok || named == nil {
						return ""
					}
					s := p.TypesInfo.Selections[sel]
					if s == nil || s.Kind() != types.FieldVal {
						return ""
					}
					if types.Identical(deref(s.Recv()), named) {
						return s.Obj().Name()
					}
					return ""
				}
				ast.Inspect(fd.Body, func(n ast.Node) bool {
					switch x := n.(type) {
					case *ast.AssignStmt:
						for _, l := range x.Lhs {
							noteVar(l, "assign")
							// any write whose left side goes through a resolver field
							for e := ast.Unparen(l); ; {
								if fn := resolverField(e); fn != "" && isResolverPkg && !isCtor {
									fwrites = append(fwrites, []string{sysn, fn, fname})
								}
								switch y := e.(type) {
								case *ast.IndexExpr:
									e = ast.Unparen(y.X)
									continue
								case *ast.SelectorExpr:
									e = ast.Unparen(y.X)
									continue
								case *ast.StarExpr:
									e = ast.Unparen(y.X)
									continue
								}
								break
							}
						}
					case *ast.IncDecStmt:
						noteVar(x.X, "incdec")
						if fn := resolverField(x.X); fn != "" && isResolverPkg && !isCtor {
							fwrites = append(fwrites, []string{sysn, fn, fname})
						}
					case *ast.UnaryExpr:
						if x.Op == token.AND {
							noteVar(x.X, "address-taken")
							if fn := resolverField(x.X); fn != "" && isResolverPkg {
								fwrites = append(fwrites, []string{sysn, fn, fname + " (address taken)"})
							}
						}
					case *ast.CallExpr:
						if id, ok := ast.Unparen(x.Fun).(*ast.Ident); ok {
							if _, isB := p.TypesInfo.Uses[id].(*types.Builtin); isB && (id.Name == "delete" || id.Name == "clear" || id.Name == "copy") && len(x.Args) > 0 {
								noteVar(x.Args[0], id.Name)
							}
						}
						if sel, ok := ast.Unparen(x.Fun).(*ast.SelectorExpr); ok {
							if s := p.TypesInfo.Selections[sel]; s != nil && s.Kind() == types.MethodVal {
								if o, _ := rootVar(sel.X); o != nil {
									if fn, ok := s.Obj().(*types.Func); ok {
										sig := fn.Type().(*types.Signature)
										ptrRecv := false
										if sig.Recv() != nil {
											_, ptrRecv = sig.Recv().Type().(*types.Pointer)
										}
										tn := relType(deref(o.Type()))
										mutableKind := strings.HasPrefix(tn, "sync.") || strings.HasPrefix(tn, "sync/atomic.") || strings.Contains(tn, "lru.") || strings.HasPrefix(tn, "container/") || strings.HasPrefix(tn, "deps.dev/")
										if ptrRecv && mutableKind && !isInit {
											vwrites = append(vwrites, []string{o.Pkg().Name(), o.Name(), fname, "method:" + fn.Name()})
										}
									}
								}
							}
						}
					}
					return true
				})
			}
		}
	}
	sortRows := func(r [][]string) [][]string {
		sort.Slice(r, func(i, j int) bool { return strings.Join(r[i], "\x00") < strings.Join(r[j], "\x00") })
		var out [][]string
		for i, x := range r {
			if i > 0 && strings.Join(r[i-1], "\x00") == strings.Join(x, "\x00") {
				continue
			}
			out = append(out, x)
		}
		return out
	}
	// fields keep declaration order per system; systems sorted
	sort.SliceStable(fields, func(i, j int) bool { return fields[i][0] < fields[j][0] })
	sortStable := func(r [][]string) [][]string {
		sort.SliceStable(r, func(i, j int) bool { return r[i][0] < r[j][0] })
		return r
	}
	emit := func(b *strings.Builder, name, typ, doc string, rows [][]string) {
		fmt.Fprintf(b, "/-- %s -/\ndef %s : List (%s) := [", doc, name, typ)
		for i, r := range rows {
			if i > 0 {
				b.WriteString(",")
			}
			b.WriteString("\n  " + leanStrList(r))
		}
		b.WriteString("]\n\n")
	}
	var b strings.Builder
	b.WriteString("/-! Shape of the three `resolver` structs and of package-level state in util/resolve and\nutil/resolve/{npm,maven,pypi}. See harness/cmd/c05/gens.go. -/\n")
	b.WriteString("namespace DepsDev.Gen.C05ResolverShared\n\n")
	emit(&b, "fields", "String × String × String × String", "for the reader: (system, field, type, class) of `resolver`, in declaration order; class = client | lru-cache | immutable | other", fields)
	emit(&b, "statefulFields", "String × String × String × String", "the fields that are neither the client nor of an immutable scalar type (bool, numbers, string, named types / arrays / structs over those without pointer-receiver methods): what a resolver object can carry from one Resolve call to the next", sortStable(stateful))
	emit(&b, "fieldWrites", "String × String × String", "writes to (or through) a resolver field outside a composite literal: (system, field, function)", sortRows(fwrites))
	emit(&b, "pkgVarWrites", "String × String × String × String", "package-level variables written by a function other than init: (package, variable, function, how)", sortRows(vwrites))
	emit(&b, "cacheFillerReads", "String × String × String × String", "for the reader: fields of the package's own structs read (directly, closures included) by the functions that call Add on an LRU cache: (system, function, Type.field, type)", sortRows(fillerReads))
	emit(&b, "cacheFillerOtherReads", "String × String × String × String", "those of them whose type is neither resolve.Client nor an LRU cache: per-call state (the root, ...) that what is stored could depend on", sortRows(fillerOther))
	emit(&b, "pkgVars", "String × String × String", "all package-level variables, for the reader: (package, variable, type)", sortRows(vars))
	b.WriteString("end DepsDev.Gen.C05ResolverShared\n")
	return b.String(), nil
}

// createsValueOf: fd has no parameter of type T / *T and its body contains a
// composite literal of T or new(T).
func createsValueOf(p *packages.Package, fd *ast.FuncDecl, T *types.Named) bool {
	if fd.Type.Params != nil {
		for _, fl := range fd.Type.Params.List {
			if derefNamed(p.TypesInfo.TypeOf(fl.Type)) == T.Origin() {
				return false
			}
		}
	}
	found := false
	ast.Inspect(fd.Body, func(n ast.Node) bool {
		switch x := n.(type) {
		case *ast.CompositeLit:
			if derefNamed(p.TypesInfo.TypeOf(x)) == T.Origin() {
				found = true
			}
		case *ast.CallExpr:
			if id, ok := ast.Unparen(x.Fun).(*ast.Ident); ok && len(x.Args) == 1 {
				if _, isB := p.TypesInfo.Uses[id].(*types.Builtin); isB && id.Name == "new" && derefNamed(p.TypesInfo.TypeOf(x.Args[0])) == T.Origin() {
					found = true
				}
			}
		}
		return !found
	})
	return found
}

// genLruCaps extracts the capacity of every LRU cache the pypi package creates
// and the struct field the cache ends up in. A creation is a call of a function
// of the lru package that returns a cache (object identity, not the name New);
// the capacity is its integer argument as folded by go/types (literal, named
// constant, constant expression). The field is found through the composite
// literal element or assignment that receives the call's value, directly or via
// one local variable. A cache that cannot be attributed is listed under a name
// no field has, so that lru_caps_cover_cache_fields fails instead of passing.
func genLruCaps(repo string) (string, error) {
	p, err := fw.LoadPkg(filepath.Join(repo, "util/resolve/pypi"))
	if err != nil {
		return "", err
	}
	type row struct {
		field string
		n     int64
	}
	type creation struct {
		call  *ast.CallExpr
		n     int64
		field string
	}
	var creations []*creation
	byCall := map[ast.Expr]*creation{}
	var genErr error
	for _, f := range p.Syntax {
		ast.Inspect(f, func(n ast.Node) bool {
			call, ok := n.(*ast.CallExpr)
			if !ok {
				return true
			}
			fun := ast.Unparen(call.Fun)
			switch ix := fun.(type) {
			case *ast.IndexExpr:
				fun = ast.Unparen(ix.X)
			case *ast.IndexListExpr:
				fun = ast.Unparen(ix.X)
			}
			var id *ast.Ident
			switch x := fun.(type) {
			case *ast.SelectorExpr:
				id = x.Sel
			case *ast.Ident:
				id = x
			default:
				return true
			}
			fn, ok := p.TypesInfo.Uses[id].(*types.Func)
			if !ok || fn.Pkg() == nil || !strings.HasSuffix(fn.Pkg().Path(), "pypi/internal/lru") {
				return true
			}
			sig, ok := fn.Type().(*types.Signature)
			if !ok || sig.Recv() != nil || sig.Results().Len() != 1 || !isLruCacheType(p.TypesInfo.TypeOf(call)) {
				return true
			}
			var caps []int64
			for _, a := range call.Args {
				if v, ok := fw.EvalInt(p, a); ok {
					caps = append(caps, v)
				}
			}
			if len(caps) != 1 || len(call.Args) != 1 {
				pos := p.Fset.Position(call.Pos())
				genErr = fmt.Errorf("%s:%d: LRU cache created with a capacity that is not one compile-time integer constant", filepath.Base(pos.Filename), pos.Line)
				return true
			}
			c := &creation{call: call, n: caps[0]}
			creations = append(creations, c)
			byCall[call] = c
			return true
		})
	}
	if genErr != nil {
		return "", genErr
	}
	fieldOfKey := func(k ast.Expr) string {
		if id, ok := k.(*ast.Ident); ok {
			if v, ok := p.TypesInfo.Uses[id].(*types.Var); ok && v.IsField() {
				return v.Name()
			}
		}
		return ""
	}
	fieldOfLhs := func(e ast.Expr) string {
		if sel, ok := ast.Unparen(e).(*ast.SelectorExpr); ok {
			if s := p.TypesInfo.Selections[sel]; s != nil && s.Kind() == types.FieldVal {
				return s.Obj().Name()
			}
		}
		return ""
	}
	viaVar := map[types.Object]*creation{}
	creationOf := func(e ast.Expr) *creation {
		e = ast.Unparen(e)
		if c := byCall[e]; c != nil {
			return c
		}
		if id, ok := e.(*ast.Ident); ok {
			return viaVar[p.TypesInfo.Uses[id]]
		}
		return nil
	}
	for pass := 0; pass < 2; pass++ { // pass 0 also learns the local variables, pass 1 follows them
		for _, f := range p.Syntax {
			ast.Inspect(f, func(n ast.Node) bool {
				switch x := n.(type) {
				case *ast.KeyValueExpr:
					if c := creationOf(x.Value); c != nil && c.field == "" {
						c.field = fieldOfKey(x.Key)
					}
				case *ast.AssignStmt:
					if len(x.Lhs) != len(x.Rhs) {
						return true
					}
					for i, r := range x.Rhs {
						c := creationOf(r)
						if c == nil {
							continue
						}
						if fn := fieldOfLhs(x.Lhs[i]); fn != "" {
							if c.field == "" {
								c.field = fn
							}
						} else if id, ok := ast.Unparen(x.Lhs[i]).(*ast.Ident); ok {
							if o := p.TypesInfo.ObjectOf(id); o != nil {
								viaVar[o] = c
							}
						}
					}
				case *ast.ValueSpec:
					for i, n := range x.Names {
						if i < len(x.Values) {
							if c := creationOf(x.Values[i]); c != nil {
								if o := p.TypesInfo.Defs[n]; o != nil {
									viaVar[o] = c
								}
							}
						}
					}
				}
				return true
			})
		}
	}
	var rows []row
	for _, c := range creations {
		if c.field == "" {
			pos := p.Fset.Position(c.call.Pos())
			c.field = fmt.Sprintf("(cache created at %s:%d, not stored in a field)", filepath.Base(pos.Filename), pos.Line)
		}
		rows = append(rows, row{c.field, c.n})
	}
	if len(rows) == 0 {
		return "", fmt.Errorf("no LRU cache creation found in pypi")
	}
	var b strings.Builder
	b.WriteString("/-! Capacities of the LRU caches created by pypi.NewResolver. -/\nnamespace DepsDev.Gen.C05LruCaps\n\n")
	b.WriteString("/-- (resolver field, capacity) -/\ndef caps : List (String × Nat) := [")
	for i, r := range rows {
		if i > 0 {
			b.WriteString(", ")
		}
		if r.n < 0 {
			return "", fmt.Errorf("negative capacity %d", r.n)
		}
		fmt.Fprintf(&b, "(%s, %d)", fw.LeanStr(r.field), r.n)
	}
	b.WriteString("]\n\nend DepsDev.Gen.C05LruCaps\n")
	return b.String(), nil
}

// genLruTraces copies the current source of pypi/internal/lru into a scratch
// module, adds a dump function, runs a fixed (seeded) family of Get/Add
// sequences with small capacities against the REAL code and records, after
// every operation, the result of Get and the recency list. The Lean theorem
// lru_model_agrees_with_recorded_runs replays them on the model.
func genLruTraces(repo string) (string, error) {
	src, err := os.ReadFile(filepath.Join(repo, "util/resolve/pypi/internal/lru/lru.go"))
	if err != nil {
		return "", err
	}
	dir, err := os.MkdirTemp("", "c05lru")
	if err != nil {
		return "", err
	}
	defer os.RemoveAll(dir)
	os.MkdirAll(filepath.Join(dir, "lru"), 0o755)
	os.WriteFile(filepath.Join(dir, "go.mod"), []byte("module lrucopy\n\ngo 1.22\n"), 0o644)
	os.WriteFile(filepath.Join(dir, "lru", "lru.go"), src, 0o644)
	os.WriteFile(filepath.Join(dir, "lru", "dump.go"), []byte(`package lru

// VerifDump returns the recency list front to back, walked through next
// pointers, the same list walked backwards from the tail, and len(c.m).
func VerifDump(c *Cache[int, int]) (fwd, bwd [][2]int, n int) {
	for x := c.l.head; x != nil; x = x.next {
		fwd = append(fwd, [2]int{x.value.k, x.value.v})
	}
	for x := c.l.tail; x != nil; x = x.prev {
		bwd = append(bwd, [2]int{x.value.k, x.value.v})
	}
	return fwd, bwd, len(c.m)
}
`), 0o644)
	// ops: deterministic
	r := rand.New(rand.NewSource(20260930))
	type op struct {
		add  bool
		k, v int
	}
	var traces [][]op
	var caps []int
	for t := 0; t < 80; t++ {
		cap := 1 + t%4
		n := 4 + r.Intn(10)
		var ops []op
		for i := 0; i < n; i++ {
			ops = append(ops, op{r.Intn(2) == 0, r.Intn(cap + 2), r.Intn(9)})
		}
		traces = append(traces, ops)
		caps = append(caps, cap)
	}
	var mb strings.Builder
	mb.WriteString("package main\n\nimport (\n\t\"fmt\"\n\t\"lrucopy/lru\"\n)\n\nfunc main() {\n")
	for t, ops := range traces {
		fmt.Fprintf(&mb, "\t{\n\t\tc := lru.New[int, int](%d)\n\t\tfmt.Println(\"T\")\n", caps[t])
		for _, o := range ops {
			if o.add {
				fmt.Fprintf(&mb, "\t\tc.Add(%d, %d)\n\t\tfmt.Print(\"A - \")\n", o.k, o.v)
			} else {
				fmt.Fprintf(&mb, "\t\tif v, ok := c.Get(%d); ok {\n\t\t\tfmt.Print(\"G \", v, \" \")\n\t\t} else {\n\t\t\tfmt.Print(\"G - \")\n\t\t}\n", o.k)
			}
			mb.WriteString("\t\tdump(c)\n")
		}
		mb.WriteString("\t}\n")
	}
	mb.WriteString("}\n\nfunc dump(c *lru.Cache[int, int]) {\n\tf, b, n := lru.VerifDump(c)\n\tfmt.Println(f, \"|\", b, \"|\", n)\n}\n")
	os.WriteFile(filepath.Join(dir, "main.go"), []byte(mb.String()), 0o644)
	cmd := exec.Command("go", "run", ".")
	cmd.Dir = dir
	cmd.Env = append(os.Environ(), "GOFLAGS=-mod=mod", "GOPROXY=off", "GOSUMDB=off", "GOTOOLCHAIN=local", "GOWORK=off")
	out, err := cmd.CombinedOutput()
	if err != nil {
		return "", fmt.Errorf("running the copied lru package: %v: %s", err, lastBytes(string(out), 800))
	}
	lines := strings.Split(strings.TrimSpace(string(out)), "\n")
	var b strings.Builder
	b.WriteString("/-! Runs of the REAL pypi/internal/lru code (copied at generation time) on a fixed family of\nGet/Add sequences over Int keys and values: after every operation the value Get returned and the\nrecency list front to back. See harness/cmd/c05/gens.go genLruTraces. -/\n")
	b.WriteString("namespace DepsDev.Gen.C05LruTraces\n\n")
	b.WriteString("/-- one step: (isAdd, key, value, what Get returned (none for Add or a miss), recency list after the step) -/\nabbrev Step := Bool × Nat × Nat × Option Nat × List (Nat × Nat)\n\n")
	b.WriteString("/-- (capacity, steps) -/\ndef traces : List (Nat × List Step) := [")
	li := 0
	for t, ops := range traces {
		if li >= len(lines) || lines[li] != "T" {
			return "", fmt.Errorf("trace output out of step at trace %d", t)
		}
		li++
		if t > 0 {
			b.WriteString(",")
		}
		fmt.Fprintf(&b, "\n  (%d, [", caps[t])
		for i, o := range ops {
			if li >= len(lines) {
				return "", fmt.Errorf("trace output short")
			}
			// line: "A - [[k v] ...] [[k v] ...] n" or "G v [...] [...] n"
			l := lines[li]
			li++
			f := strings.SplitN(l, " ", 3)
			if len(f) != 3 {
				return "", fmt.Errorf("bad trace line %q", l)
			}
			got := "none"
			if f[1] != "-" {
				got = "some " + f[1]
			}
			parts := strings.Split(f[2], " | ")
			if len(parts) != 3 {
				return "", fmt.Errorf("bad trace line %q", l)
			}
			fwd, bwd, nStr := parsePairs(parts[0]), parsePairs(parts[1]), strings.TrimSpace(parts[2])
			// the doubly linked list must be consistent and as long as the map
			if len(fwd) != len(bwd) || fmt.Sprint(len(fwd)) != nStr {
				return "", fmt.Errorf("lru internal inconsistency (list forward %v, backward %v, len(m)=%s)", fwd, bwd, nStr)
			}
			for x := range fwd {
				if fwd[x] != bwd[len(bwd)-1-x] {
					return "", fmt.Errorf("lru internal inconsistency (list forward %v, backward %v)", fwd, bwd)
				}
			}
			if i > 0 {
				b.WriteString(", ")
			}
			var ps []string
			for _, p := range fwd {
				ps = append(ps, fmt.Sprintf("(%d, %d)", p[0], p[1]))
			}
			v := o.v
			if !o.add {
				v = 0
			}
			fmt.Fprintf(&b, "(%v, %d, %d, %s, [%s])", o.add, o.k, v, got, strings.Join(ps, ", "))
		}
		b.WriteString("])")
	}
	b.WriteString("]\n\nend DepsDev.Gen.C05LruTraces\n")
	return b.String(), nil
}

func parsePairs(s string) [][2]int {
	// "[[1 2] [3 4]]" or "[]"
	var out [][2]int
	s = strings.TrimSpace(s)
	s = strings.TrimPrefix(s, "[")
	s = strings.TrimSuffix(s, "]")
	for _, p := range strings.Split(s, "] [") {
		p = strings.Trim(p, "[] ")
		if p == "" {
			continue
		}
		var a, b int
		fmt.Sscanf(p, "%d %d", &a, &b)
		out = append(out, [2]int{a, b})
	}
	return out
}
