package main

import (
	"bufio"
	"fmt"
	"os"
	"os/exec"
	"path/filepath"
	"sort"
	"strings"
	"time"

	"verifharness/fw"
)

// refQuery is one (requirement text, candidate text) pair with the reference
// transcription's answer, kept for the optional validation against the real tools.
type refQuery struct {
	rng, ver, want string
}

type runner struct {
	c       *fw.Ctx
	queries map[string][]refQuery
	outDir  string
	inside  int // pairs inside the hypotheses of the partial theorems
	total   int
}

// pair emits the op lines of one (requirement, candidate) pair and evaluates the oracles.
func (rn *runner) pair(eco, rs, renc, vs, venc string) {
	c := rn.c
	sys := ecoSys[eco]
	im, rm := c.Opf("C03 match %s %s %s", sys, fw.Hx(rs), fw.Hx(vs))
	ir, rr := c.Opf("C03 refsat %s %s %s", eco, renc, venc)
	c.Check("agree", im, ir)
	ref := strings.TrimPrefix(rr, "ok ")
	c.Count(eco + ":ref:" + ref)
	c.Count(eco + ":lib:" + strings.Fields(rm)[0])
	if ref == "1" {
		ip, _ := c.Opf("C03 cparse %s %s", sys, fw.Hx(rs))
		c.Check("not-rejected", ip, ir)
	}
	rn.total++
	if cl, _ := classesOf(eco, renc, venc); len(cl) == 0 {
		rn.inside++
	} else if rn.total%7 == 0 {
		ic, _ := c.Opf("C03 classify %s %s %s", eco, renc, venc)
		c.Check("classes", ic)
	}
	if rn.total%97 == 0 {
		ic, _ := c.Opf("C03 classify %s %s %s", eco, renc, venc)
		c.Check("classes", ic)
	}
	rn.queries[eco] = append(rn.queries[eco], refQuery{rs, vs, ref})
}

func (rn *runner) requirement(eco, rs string) {
	c := rn.c
	_, r := c.Opf("C03 cparse %s %s", ecoSys[eco], fw.Hx(rs))
	c.Count(eco + ":cparse:" + strings.Fields(r)[0])
	if strings.HasPrefix(r, "ok") {
		c.Nontrivial(eco + " " + rs)
	}
}

func (rn *runner) semverRange(eco string, rg Range, cands []SemVer) {
	rs := rg.RenderNpm()
	if eco == "cargo" {
		rs = rg.RenderCargo()
	}
	renc := rg.Enc()
	rn.requirement(eco, rs)
	for _, v := range cands {
		rn.pair(eco, rs, renc, v.Render(), v.Enc())
	}
}

// exhaustive: every operator x every operand shape over `digits`, against the candidate grid.
func (rn *runner) exhaustive(eco string, ops []string, digits []int64, grid []int64) {
	var partials []Partial
	w := byte('x')
	if eco == "cargo" {
		w = '*'
	}
	partials = append(partials, Partial{Nums: []int64{-1}, Wild: []byte{w}})
	for _, a := range digits {
		partials = append(partials, Partial{Nums: []int64{a}, Wild: []byte{0}})
		partials = append(partials, Partial{Nums: []int64{a, -1}, Wild: []byte{0, w}})
		partials = append(partials, Partial{Nums: []int64{a, -1, -1}, Wild: []byte{0, w, w}})
		for _, b := range digits {
			partials = append(partials, Partial{Nums: []int64{a, b}, Wild: []byte{0, 0}})
			partials = append(partials, Partial{Nums: []int64{a, b, -1}, Wild: []byte{0, 0, w}})
			for _, d := range digits {
				partials = append(partials, Partial{Nums: []int64{a, b, d}, Wild: []byte{0, 0, 0}})
				partials = append(partials, Partial{Nums: []int64{a, b, d}, Wild: []byte{0, 0, 0}, Pre: []Ident{{S: "b"}}})
			}
		}
	}
	var cands []SemVer
	for _, a := range grid {
		for _, b := range grid {
			for _, d := range grid {
				cands = append(cands, sv(a, b, d, nil), sv(a, b, d, []Ident{{S: "a"}}), sv(a, b, d, []Ident{{S: "c"}}))
			}
		}
	}
	for _, op := range ops {
		for _, p := range partials {
			rg := Range{Alts: []Alt{{Comps: []Comparator{{Op: op, P: p}}}}}
			if eco == "cargo" && !CargoValid(rg) {
				continue
			}
			rn.semverRange(eco, rg, cands)
			rn.c.Count(eco + ":exhaustive")
		}
	}
}

func run(c *fw.Ctx) {
	rn := &runner{c: c, queries: map[string][]refQuery{}, outDir: outDirFlag()}
	r := c.Rng
	maxC := c.N(26, 40)

	// small-scope exhaustive stream (layer L1 executed)
	if c.Thor {
		rn.exhaustive("npm", npmOps, []int64{0, 1, 2}, []int64{0, 1, 2, 3})
		rn.exhaustive("cargo", cargoOps, []int64{0, 1, 2}, []int64{0, 1, 2, 3})
	} else {
		rn.exhaustive("npm", npmOps, []int64{0, 1}, []int64{0, 1, 2})
		rn.exhaustive("cargo", cargoOps, []int64{0, 1}, []int64{0, 1, 2})
	}
	// PyPI: every operator x release shapes over {0,1}, against releases over {0,1,2} of length <= 3
	{
		var rels [][]int64
		ds := []int64{0, 1}
		for _, a := range ds {
			rels = append(rels, []int64{a})
			for _, b := range ds {
				rels = append(rels, []int64{a, b})
				for _, d := range ds {
					rels = append(rels, []int64{a, b, d})
				}
			}
		}
		var cands [][]int64
		g := []int64{0, 1, 2}
		for _, a := range g {
			cands = append(cands, []int64{a})
			for _, b := range g {
				cands = append(cands, []int64{a, b})
				for _, d := range g {
					cands = append(cands, []int64{a, b, d})
				}
			}
		}
		cands = append(cands, []int64{1, 0, 0, 1}, []int64{0, 1, 1, 0}, []int64{1, 1, 1, 1})
		for _, op := range []string{"==", "!=", "<=", ">=", "<", ">", "~="} {
			for _, rel := range rels {
				for _, star := range []bool{false, true} {
					for _, suffix := range []int{0, 1, 2, 3} {
						if star && (suffix != 0 || (op != "==" && op != "!=")) {
							continue
						}
						if suffix != 0 && !c.Thor && len(rel) == 3 {
							continue
						}
						v := PepVer{Rel: rel, Post: -1, Dev: -1}
						switch suffix {
						case 1:
							v.PreKind, v.PreN = "rc", 1
						case 2:
							v.Post = 1
						case 3:
							v.Dev = 1
						}
						sp := PepSpec{Clauses: []PepClause{{Op: op, V: v, Star: star}}}
						rs, renc := sp.Render(), sp.Enc()
						rn.requirement("pypi", rs)
						c.Count("pypi:exhaustive")
						for _, cand := range cands {
							if allZero(cand) {
								continue
							}
							cv := PepVer{Rel: cand, Post: -1, Dev: -1}
							rn.pair("pypi", rs, renc, cv.Render(), cv.Enc())
						}
					}
				}
			}
		}
	}

	// random streams
	for it, n := 0, c.N(900, 30000); it < n; it++ {
		rg := genNpmRange(r)
		rn.semverRange("npm", rg, semverCandidates(r, rg, maxC))
		c.Count(fmt.Sprintf("npm:alts:%d", len(rg.Alts)))
		for _, a := range rg.Alts {
			if a.Hyphen {
				c.Count("npm:shape:hyphen")
			}
			for _, cm := range a.Comps {
				c.Count("npm:op:" + cm.Op)
			}
		}
		if it < 3 {
			c.Sample("npm " + rg.RenderNpm() + "   ast=" + rg.Enc())
		}
	}
	for it, n := 0, c.N(600, 20000); it < n; it++ {
		rg := genCargoReq(r)
		rn.semverRange("cargo", rg, semverCandidates(r, rg, maxC))
		for _, cm := range rg.Alts[0].Comps {
			c.Count("cargo:op:" + cm.Op)
		}
		if it < 3 {
			c.Sample("cargo " + rg.RenderCargo() + "   ast=" + rg.Enc())
		}
	}
	for it, n := 0, c.N(700, 25000); it < n; it++ {
		sp := genPepSpec(r)
		rs, renc := sp.Render(), sp.Enc()
		rn.requirement("pypi", rs)
		for _, cl := range sp.Clauses {
			c.Count("pypi:op:" + cl.Op)
		}
		for _, cand := range pepCandidates(r, sp, maxC) {
			cv := PepVer{Rel: cand, Post: -1, Dev: -1}
			rn.pair("pypi", rs, renc, cv.Render(), cv.Enc())
		}
		if it < 3 {
			c.Sample("pypi " + rs + "   ast=" + renc)
		}
	}
	for it, n := 0, c.N(500, 15000); it < n; it++ {
		rg := genMvnRange(r)
		rs, renc := rg.Render(), rg.Enc()
		rn.requirement("maven", rs)
		for _, itm := range rg.Items {
			c.Count("maven:item:" + string(itm.Kind))
		}
		for _, v := range mvnCandidates(r, rg, c.N(18, 30)) {
			rn.pair("maven", rs, renc, v.Render(), v.Enc())
		}
		if it < 3 {
			c.Sample("maven " + rs + "   ast=" + renc)
		}
	}
	c.Note(fmt.Sprintf("pairs inside the hypotheses of the partial theorems (no finding class applies): %d of %d", rn.inside, rn.total))
	rn.validate()
}

// outDirFlag finds the -out directory of this run (the framework does not expose it).
func outDirFlag() string {
	for i, a := range os.Args {
		if (a == "-out" || a == "--out") && i+1 < len(os.Args) {
			return os.Args[i+1]
		}
		if strings.HasPrefix(a, "-out=") {
			return strings.TrimPrefix(a, "-out=")
		}
	}
	return os.TempDir()
}

// ---------------------------------------------------------------- optional validation against the real tools

func findRef(name string) string {
	for _, cand := range []string{"refs/c03/" + name, "../refs/c03/" + name, "/verif/harness/refs/c03/" + name} {
		if p, err := filepath.Abs(cand); err == nil {
			if _, err := os.Stat(p); err == nil {
				return p
			}
		}
	}
	return ""
}

// batch pipes "range<TAB>version" lines through cmd and compares the answers
// with the reference transcription's. Evidence for the spec only.
func (rn *runner) batch(tool string, cmd *exec.Cmd, qs []refQuery) {
	c := rn.c
	if len(qs) == 0 {
		return
	}
	stdin, _ := cmd.StdinPipe()
	stdout, _ := cmd.StdoutPipe()
	if err := cmd.Start(); err != nil {
		c.Note("ref_validation: " + tool + " not available (" + err.Error() + ")")
		return
	}
	go func() {
		w := bufio.NewWriterSize(stdin, 1<<20)
		for _, q := range qs {
			w.WriteString(q.rng + "\t" + q.ver + "\n")
		}
		w.Flush()
		stdin.Close()
	}()
	timer := time.AfterFunc(300*time.Second, func() { cmd.Process.Kill() })
	defer timer.Stop()
	sc := bufio.NewScanner(stdout)
	sc.Buffer(make([]byte, 1<<20), 1<<24)
	if !sc.Scan() || sc.Text() == "none" {
		c.Note("ref_validation: " + tool + " not importable")
		cmd.Process.Kill()
		cmd.Wait()
		return
	}
	version := sc.Text()
	compared, disagree := 0, 0
	var examples []string
	for k := 0; k < len(qs) && sc.Scan(); k++ {
		got := sc.Text()
		compared++
		if got != qs[k].want {
			disagree++
			if len(examples) < 12 || os.Getenv("VERIF_DEBUG") != "" {
				examples = append(examples, fmt.Sprintf("%q ~ %q: %s says %s, reference transcription %s", qs[k].rng, qs[k].ver, tool, got, qs[k].want))
			}
		}
	}
	cmd.Wait()
	c.Count("ref_validation:" + tool)
	c.Note(fmt.Sprintf("ref_validation: %s (%s) present; %d reference answers compared, %d disagreements %v", tool, version, compared, disagree, examples))
}

func (rn *runner) validate() {
	c := rn.c
	// node-semver
	if script := findRef("npm_semver.js"); script != "" {
		mods, _ := filepath.Glob("/root/.nvm/versions/node/*/lib/node_modules/npm/node_modules/semver")
		// prefer node 20 (semver 7.6), the version the design phase used
		sort.SliceStable(mods, func(i, j int) bool {
			return strings.Contains(mods[i], "/v20.") && !strings.Contains(mods[j], "/v20.")
		})
		done := false
		for _, m := range mods {
			node := filepath.Join(filepath.Dir(filepath.Dir(filepath.Dir(filepath.Dir(filepath.Dir(m))))), "bin", "node")
			if _, err := os.Stat(node); err != nil {
				continue
			}
			rn.batch("node-semver", exec.Command(node, script, m), rn.queries["npm"])
			done = true
			break
		}
		if !done {
			c.Note("ref_validation: node-semver not present")
		}
	}
	rn.validateCargo()
	// packaging
	if script := findRef("pypi_packaging.py"); script != "" {
		ran := false
		for _, py := range []string{"python3-vt", "python3"} {
			if p, err := exec.LookPath(py); err == nil {
				cmd := exec.Command(p, script)
				cmd.Env = append(os.Environ(), "PYTHONWARNINGS=ignore")
				rn.batch("packaging["+py+"]", cmd, rn.queries["pypi"])
				ran = true
			}
		}
		if !ran {
			c.Note("ref_validation: packaging not present")
		}
	}
	// Maven VersionRange
	if src := findRef("MavenRef.java"); src != "" {
		jars, _ := filepath.Glob("/usr/share/maven/lib/maven-artifact-*.jar")
		javac, e1 := exec.LookPath("javac")
		java, e2 := exec.LookPath("java")
		if len(jars) == 0 || e1 != nil || e2 != nil {
			c.Note("ref_validation: maven-artifact jar or JDK not present")
			return
		}
		dir, err := os.MkdirTemp("", "c03mvn")
		if err != nil {
			return
		}
		defer os.RemoveAll(dir)
		if out, err := exec.Command(javac, "-cp", jars[0], "-d", dir, src).CombinedOutput(); err != nil {
			c.Note("ref_validation: javac failed: " + strings.TrimSpace(string(out)))
			return
		}
		rn.batch("maven-artifact", exec.Command(java, "-cp", dir+":"+filepath.Dir(jars[0])+"/*", "MavenRef"), rn.queries["maven"])
	}
}

// validateCargo builds (once; cached under the output directory) a tiny program
// against the semver crate found in the local cargo registry and compares.
func (rn *runner) validateCargo() {
	c := rn.c
	src := findRef("cargoref/Cargo.toml")
	cargo, err := exec.LookPath("cargo")
	if src == "" || err != nil {
		c.Note("ref_validation: cargo or refs/c03/cargoref not present")
		return
	}
	work := filepath.Join(rn.outDir, "cargoref")
	bin := filepath.Join(work, "target", "release", "cargoref")
	if _, err := os.Stat(bin); err != nil {
		os.MkdirAll(filepath.Join(work, "src"), 0o755)
		for _, f := range []string{"Cargo.toml", "src/main.rs"} {
			b, err := os.ReadFile(filepath.Join(filepath.Dir(src), f))
			if err != nil {
				return
			}
			os.WriteFile(filepath.Join(work, f), b, 0o644)
		}
		cmd := exec.Command(cargo, "build", "--offline", "--release", "--quiet")
		cmd.Dir = work
		if out, err := cmd.CombinedOutput(); err != nil {
			c.Note("ref_validation: semver crate not buildable offline: " + strings.TrimSpace(string(out)))
			return
		}
	}
	rn.batch("semver-crate", exec.Command(bin), rn.queries["cargo"])
}
