package main

// Reference semantics of npm ranges and Cargo requirements on ASTs: an
// independent Go transcription of node-semver 7's documented desugaring
// (classes/range.js: hyphenReplace, replaceCarets, replaceTildes,
// replaceXRanges, replaceStars, replaceGTE0, the null-set and `*` rules of
// the Range constructor, testSet) and of the semver crate's eval.rs.
// The same semantics are written in Lean in DepsDev/Ref/{NpmRange,CargoReq}.lean;
// the two are compared line by line through the `refsat` op.

// cmpIdent orders prerelease identifiers (SemVer 2.0 §11.4).
func cmpIdent(a, b Ident) int {
	switch {
	case a.Num && b.Num:
		switch {
		case a.N < b.N:
			return -1
		case a.N > b.N:
			return 1
		}
		return 0
	case a.Num:
		return -1
	case b.Num:
		return 1
	case a.S < b.S:
		return -1
	case a.S > b.S:
		return 1
	}
	return 0
}

// cmpPre orders prerelease lists; the empty list (a release) is greatest.
func cmpPre(a, b []Ident) int {
	switch {
	case len(a) == 0 && len(b) == 0:
		return 0
	case len(a) == 0:
		return 1
	case len(b) == 0:
		return -1
	}
	for i := 0; ; i++ {
		switch {
		case i == len(a) && i == len(b):
			return 0
		case i == len(a):
			return -1
		case i == len(b):
			return 1
		}
		if c := cmpIdent(a[i], b[i]); c != 0 {
			return c
		}
	}
}

func cmp64(a, b int64) int {
	switch {
	case a < b:
		return -1
	case a > b:
		return 1
	}
	return 0
}

func cmpSemVer(a, b SemVer) int {
	if c := cmp64(a.Major, b.Major); c != 0 {
		return c
	}
	if c := cmp64(a.Minor, b.Minor); c != 0 {
		return c
	}
	if c := cmp64(a.Patch, b.Patch); c != 0 {
		return c
	}
	return cmpPre(a.Pre, b.Pre)
}

// nodeCmp is a desugared node-semver comparator: Any (the empty comparator),
// or operator (< <= > >= =) and a full version.
type nodeCmp struct {
	Any bool
	Op  string
	V   SemVer
}

var zeroPre = []Ident{{Num: true, N: 0}}

func sv(M, m, p int64, pre []Ident) SemVer { return SemVer{Major: M, Minor: m, Patch: p, Pre: pre} }

func isX(p Partial, i int) bool { return i >= len(p.Nums) || p.Nums[i] < 0 }

func num(p Partial, i int) int64 {
	if i < len(p.Nums) && p.Nums[i] >= 0 {
		return p.Nums[i]
	}
	return 0
}

// nullSet is node's `<0.0.0-0`.
var nullSet = nodeCmp{Op: "<", V: sv(0, 0, 0, zeroPre)}

func isNullSet(c nodeCmp) bool {
	return !c.Any && c.Op == "<" && cmpSemVer(c.V, nullSet.V) == 0
}

// gte0 is replaceGTE0: `>=0.0.0` is the `*` comparator.
func gte0(c nodeCmp) nodeCmp {
	if !c.Any && c.Op == ">=" && c.V.Major == 0 && c.V.Minor == 0 && c.V.Patch == 0 && len(c.V.Pre) == 0 {
		return nodeCmp{Any: true}
	}
	return c
}

// desugarComparator: replaceCarets, replaceTildes, replaceXRanges, replaceStars.
func desugarComparator(c Comparator) []nodeCmp {
	p := c.P
	M, m, pt := num(p, 0), num(p, 1), num(p, 2)
	xM := isX(p, 0)
	xm := xM || isX(p, 1)
	xp := xm || isX(p, 2)
	pre := p.Pre
	if xp {
		pre = nil
	}
	ge := func(M, m, p int64, pre []Ident) nodeCmp { return nodeCmp{Op: ">=", V: sv(M, m, p, pre)} }
	lt0 := func(M, m, p int64) nodeCmp { return nodeCmp{Op: "<", V: sv(M, m, p, zeroPre)} }
	switch c.Op {
	case "^":
		switch {
		case xM:
			return []nodeCmp{{Any: true}}
		case xm:
			return []nodeCmp{ge(M, 0, 0, nil), lt0(M+1, 0, 0)}
		case xp:
			if M == 0 {
				return []nodeCmp{ge(M, m, 0, nil), lt0(M, m+1, 0)}
			}
			return []nodeCmp{ge(M, m, 0, nil), lt0(M+1, 0, 0)}
		default:
			if M == 0 {
				if m == 0 {
					return []nodeCmp{ge(M, m, pt, pre), lt0(M, m, pt+1)}
				}
				return []nodeCmp{ge(M, m, pt, pre), lt0(M, m+1, 0)}
			}
			return []nodeCmp{ge(M, m, pt, pre), lt0(M+1, 0, 0)}
		}
	case "~", "~>":
		switch {
		case xM:
			return []nodeCmp{{Any: true}}
		case xm:
			return []nodeCmp{ge(M, 0, 0, nil), lt0(M+1, 0, 0)}
		case xp:
			return []nodeCmp{ge(M, m, 0, nil), lt0(M, m+1, 0)}
		default:
			return []nodeCmp{ge(M, m, pt, pre), lt0(M, m+1, 0)}
		}
	}
	// x-ranges and plain comparators
	op := c.Op
	if op == "=" && xp {
		op = ""
	}
	switch {
	case xM:
		if op == ">" || op == "<" {
			return []nodeCmp{nullSet}
		}
		return []nodeCmp{{Any: true}}
	case op != "" && xp:
		if xm {
			m = 0
		}
		pt = 0
		var opre []Ident
		switch op {
		case ">":
			op = ">="
			if xm {
				M, m, pt = M+1, 0, 0
			} else {
				m, pt = m+1, 0
			}
		case "<=":
			op = "<"
			if xm {
				M++
			} else {
				m++
			}
		}
		if op == "<" {
			opre = zeroPre
		}
		return []nodeCmp{{Op: op, V: sv(M, m, pt, opre)}}
	case xm:
		return []nodeCmp{ge(M, 0, 0, nil), lt0(M+1, 0, 0)}
	case xp:
		return []nodeCmp{ge(M, m, 0, nil), lt0(M, m+1, 0)}
	}
	if op == "" {
		op = "="
	}
	return []nodeCmp{{Op: op, V: sv(M, m, pt, pre)}}
}

// desugarHyphen is hyphenReplace (includePrerelease = false).
func desugarHyphen(lo, hi Partial) []nodeCmp {
	var out []nodeCmp
	switch {
	case isX(lo, 0):
		out = append(out, nodeCmp{Any: true})
	case isX(lo, 1):
		out = append(out, nodeCmp{Op: ">=", V: sv(num(lo, 0), 0, 0, nil)})
	case isX(lo, 2):
		out = append(out, nodeCmp{Op: ">=", V: sv(num(lo, 0), num(lo, 1), 0, nil)})
	default:
		out = append(out, nodeCmp{Op: ">=", V: sv(num(lo, 0), num(lo, 1), num(lo, 2), lo.Pre)})
	}
	switch {
	case isX(hi, 0):
		out = append(out, nodeCmp{Any: true})
	case isX(hi, 1):
		out = append(out, nodeCmp{Op: "<", V: sv(num(hi, 0)+1, 0, 0, zeroPre)})
	case isX(hi, 2):
		out = append(out, nodeCmp{Op: "<", V: sv(num(hi, 0), num(hi, 1)+1, 0, zeroPre)})
	default:
		out = append(out, nodeCmp{Op: "<=", V: sv(num(hi, 0), num(hi, 1), num(hi, 2), hi.Pre)})
	}
	return out
}

// comparatorSet is parseRange for one alternative: desugar, `>=0.0.0` ⇒ `*`,
// a null-set comparator makes the whole set the null set, `*` is dropped from a
// set that has other comparators.
func comparatorSet(a Alt) []nodeCmp {
	var cs []nodeCmp
	if a.Hyphen {
		cs = desugarHyphen(a.Lo, a.Hi)
	} else {
		for _, c := range a.Comps {
			cs = append(cs, desugarComparator(c)...)
		}
	}
	for i := range cs {
		cs[i] = gte0(cs[i])
	}
	for _, c := range cs {
		if isNullSet(c) {
			return []nodeCmp{c}
		}
	}
	var out []nodeCmp
	for _, c := range cs {
		if !c.Any {
			out = append(out, c)
		}
	}
	if len(out) == 0 {
		return []nodeCmp{{Any: true}}
	}
	return out
}

func isStarSet(s []nodeCmp) bool { return len(s) == 1 && s[0].Any }

// rangeSets is the Range constructor: null sets are dropped when something else
// remains; if any remaining alternative is `*` the range is just `*`.
func rangeSets(r Range) [][]nodeCmp {
	alts := r.Alts
	if len(alts) == 0 {
		return [][]nodeCmp{{{Any: true}}} // "" is "*"
	}
	var sets [][]nodeCmp
	for _, a := range alts {
		sets = append(sets, comparatorSet(a))
	}
	if len(sets) > 1 {
		first := sets[0]
		var keep [][]nodeCmp
		for _, s := range sets {
			if !isNullSet(s[0]) {
				keep = append(keep, s)
			}
		}
		if len(keep) == 0 {
			return [][]nodeCmp{first}
		}
		if len(keep) > 1 {
			for _, s := range keep {
				if isStarSet(s) {
					return [][]nodeCmp{s}
				}
			}
		}
		return keep
	}
	return sets
}

func (c nodeCmp) test(v SemVer) bool {
	if c.Any {
		return true
	}
	k := cmpSemVer(v, c.V)
	switch c.Op {
	case "<":
		return k < 0
	case "<=":
		return k <= 0
	case ">":
		return k > 0
	case ">=":
		return k >= 0
	}
	return k == 0
}

// testSet: all comparators hold; a prerelease version additionally needs a
// comparator with the same [major, minor, patch] that has a prerelease.
func testSet(set []nodeCmp, v SemVer) bool {
	for _, c := range set {
		if !c.test(v) {
			return false
		}
	}
	if len(v.Pre) > 0 {
		for _, c := range set {
			if c.Any {
				continue
			}
			if len(c.V.Pre) > 0 && c.V.Major == v.Major && c.V.Minor == v.Minor && c.V.Patch == v.Patch {
				return true
			}
		}
		return false
	}
	return true
}

// NpmSatisfies is semver.satisfies(v, r).
func NpmSatisfies(r Range, v SemVer) bool {
	for _, s := range rangeSets(r) {
		if testSet(s, v) {
			return true
		}
	}
	return false
}

// ---------------------------------------------------------------- Cargo

// CargoValid: what VersionReq::parse accepts of the AST shapes generated: a
// wildcard may only be followed by wildcards; a bare `*` must be the whole
// requirement; a prerelease needs three numbers; no `~>`; `*` takes no operator.
func CargoValid(r Range) bool {
	if len(r.Alts) != 1 || r.Alts[0].Hyphen {
		return false
	}
	cs := r.Alts[0].Comps
	for _, c := range cs {
		if c.Op == "~>" {
			return false
		}
		p := c.P
		if isX(p, 0) && (len(cs) > 1 || c.Op != "" || len(p.Nums) != 1) {
			return false
		}
		seenX := false
		for i := range p.Nums {
			if p.Nums[i] < 0 {
				seenX = true
			} else if seenX {
				return false
			}
		}
		if len(p.Pre) > 0 && (len(p.Nums) != 3 || seenX) {
			return false
		}
	}
	return true
}

type cargoCmp struct {
	Op           string // = > >= < <= ~ ^ (wildcard is "=")
	Major        int64
	Minor, Patch int64 // -1 = None
	Pre          []Ident
}

func cargoComparator(c Comparator) cargoCmp {
	p := c.P
	cc := cargoCmp{Op: c.Op, Major: num(p, 0), Minor: -1, Patch: -1}
	if !isX(p, 1) {
		cc.Minor = num(p, 1)
		if !isX(p, 2) {
			cc.Patch = num(p, 2)
			cc.Pre = p.Pre
		}
	}
	if c.Op == "" {
		cc.Op = "^"
		if len(p.Nums) > 1 && (p.Nums[1] < 0 || (len(p.Nums) > 2 && p.Nums[2] < 0)) {
			cc.Op = "=" // Op::Wildcard
		}
	}
	return cc
}

func cargoExact(c cargoCmp, v SemVer) bool {
	if v.Major != c.Major {
		return false
	}
	if c.Minor >= 0 && v.Minor != c.Minor {
		return false
	}
	if c.Patch >= 0 && v.Patch != c.Patch {
		return false
	}
	return cmpPre(v.Pre, c.Pre) == 0
}

func cargoGreater(c cargoCmp, v SemVer) bool {
	if v.Major != c.Major {
		return v.Major > c.Major
	}
	if c.Minor < 0 {
		return false
	}
	if v.Minor != c.Minor {
		return v.Minor > c.Minor
	}
	if c.Patch < 0 {
		return false
	}
	if v.Patch != c.Patch {
		return v.Patch > c.Patch
	}
	return cmpPre(v.Pre, c.Pre) > 0
}

func cargoLess(c cargoCmp, v SemVer) bool {
	if v.Major != c.Major {
		return v.Major < c.Major
	}
	if c.Minor < 0 {
		return false
	}
	if v.Minor != c.Minor {
		return v.Minor < c.Minor
	}
	if c.Patch < 0 {
		return false
	}
	if v.Patch != c.Patch {
		return v.Patch < c.Patch
	}
	return cmpPre(v.Pre, c.Pre) < 0
}

func cargoTilde(c cargoCmp, v SemVer) bool {
	if v.Major != c.Major {
		return false
	}
	if c.Minor >= 0 && v.Minor != c.Minor {
		return false
	}
	if c.Patch >= 0 && v.Patch != c.Patch {
		return v.Patch > c.Patch
	}
	return cmpPre(v.Pre, c.Pre) >= 0
}

func cargoCaret(c cargoCmp, v SemVer) bool {
	if v.Major != c.Major {
		return false
	}
	if c.Minor < 0 {
		return true
	}
	if c.Patch < 0 {
		if c.Major > 0 {
			return v.Minor >= c.Minor
		}
		return v.Minor == c.Minor
	}
	if c.Major > 0 {
		if v.Minor != c.Minor {
			return v.Minor > c.Minor
		} else if v.Patch != c.Patch {
			return v.Patch > c.Patch
		}
	} else if c.Minor > 0 {
		if v.Minor != c.Minor {
			return false
		} else if v.Patch != c.Patch {
			return v.Patch > c.Patch
		}
	} else if v.Minor != c.Minor || v.Patch != c.Patch {
		return false
	}
	return cmpPre(v.Pre, c.Pre) >= 0
}

func cargoMatchesImpl(c cargoCmp, v SemVer) bool {
	switch c.Op {
	case "=":
		return cargoExact(c, v)
	case ">":
		return cargoGreater(c, v)
	case ">=":
		return cargoExact(c, v) || cargoGreater(c, v)
	case "<":
		return cargoLess(c, v)
	case "<=":
		return cargoExact(c, v) || cargoLess(c, v)
	case "~":
		return cargoTilde(c, v)
	}
	return cargoCaret(c, v)
}

// CargoMatches is VersionReq::matches.
func CargoMatches(r Range, v SemVer) bool {
	cs := r.Alts[0].Comps
	if len(cs) == 1 && isX(cs[0].P, 0) {
		cs = nil // VersionReq::STAR
	}
	var ccs []cargoCmp
	for _, c := range cs {
		ccs = append(ccs, cargoComparator(c))
	}
	for _, c := range ccs {
		if !cargoMatchesImpl(c, v) {
			return false
		}
	}
	if len(v.Pre) == 0 {
		return true
	}
	for _, c := range ccs {
		if c.Major == v.Major && c.Minor == v.Minor && c.Patch == v.Patch && len(c.Pre) > 0 {
			return true
		}
	}
	return false
}
