package main

import (
	"fmt"
	"testing"

	"verifharness/fw"
)

func n3(a, b, c int64) Partial { return Partial{Nums: []int64{a, b, c}, Wild: []byte{0, 0, 0}} }
func n3p(a, b, c int64, pre ...Ident) Partial {
	p := n3(a, b, c)
	p.Pre = pre
	return p
}
func np(ns ...int64) Partial {
	p := Partial{}
	for _, n := range ns {
		p.Nums = append(p.Nums, n)
		w := byte(0)
		if n < 0 {
			w = 'x'
		}
		p.Wild = append(p.Wild, w)
	}
	return p
}
func star() Partial                      { return Partial{Nums: []int64{-1}, Wild: []byte{'*'}} }
func id(s string) Ident                  { return Ident{S: s} }
func in(n int64) Ident                   { return Ident{Num: true, N: n} }
func comps(cs ...Comparator) Alt         { return Alt{Comps: cs} }
func cm(op string, p Partial) Comparator { return Comparator{Op: op, P: p} }

type wit struct {
	id, oracle, eco string
	renc, rs        string
	venc, vs        string
}

func semW(id, oracle, eco string, rg Range, v SemVer) wit {
	rs := rg.RenderNpm()
	if eco == "cargo" {
		rs = rg.RenderCargo()
	}
	return wit{id, oracle, eco, rg.Enc(), rs, v.Enc(), v.Render()}
}

func witnesses() []wit {
	pv := func(rel ...int64) PepVer { return PepVer{Rel: rel, Post: -1, Dev: -1} }
	rc1 := pv(0)
	rc1.PreKind, rc1.PreN = "rc", 1
	pep := PepSpec{Clauses: []PepClause{{Op: ">=", V: pv(2)}, {Op: "!=", V: rc1}}}
	mr := MvnRange{Items: []MvnItem{{Kind: 'R', HasHi: true, Hi: MvnVer{Nums: []int64{1, 0}}, HiInc: true}}}
	mc := MvnVer{Nums: []int64{0}, Qual: "rc", QN: 1}
	return []wit{
		semW("F-C03-lt0pre", "agree", "npm", Range{[]Alt{comps(cm("<", n3p(0, 0, 0, id("b"))))}}, sv(0, 0, 0, []Ident{id("a")})),
		semW("F-C03-pre000", "agree", "npm", Range{[]Alt{comps(cm("<=", np(0, -1)), cm("~", n3p(0, 0, 0, in(0))))}}, sv(0, 0, 0, zeroPre)),
		semW("F-C03-gt-succ-pre", "agree", "npm", Range{[]Alt{comps(cm(">", n3(1, 1, 0)), cm("<=", n3p(1, 1, 1, id("rc"), in(2))))}}, sv(1, 1, 1, zeroPre)),
		semW("F-C03-signed-ident", "agree", "npm", Range{[]Alt{comps(cm(">=", n3p(1, 0, 0, in(0))))}}, sv(1, 0, 0, []Ident{id("-5")})),
		semW("F-C03-hyphen-wild", "not-rejected", "npm", Range{[]Alt{{Hyphen: true, Lo: n3p(3, 0, 2, in(0)), Hi: star()}}}, sv(3, 0, 2, nil)),
		semW("F-C03-hyphen-inverted", "not-rejected", "npm", Range{[]Alt{{Hyphen: true, Lo: n3(2, 2, 2), Hi: np(2, 0)}, comps(cm("<=", np(0, 3)))}}, sv(0, 3, 0, nil)),
		semW("F-C03-lt-midwild", "agree", "npm", Range{[]Alt{comps(cm("<", np(1, -1, 2)))}}, sv(1, 0, 0, nil)),
		semW("F-C03-lt-partial-pre", "agree", "npm", Range{[]Alt{comps(cm(">=", n3p(1, 2, 0, id("a"))), cm("<", np(1, 2)))}}, sv(1, 2, 0, []Ident{id("a")})),
		semW("F-C03-star-collapse", "agree", "npm", Range{[]Alt{comps(cm("", np(-1))), comps(cm(">", n3(2, 1, 3)), cm("<=", n3p(3, 1, 2, id("a"))))}}, sv(3, 1, 2, []Ident{id("a")})),
		semW("F-C03-or-merge-pre", "agree", "npm", Range{[]Alt{comps(cm(">=", n3p(1, 0, 0, id("a"))), cm("<=", n3p(2, 0, 0, id("a")))), comps(cm(">=", n3p(2, 0, 0, id("a"))), cm("<", n3p(3, 0, 0, id("a"))))}}, sv(2, 0, 0, []Ident{id("b")})),
		semW("F-C03-cargo-pre-partial", "agree", "cargo", Range{[]Alt{comps(cm("~", np(3)), cm(">", n3p(3, 1, 2, in(10))))}}, sv(3, 1, 2, []Ident{id("a")})),
		{"F-C03-ne-pre0", "not-rejected", "pypi", pep.Enc(), pep.Render(), pv(2, 1).Enc(), pv(2, 1).Render()},
		{"F-C03-mvn-neg", "agree", "maven", mr.Enc(), mr.Render(), mc.Enc(), mc.Render()},
	}
}

// TestWitnessLines prints the op lines of the known-finding witnesses (props/C03.known.json)
// and checks that each still fails its oracle and is classified as itself.
func TestWitnessLines(t *testing.T) {
	for _, w := range witnesses() {
		sys := ecoSys[w.eco]
		var l0 string
		if w.oracle == "agree" {
			l0 = fmt.Sprintf("C03 match %s %s %s", sys, fw.Hx(w.rs), fw.Hx(w.vs))
		} else {
			l0 = fmt.Sprintf("C03 cparse %s %s", sys, fw.Hx(w.rs))
		}
		l1 := fmt.Sprintf("C03 refsat %s %s %s", w.eco, w.renc, w.venc)
		ops := []string{l0, l1}
		res := []string{execOp(splitFields(l0)[1:]), execOp(splitFields(l1)[1:])}
		bad, detail := recheck(w.oracle, ops, res)
		cl := classify(w.oracle, ops, res)
		fmt.Printf("%s\t%s\t%q ~ %q\n  %s\n  %s\n  -> %v %s | %s | class=%s\n", w.id, w.oracle, w.rs, w.vs, l0, l1, res, map[bool]string{true: "FAILS", false: "holds"}[bad], detail, cl)
		if !bad {
			t.Errorf("%s: witness no longer fails", w.id)
		}
		if cl != w.id {
			t.Errorf("%s: classified as %q", w.id, cl)
		}
	}
}

func splitFields(s string) []string {
	var out []string
	cur := ""
	for _, c := range s {
		if c == ' ' {
			if cur != "" {
				out = append(out, cur)
			}
			cur = ""
		} else {
			cur += string(c)
		}
	}
	if cur != "" {
		out = append(out, cur)
	}
	return out
}

// TestCorpusLines prints corpus/C03/*.ops records for the design-phase witnesses that were
// repaired (F7, F10, F13) and a few boundary shapes; run with -v and C03_CORPUS=1.
func TestCorpusLines(t *testing.T) {
	pv := func(rel ...int64) PepVer { return PepVer{Rel: rel, Post: -1, Dev: -1} }
	type rec struct {
		oracle, eco, renc, rs, venc, vs string
	}
	var recs []rec
	sem := func(oracle, eco string, rg Range, v SemVer) {
		rs := rg.RenderNpm()
		if eco == "cargo" {
			rs = rg.RenderCargo()
		}
		recs = append(recs, rec{oracle, eco, rg.Enc(), rs, v.Enc(), v.Render()})
	}
	// F7: `<0.2 ^0.2` must not match 0.2.0
	sem("agree", "npm", Range{[]Alt{comps(cm("<", np(0, 2)), cm("^", np(0, 2)))}}, sv(0, 2, 0, nil))
	// F10: `>=0.1.1 <1 || ~>2` must not match 1.3.3
	sem("agree", "npm", Range{[]Alt{comps(cm(">=", n3(0, 1, 1)), cm("<", np(1))), comps(cm("~>", np(2)))}}, sv(1, 3, 3, nil))
	// F13: `~2.1.0 || =1.3.2-b || >=1.2.1` must match 1.3.2-b
	sem("agree", "npm", Range{[]Alt{comps(cm("~", n3(2, 1, 0))), comps(cm("=", n3p(1, 3, 2, id("b")))), comps(cm(">=", n3(1, 2, 1)))}}, sv(1, 3, 2, []Ident{id("b")}))
	// caret on zero majors, tilde on one number, `>` on partial versions
	sem("agree", "npm", Range{[]Alt{comps(cm("^", np(0, 0, -1)))}}, sv(0, 1, 0, nil))
	sem("agree", "npm", Range{[]Alt{comps(cm("~", np(1)))}}, sv(1, 9, 9, nil))
	sem("agree", "npm", Range{[]Alt{comps(cm(">", np(1, 2)))}}, sv(1, 2, 9, nil))
	sem("agree", "npm", Range{[]Alt{comps(cm(">", np(0)))}}, sv(0, 0, 0, nil))
	sem("agree", "cargo", Range{[]Alt{comps(cm("", np(0, 0)))}}, sv(0, 0, 9, nil))
	sem("agree", "cargo", Range{[]Alt{comps(cm("", n3(0, 0, 3)))}}, sv(0, 0, 4, nil))
	sem("agree", "cargo", Range{[]Alt{comps(cm(">=", n3p(1, 2, 3, id("a"))), cm("<", n3(2, 0, 0)))}}, sv(1, 2, 3, []Ident{id("b")}))
	// two alternatives that share a tagged end point excluded on both sides: canon does not merge them
	sem("agree", "npm", Range{[]Alt{comps(cm("<", n3p(2, 0, 0, id("a")))), comps(cm(">", n3p(2, 0, 0, id("a"))))}}, sv(2, 0, 0, []Ident{id("b")}))
	// … and with different tags on the outer ends: no merge either (equalPrerelease)
	sem("agree", "npm", Range{[]Alt{comps(cm(">=", n3(1, 0, 0)), cm("<=", n3p(2, 0, 0, id("a")))), comps(cm(">=", n3p(2, 0, 0, id("a"))), cm("<", n3(3, 0, 0)))}}, sv(2, 0, 0, []Ident{id("b")}))
	// node accepts a partial upper bound of a hyphen range
	sem("not-rejected", "npm", Range{[]Alt{{Hyphen: true, Lo: n3(1, 2, 3), Hi: np(2)}}}, sv(2, 9, 9, nil))
	// PyPI: F7 (`!=2.0,==2.0.0` is empty), `~=`, prefix matching
	p1 := PepSpec{Clauses: []PepClause{{Op: "!=", V: pv(2, 0)}, {Op: "==", V: pv(2, 0, 0)}}}
	recs = append(recs, rec{"agree", "pypi", p1.Enc(), p1.Render(), pv(2, 0, 0).Enc(), pv(2, 0, 0).Render()})
	p2 := PepSpec{Clauses: []PepClause{{Op: "~=", V: pv(0, 0)}}}
	recs = append(recs, rec{"agree", "pypi", p2.Enc(), p2.Render(), pv(0, 1).Enc(), pv(0, 1).Render()})
	p3 := PepSpec{Clauses: []PepClause{{Op: "==", V: pv(1, 0), Star: true}}}
	recs = append(recs, rec{"agree", "pypi", p3.Enc(), p3.Render(), pv(1).Enc(), pv(1).Render()})
	p4 := PepSpec{Clauses: []PepClause{{Op: "!=", V: pv(0, 0)}}}
	recs = append(recs, rec{"-", "pypi", p4.Enc(), p4.Render(), pv(0, 0).Enc(), pv(0, 0).Render()})
	// Maven: open/closed ends, soft requirement
	m1 := MvnRange{Items: []MvnItem{{Kind: 'R', HasLo: true, Lo: MvnVer{Nums: []int64{1, 2}}}}}
	recs = append(recs, rec{"agree", "maven", m1.Enc(), m1.Render(), MvnVer{Nums: []int64{1, 2, 0}}.Enc(), "1.2.0"})
	m2 := MvnRange{Items: []MvnItem{{Kind: 'S', V: MvnVer{Nums: []int64{3}}}}}
	recs = append(recs, rec{"agree", "maven", m2.Enc(), m2.Render(), MvnVer{Nums: []int64{1}, Qual: "alpha"}.Enc(), "1-alpha"})
	for _, r := range recs {
		sys := ecoSys[r.eco]
		l0 := fmt.Sprintf("C03 match %s %s %s", sys, fw.Hx(r.rs), fw.Hx(r.vs))
		if r.oracle == "not-rejected" {
			l0 = fmt.Sprintf("C03 cparse %s %s", sys, fw.Hx(r.rs))
		}
		l1 := fmt.Sprintf("C03 refsat %s %s %s", r.eco, r.renc, r.venc)
		res := []string{execOp(splitFields(l0)[1:]), execOp(splitFields(l1)[1:])}
		if r.oracle != "-" {
			if bad, detail := recheck(r.oracle, []string{l0, l1}, res); bad {
				t.Errorf("corpus record fails: %q ~ %q: %s", r.rs, r.vs, detail)
			}
		}
		fmt.Printf("CORPUS\t%s\t%s\t%s\n", r.oracle, l0, l1)
	}
}
