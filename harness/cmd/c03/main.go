// C03: constraint matching agrees with each ecosystem's own implementation.
package main

import (
	"fmt"
	"strings"

	"deps.dev/util/semver"

	"verifharness/fw"
	"verifharness/semvergen"
	"verifharness/semverops"
)

// ecoSys maps the ecosystem name of a refsat line to the library's System.
var ecoSys = map[string]semver.System{"npm": semver.NPM, "cargo": semver.Cargo, "pypi": semver.PyPI, "maven": semver.Maven}

// refAnswer evaluates the Go transcription of the reference semantics:
// "1", "0", "invalid" (the reference rejects the requirement) or "" (bad encoding).
func refAnswer(eco, renc, venc string) string {
	b := func(x bool) string {
		if x {
			return "1"
		}
		return "0"
	}
	switch eco {
	case "npm", "cargo":
		rg, ok1 := DecRange(renc)
		v, ok2 := DecSemVer(venc)
		if !ok1 || !ok2 {
			return ""
		}
		if eco == "npm" {
			if !NpmValid(rg) {
				return "invalid"
			}
			return b(NpmSatisfies(rg, v))
		}
		if !CargoValid(rg) {
			return "invalid"
		}
		return b(CargoMatches(rg, v))
	case "pypi":
		s, ok1 := DecPepSpec(renc)
		v, ok2 := DecPepVer(venc)
		if !ok1 || !ok2 || v.PreKind != "" || v.Post >= 0 || v.Dev >= 0 {
			return ""
		}
		if !PepValid(s) {
			return "invalid"
		}
		return b(PepContains(s, v.Rel))
	case "maven":
		rg, ok1 := DecMvnRange(renc)
		v, ok2 := DecMvnVer(venc)
		if !ok1 || !ok2 {
			return ""
		}
		if !MvnValid(rg) {
			return "invalid"
		}
		return b(MvnContains(rg, v))
	}
	return ""
}

// NpmValid: the domain of npm range ASTs: a prerelease or build tag only on a
// full three-number operand (node's grammar also admits one after a wildcard
// patch, `1.2.x-a`, where it means nothing).
func NpmValid(r Range) bool {
	okp := func(p Partial) bool {
		return len(p.Pre) == 0 || !isPartial(p)
	}
	for _, a := range r.Alts {
		if a.Hyphen {
			if !okp(a.Lo) || !okp(a.Hi) {
				return false
			}
			continue
		}
		for _, c := range a.Comps {
			if !okp(c.P) {
				return false
			}
		}
	}
	return true
}

// renderOf returns the requirement and candidate strings an (eco, range, version) encoding stands for.
func renderOf(eco, renc, venc string) (string, string, bool) {
	switch eco {
	case "npm", "cargo":
		rg, ok1 := DecRange(renc)
		v, ok2 := DecSemVer(venc)
		if !ok1 || !ok2 {
			return "", "", false
		}
		if eco == "npm" {
			return rg.RenderNpm(), v.Render(), true
		}
		return rg.RenderCargo(), v.Render(), true
	case "pypi":
		s, ok1 := DecPepSpec(renc)
		v, ok2 := DecPepVer(venc)
		return s.Render(), v.Render(), ok1 && ok2
	case "maven":
		rg, ok1 := DecMvnRange(renc)
		v, ok2 := DecMvnVer(venc)
		return rg.Render(), v.Render(), ok1 && ok2
	}
	return "", "", false
}

func execOp(f []string) string {
	if r, ok := semverops.Exec(f); ok {
		return r
	}
	switch f[0] {
	case "refsat": // refsat <eco> <range ast> <version ast>: the reference's answer
		if len(f) != 4 {
			return "bad-op"
		}
		a := refAnswer(f[1], f[2], f[3])
		if a == "" {
			return "bad-op"
		}
		return "ok " + a
	case "classify": // classify <eco> <range ast> <version ast>: finding classes the input falls in
		if len(f) != 4 {
			return "bad-op"
		}
		cl, ok := classesOf(f[1], f[2], f[3])
		if !ok {
			return "bad-op"
		}
		if len(cl) == 0 {
			return "ok -"
		}
		return "ok " + strings.Join(cl, ",")
	}
	return "bad-op"
}

func field(res, key string) string {
	for _, f := range strings.Fields(res) {
		if strings.HasPrefix(f, key+"=") {
			return strings.TrimPrefix(f, key+"=")
		}
	}
	return ""
}

// pairOf checks that a library op line (match / cparse) and a refsat line talk
// about the same requirement (and candidate).
func pairOf(libOp, refOp string) (eco, renc, venc string, ok bool, why string) {
	lf, rf := strings.Fields(libOp), strings.Fields(refOp)
	if len(rf) != 5 || rf[1] != "refsat" || len(lf) < 4 {
		return "", "", "", false, "malformed op lines"
	}
	eco, renc, venc = rf[2], rf[3], rf[4]
	rs, vs, ok := renderOf(eco, renc, venc)
	if !ok {
		return eco, renc, venc, false, "undecodable AST"
	}
	if lf[2] != ecoSys[eco].String() || fw.Unhx(lf[3]) != rs {
		return eco, renc, venc, false, fmt.Sprintf("op lines do not belong together: %q is not the rendering %q", fw.Unhx(lf[3]), rs)
	}
	if lf[1] == "match" && (len(lf) != 5 || fw.Unhx(lf[4]) != vs) {
		return eco, renc, venc, false, "op lines do not belong together (candidate)"
	}
	return eco, renc, venc, true, ""
}

func recheck(oracle string, ops, res []string) (bool, string) {
	switch oracle {
	case "agree": // [match, refsat]
		if len(ops) != 2 {
			return true, "agree needs two op lines"
		}
		eco, renc, venc, ok, why := pairOf(ops[0], ops[1])
		if !ok {
			return true, why
		}
		ref := strings.TrimPrefix(res[1], "ok ")
		if ref != "0" && ref != "1" {
			return false, "" // the reference rejects the requirement: nothing to agree with
		}
		if res[0] == "err" {
			return false, "" // rejected by the library: the not-rejected oracle's business
		}
		rs, vs, _ := renderOf(eco, renc, venc)
		if !strings.HasPrefix(res[0], "ok") {
			return true, fmt.Sprintf("%s: matching %q against %q: %s", eco, vs, rs, res[0])
		}
		s, m := field(res[0], "s"), field(res[0], "m")
		if strings.Contains(res[0], "verr") {
			m = s // the library rejects a candidate the reference accepts: Match says false
		}
		if s != ref || m != ref {
			return true, fmt.Sprintf("%s: requirement %q, candidate %q: library Match=%s MatchVersion=%s, reference %s", eco, rs, vs, s, m, ref)
		}
	case "not-rejected": // [cparse, refsat with answer 1]
		if len(ops) != 2 {
			return true, "not-rejected needs two op lines"
		}
		eco, renc, venc, ok, why := pairOf(ops[0], ops[1])
		if !ok {
			return true, why
		}
		if res[1] == "ok 1" && !strings.HasPrefix(res[0], "ok") {
			rs, vs, _ := renderOf(eco, renc, venc)
			return true, fmt.Sprintf("%s: requirement %q is rejected by the library (%s); the reference accepts it and it contains %q", eco, rs, res[0], vs)
		}
	case "classes": // [classify]: the harness's classifier equals the Lean predicates (by the Go/model diff)
		return !strings.HasPrefix(res[0], "ok"), res[0]
	default:
		return true, "unknown oracle"
	}
	return false, ""
}

// classify: the known-finding class = a negated hypothesis of the partial theorems.
func classify(oracle string, ops, res []string) string {
	if len(ops) != 2 {
		return ""
	}
	rf := strings.Fields(ops[1])
	if len(rf) != 5 {
		return ""
	}
	cl, ok := classesOf(rf[2], rf[3], rf[4])
	if !ok {
		return ""
	}
	want := map[string]bool{}
	switch oracle {
	case "agree":
		want = map[string]bool{"F-C03-lt0pre": true, "F-C03-star-collapse": true, "F-C03-mvn-neg": true,
			"F-C03-lt-midwild": true, "F-C03-pre000": true, "F-C03-gt-succ-pre": true, "F-C03-signed-ident": true, "F-C03-lt-partial-pre": true, "F-C03-cargo-pre-partial": true, "F-C03-or-merge-pre": true}
	case "not-rejected":
		want = map[string]bool{"F-C03-hyphen-wild": true, "F-C03-hyphen-inverted": true, "F-C03-ne-pre0": true, "F-C03-mvn-neg": true, "F-C03-signed-ident": true}
	}
	for _, c := range cl {
		if want[c] {
			return c
		}
	}
	return ""
}

func main() {
	fw.Main(&fw.Prop{
		ID:   "C03",
		Rule: "per ecosystem (npm, Cargo, PyPI, Maven): requirement ASTs from the ecosystem's grammar (all operators, partial versions, wildcards, blank variants, ||, hyphen ranges, comma lists, bracket ranges, soft versions), rendered to text for the library and kept as AST for the reference; candidates = every bound of the requirement, one step around it in each component, prerelease variants, pool versions; a small-scope exhaustive stream of every operator x operand shape over {0,1} against the full candidate grid. Oracles: agree (library Match and MatchVersion = reference on every pair in the property's domain), not-rejected (a requirement with a reference-satisfying candidate parses). Distinct non-trivial = distinct (ecosystem, requirement text) the library accepted.",
		Exec: execOp, Run: run, Recheck: recheck, Classify: classify,
		Gens: semvergen.Generators(),
	})
}
