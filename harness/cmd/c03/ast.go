package main

// Range ASTs of the four ecosystems, their wire encoding (the second and third
// field of a `refsat` op line) and their rendering to the requirement string
// that the library parses. The wire form is a comma separated list of tokens
// `<letter><payload>`; it is decoded structurally (no version-string parsing)
// by the Lean driver into the Ref ASTs. Spelling choices (blanks, `v` prefix,
// wildcard letter, build metadata) travel in the encoding so that an oracle
// can re-render the string from the op line alone; the Ref specs ignore them.

import (
	"fmt"
	"strconv"
	"strings"
)

// ---------------------------------------------------------------- SemVer family

// Ident is a prerelease identifier: numeric or alphanumeric.
type Ident struct {
	Num bool
	N   int64
	S   string
}

func (i Ident) String() string {
	if i.Num {
		return strconv.FormatInt(i.N, 10)
	}
	return i.S
}

// Partial is a possibly partial version with optional wildcards, as it occurs
// as the operand of a comparator. Nums has 1..3 entries; -1 is a wildcard.
type Partial struct {
	Nums  []int64
	Wild  []byte // spelling of each wildcard entry ('x', 'X' or '*'); parallel to Nums
	Pre   []Ident
	Build string
	V     bool // "v" prefix
}

// SemVer is a candidate version: three numbers, prerelease, build.
type SemVer struct {
	Major, Minor, Patch int64
	Pre                 []Ident
	Build               string
}

// Comparator is an operator applied to a partial version.
// Op: "" = > >= < <= ^ ~ ~>
type Comparator struct {
	Op    string
	OpSp  int // blanks between operator and operand
	SepSt int // spelling of the separator in front of this comparator (when not first)
	P     Partial
}

// Alt is one `||` alternative: a hyphen range or an AND list of comparators.
type Alt struct {
	Hyphen bool
	Lo, Hi Partial
	Comps  []Comparator
	OrSt   int // spelling of the `||` in front of this alternative (when not first)
}

// Range is an npm range (Alts joined by ||) or a Cargo requirement (one Alt, comma separated).
type Range struct {
	Alts []Alt
}

var opCode = map[string]string{"": "n", "=": "e", ">": "g", ">=": "G", "<": "l", "<=": "L", "^": "c", "~": "t", "~>": "b", "==": "e", "!=": "x", "~=": "b"}
var codeOp = map[string]string{"n": "", "e": "=", "g": ">", "G": ">=", "l": "<", "L": "<=", "c": "^", "t": "~", "b": "~>"}

func encIdents(toks []string, pre []Ident) []string {
	for _, id := range pre {
		if id.Num {
			toks = append(toks, "I"+strconv.FormatInt(id.N, 10))
		} else {
			toks = append(toks, "S"+id.S)
		}
	}
	return toks
}

func (p Partial) enc(toks []string) []string {
	if p.V {
		toks = append(toks, "V")
	}
	for i, n := range p.Nums {
		if n < 0 {
			switch p.Wild[i] {
			case 'X':
				toks = append(toks, "Y")
			case '*':
				toks = append(toks, "Z")
			default:
				toks = append(toks, "X")
			}
		} else {
			toks = append(toks, "N"+strconv.FormatInt(n, 10))
		}
	}
	toks = encIdents(toks, p.Pre)
	if p.Build != "" {
		toks = append(toks, "B"+p.Build)
	}
	return toks
}

func (v SemVer) Enc() string {
	toks := []string{"N" + strconv.FormatInt(v.Major, 10), "N" + strconv.FormatInt(v.Minor, 10), "N" + strconv.FormatInt(v.Patch, 10)}
	toks = encIdents(toks, v.Pre)
	if v.Build != "" {
		toks = append(toks, "B"+v.Build)
	}
	return strings.Join(toks, ",")
}

func (r Range) Enc() string {
	var toks []string
	for _, a := range r.Alts {
		toks = append(toks, "A"+strconv.Itoa(a.OrSt))
		if a.Hyphen {
			toks = append(toks, "H")
			toks = a.Lo.enc(toks)
			toks = append(toks, "T")
			toks = a.Hi.enc(toks)
			continue
		}
		for _, c := range a.Comps {
			toks = append(toks, fmt.Sprintf("C%s%d%d", opCode[c.Op], c.OpSp, c.SepSt))
			toks = c.P.enc(toks)
		}
	}
	if len(toks) == 0 {
		return "-"
	}
	return strings.Join(toks, ",")
}

func decIdent(t string) (Ident, bool) {
	switch t[0] {
	case 'I':
		n, err := strconv.ParseInt(t[1:], 10, 64)
		return Ident{Num: true, N: n}, err == nil
	case 'S':
		return Ident{S: t[1:]}, len(t) > 1
	}
	return Ident{}, false
}

// decPartial consumes partial tokens from toks[i:], returns the partial and the next index.
func decPartial(toks []string, i int) (Partial, int, bool) {
	var p Partial
	for ; i < len(toks); i++ {
		t := toks[i]
		if t == "" {
			return p, i, false
		}
		switch t[0] {
		case 'V':
			p.V = true
		case 'N':
			n, err := strconv.ParseInt(t[1:], 10, 64)
			if err != nil || n < 0 {
				return p, i, false
			}
			p.Nums = append(p.Nums, n)
			p.Wild = append(p.Wild, 0)
		case 'X', 'Y', 'Z':
			p.Nums = append(p.Nums, -1)
			p.Wild = append(p.Wild, map[byte]byte{'X': 'x', 'Y': 'X', 'Z': '*'}[t[0]])
		case 'I', 'S':
			id, ok := decIdent(t)
			if !ok {
				return p, i, false
			}
			p.Pre = append(p.Pre, id)
		case 'B':
			p.Build = t[1:]
		default:
			return p, i, len(p.Nums) >= 1 && len(p.Nums) <= 3
		}
	}
	return p, i, len(p.Nums) >= 1 && len(p.Nums) <= 3
}

func DecSemVer(s string) (SemVer, bool) {
	p, i, ok := decPartial(strings.Split(s, ","), 0)
	if !ok || i != len(strings.Split(s, ",")) || len(p.Nums) != 3 || p.Nums[0] < 0 || p.Nums[1] < 0 || p.Nums[2] < 0 || p.V {
		return SemVer{}, false
	}
	return SemVer{p.Nums[0], p.Nums[1], p.Nums[2], p.Pre, p.Build}, true
}

func DecRange(s string) (Range, bool) {
	var r Range
	if s == "-" {
		return r, true
	}
	toks := strings.Split(s, ",")
	i := 0
	for i < len(toks) {
		t := toks[i]
		if len(t) != 2 || t[0] != 'A' {
			return r, false
		}
		a := Alt{OrSt: int(t[1] - '0')}
		i++
		if i < len(toks) && toks[i] == "H" {
			a.Hyphen = true
			var ok bool
			a.Lo, i, ok = decPartial(toks, i+1)
			if !ok || i >= len(toks) || toks[i] != "T" {
				return r, false
			}
			a.Hi, i, ok = decPartial(toks, i+1)
			if !ok {
				return r, false
			}
			r.Alts = append(r.Alts, a)
			continue
		}
		for i < len(toks) && toks[i] != "" && toks[i][0] == 'C' {
			t := toks[i]
			if len(t) != 4 {
				return r, false
			}
			op, okop := codeOp[t[1:2]]
			if !okop {
				return r, false
			}
			c := Comparator{Op: op, OpSp: int(t[2] - '0'), SepSt: int(t[3] - '0')}
			var ok bool
			c.P, i, ok = decPartial(toks, i+1)
			if !ok {
				return r, false
			}
			a.Comps = append(a.Comps, c)
		}
		if len(a.Comps) == 0 {
			return r, false
		}
		r.Alts = append(r.Alts, a)
	}
	return r, true
}

func renderIdents(pre []Ident) string {
	if len(pre) == 0 {
		return ""
	}
	p := make([]string, len(pre))
	for i, id := range pre {
		p[i] = id.String()
	}
	return "-" + strings.Join(p, ".")
}

func (p Partial) Render() string {
	var b strings.Builder
	if p.V {
		b.WriteByte('v')
	}
	for i, n := range p.Nums {
		if i > 0 {
			b.WriteByte('.')
		}
		if n < 0 {
			b.WriteByte(p.Wild[i])
		} else {
			b.WriteString(strconv.FormatInt(n, 10))
		}
	}
	b.WriteString(renderIdents(p.Pre))
	if p.Build != "" {
		b.WriteString("+" + p.Build)
	}
	return b.String()
}

func (v SemVer) Render() string {
	s := fmt.Sprintf("%d.%d.%d%s", v.Major, v.Minor, v.Patch, renderIdents(v.Pre))
	if v.Build != "" {
		s += "+" + v.Build
	}
	return s
}

var blanks = []string{"", " ", "  "}

// RenderNpm renders the range in npm syntax.
func (r Range) RenderNpm() string {
	var b strings.Builder
	for ai, a := range r.Alts {
		if ai > 0 {
			b.WriteString([]string{" || ", "||", " ||", "|| "}[a.OrSt%4])
		}
		if a.Hyphen {
			b.WriteString(a.Lo.Render() + " - " + a.Hi.Render())
			continue
		}
		for ci, c := range a.Comps {
			if ci > 0 {
				b.WriteString([]string{" ", "  ", "\t"}[c.SepSt%3])
			}
			b.WriteString(c.Op + blanks[c.OpSp%3] + c.P.Render())
		}
	}
	return b.String()
}

// RenderCargo renders the (single alternative) requirement in Cargo syntax.
func (r Range) RenderCargo() string {
	var b strings.Builder
	if len(r.Alts) != 1 || r.Alts[0].Hyphen {
		return "<not a cargo requirement>"
	}
	for ci, c := range r.Alts[0].Comps {
		if ci > 0 {
			b.WriteString([]string{",", ", ", " , "}[c.SepSt%3])
		}
		b.WriteString(c.Op + blanks[c.OpSp%3] + c.P.Render())
	}
	return b.String()
}

// ---------------------------------------------------------------- PEP 440

// PepVer is a PEP 440 version without epoch and local part.
type PepVer struct {
	Rel     []int64
	PreKind string // "", "a", "b", "rc"
	PreN    int64
	Post    int64 // -1 = absent
	Dev     int64 // -1 = absent
}

// PepClause: Op is one of == != <= >= < > ~= ; Star = trailing ".*".
type PepClause struct {
	Op    string
	OpSp  int
	SepSt int
	V     PepVer
	Star  bool
}

type PepSpec struct{ Clauses []PepClause }

var pepOpCode = map[string]string{"==": "e", "!=": "x", "<=": "L", ">=": "G", "<": "l", ">": "g", "~=": "b"}
var pepCodeOp = map[string]string{"e": "==", "x": "!=", "L": "<=", "G": ">=", "l": "<", "g": ">", "b": "~="}

func (v PepVer) enc(toks []string) []string {
	for _, n := range v.Rel {
		toks = append(toks, "N"+strconv.FormatInt(n, 10))
	}
	if v.PreKind != "" {
		toks = append(toks, "P"+v.PreKind[:1]+strconv.FormatInt(v.PreN, 10))
	}
	if v.Post >= 0 {
		toks = append(toks, "O"+strconv.FormatInt(v.Post, 10))
	}
	if v.Dev >= 0 {
		toks = append(toks, "D"+strconv.FormatInt(v.Dev, 10))
	}
	return toks
}

func (v PepVer) Enc() string { return strings.Join(v.enc(nil), ",") }

func (s PepSpec) Enc() string {
	var toks []string
	for _, c := range s.Clauses {
		toks = append(toks, fmt.Sprintf("C%s%d%d", pepOpCode[c.Op], c.OpSp, c.SepSt))
		toks = c.V.enc(toks)
		if c.Star {
			toks = append(toks, "X")
		}
	}
	if len(toks) == 0 {
		return "-"
	}
	return strings.Join(toks, ",")
}

func decPepVer(toks []string, i int) (PepVer, bool, int, bool) {
	v := PepVer{Post: -1, Dev: -1}
	star := false
	for ; i < len(toks); i++ {
		t := toks[i]
		if t == "" {
			return v, star, i, false
		}
		num := func(s string) (int64, bool) {
			n, err := strconv.ParseInt(s, 10, 64)
			return n, err == nil && n >= 0
		}
		var ok bool
		switch t[0] {
		case 'N':
			var n int64
			n, ok = num(t[1:])
			v.Rel = append(v.Rel, n)
		case 'P':
			if len(t) < 3 {
				return v, star, i, false
			}
			v.PreKind = map[byte]string{'a': "a", 'b': "b", 'r': "rc"}[t[1]]
			v.PreN, ok = num(t[2:])
			ok = ok && v.PreKind != ""
		case 'O':
			v.Post, ok = num(t[1:])
		case 'D':
			v.Dev, ok = num(t[1:])
		case 'X':
			star, ok = true, true
		default:
			return v, star, i, len(v.Rel) > 0
		}
		if !ok {
			return v, star, i, false
		}
	}
	return v, star, i, len(v.Rel) > 0
}

func DecPepVer(s string) (PepVer, bool) {
	toks := strings.Split(s, ",")
	v, star, i, ok := decPepVer(toks, 0)
	return v, ok && !star && i == len(toks)
}

func DecPepSpec(s string) (PepSpec, bool) {
	var sp PepSpec
	if s == "-" {
		return sp, true
	}
	toks := strings.Split(s, ",")
	i := 0
	for i < len(toks) {
		t := toks[i]
		if len(t) != 4 || t[0] != 'C' {
			return sp, false
		}
		op, ok := pepCodeOp[t[1:2]]
		if !ok {
			return sp, false
		}
		c := PepClause{Op: op, OpSp: int(t[2] - '0'), SepSt: int(t[3] - '0')}
		c.V, c.Star, i, ok = decPepVer(toks, i+1)
		if !ok {
			return sp, false
		}
		sp.Clauses = append(sp.Clauses, c)
	}
	return sp, true
}

func (v PepVer) Render() string {
	p := make([]string, len(v.Rel))
	for i, n := range v.Rel {
		p[i] = strconv.FormatInt(n, 10)
	}
	s := strings.Join(p, ".")
	if v.PreKind != "" {
		s += v.PreKind + strconv.FormatInt(v.PreN, 10)
	}
	if v.Post >= 0 {
		s += ".post" + strconv.FormatInt(v.Post, 10)
	}
	if v.Dev >= 0 {
		s += ".dev" + strconv.FormatInt(v.Dev, 10)
	}
	return s
}

func (s PepSpec) Render() string {
	var b strings.Builder
	for i, c := range s.Clauses {
		if i > 0 {
			b.WriteString([]string{",", ", ", " , "}[c.SepSt%3])
		}
		b.WriteString(c.Op + blanks[c.OpSp%3] + c.V.Render())
		if c.Star {
			b.WriteString(".*")
		}
	}
	return b.String()
}

// ---------------------------------------------------------------- Maven

// MvnVer: numeric components, optional qualifier (one of mvnQuals, attached with '-')
// and qualifier number (0 = none; attached with '-').
type MvnVer struct {
	Nums []int64
	Qual string
	QN   int64
}

// MvnItem is a bare (soft) version, an exact `[v]`, or a bracketed range.
type MvnItem struct {
	Kind         byte // 'S' soft, 'E' exact, 'R' range
	V            MvnVer
	LoInc, HiInc bool
	HasLo, HasHi bool
	Lo, Hi       MvnVer
	Sp           int // blanks inside the brackets
}

type MvnRange struct{ Items []MvnItem }

func (v MvnVer) enc(toks []string) []string {
	for _, n := range v.Nums {
		toks = append(toks, "N"+strconv.FormatInt(n, 10))
	}
	if v.Qual != "" {
		toks = append(toks, "Q"+v.Qual)
		if v.QN > 0 {
			toks = append(toks, "M"+strconv.FormatInt(v.QN, 10))
		}
	}
	return toks
}

func (v MvnVer) Enc() string { return strings.Join(v.enc(nil), ",") }

func b2d(b bool) string {
	if b {
		return "1"
	}
	return "0"
}

func (r MvnRange) Enc() string {
	var toks []string
	for _, it := range r.Items {
		switch it.Kind {
		case 'S':
			toks = append(toks, "S")
			toks = it.V.enc(toks)
		case 'E':
			toks = append(toks, "E"+strconv.Itoa(it.Sp))
			toks = it.V.enc(toks)
		case 'R':
			toks = append(toks, "R"+b2d(it.LoInc)+b2d(it.HiInc)+strconv.Itoa(it.Sp))
			if it.HasLo {
				toks = append(toks, "L")
				toks = it.Lo.enc(toks)
			}
			if it.HasHi {
				toks = append(toks, "U")
				toks = it.Hi.enc(toks)
			}
		}
	}
	if len(toks) == 0 {
		return "-"
	}
	return strings.Join(toks, ",")
}

func decMvnVer(toks []string, i int) (MvnVer, int, bool) {
	var v MvnVer
	for ; i < len(toks); i++ {
		t := toks[i]
		if t == "" {
			return v, i, false
		}
		switch t[0] {
		case 'N':
			n, err := strconv.ParseInt(t[1:], 10, 64)
			if err != nil || n < 0 {
				return v, i, false
			}
			v.Nums = append(v.Nums, n)
		case 'Q':
			v.Qual = t[1:]
			if _, ok := mvnQualRank[v.Qual]; !ok || v.Qual == "" {
				return v, i, false
			}
		case 'M':
			n, err := strconv.ParseInt(t[1:], 10, 64)
			if err != nil || n <= 0 || v.Qual == "" {
				return v, i, false
			}
			v.QN = n
		default:
			return v, i, len(v.Nums) > 0
		}
	}
	return v, i, len(v.Nums) > 0
}

func DecMvnVer(s string) (MvnVer, bool) {
	toks := strings.Split(s, ",")
	v, i, ok := decMvnVer(toks, 0)
	return v, ok && i == len(toks)
}

func DecMvnRange(s string) (MvnRange, bool) {
	var r MvnRange
	if s == "-" {
		return r, true
	}
	toks := strings.Split(s, ",")
	i := 0
	for i < len(toks) {
		t := toks[i]
		if t == "" {
			return r, false
		}
		var ok bool
		switch {
		case t == "S":
			it := MvnItem{Kind: 'S'}
			it.V, i, ok = decMvnVer(toks, i+1)
			if !ok {
				return r, false
			}
			r.Items = append(r.Items, it)
		case t[0] == 'E' && len(t) == 2:
			it := MvnItem{Kind: 'E', Sp: int(t[1] - '0')}
			it.V, i, ok = decMvnVer(toks, i+1)
			if !ok {
				return r, false
			}
			r.Items = append(r.Items, it)
		case t[0] == 'R' && len(t) == 4:
			it := MvnItem{Kind: 'R', LoInc: t[1] == '1', HiInc: t[2] == '1', Sp: int(t[3] - '0')}
			i++
			if i < len(toks) && toks[i] == "L" {
				it.HasLo = true
				it.Lo, i, ok = decMvnVer(toks, i+1)
				if !ok {
					return r, false
				}
			}
			if i < len(toks) && toks[i] == "U" {
				it.HasHi = true
				it.Hi, i, ok = decMvnVer(toks, i+1)
				if !ok {
					return r, false
				}
			}
			r.Items = append(r.Items, it)
		default:
			return r, false
		}
	}
	return r, true
}

func (v MvnVer) Render() string {
	p := make([]string, len(v.Nums))
	for i, n := range v.Nums {
		p[i] = strconv.FormatInt(n, 10)
	}
	s := strings.Join(p, ".")
	if v.Qual != "" {
		s += "-" + v.Qual
		if v.QN > 0 {
			s += "-" + strconv.FormatInt(v.QN, 10)
		}
	}
	return s
}

func (r MvnRange) Render() string {
	var parts []string
	for _, it := range r.Items {
		sp := blanks[it.Sp%3]
		switch it.Kind {
		case 'S':
			parts = append(parts, it.V.Render())
		case 'E':
			parts = append(parts, "["+sp+it.V.Render()+sp+"]")
		case 'R':
			lb, rb := "(", ")"
			if it.LoInc {
				lb = "["
			}
			if it.HiInc {
				rb = "]"
			}
			lo, hi := "", ""
			if it.HasLo {
				lo = it.Lo.Render()
			}
			if it.HasHi {
				hi = it.Hi.Render()
			}
			parts = append(parts, lb+sp+lo+sp+","+sp+hi+sp+rb)
		}
	}
	return strings.Join(parts, ",")
}
