package main

// Known-finding classes: decidable predicates on (requirement AST, candidate
// AST). Each is the negation of a named hypothesis of a `_partial` theorem in
// lean/DepsDev/Props/C03.lean and has a Lean counterpart in DepsDev/Ref/*.lean
// (kept equal by the `classify` correspondence op).

// lt0pre: some comparator is `<0.0.0-pre` (all three numbers zero, a prerelease).
func npmLt0Pre(r Range) bool {
	for _, a := range r.Alts {
		for _, c := range a.Comps {
			p := c.P
			if c.Op == "<" && len(p.Nums) == 3 && p.Nums[0] == 0 && p.Nums[1] == 0 && p.Nums[2] == 0 && len(p.Pre) > 0 {
				return true
			}
		}
	}
	return false
}

// libLessPartial: hi orders below lo the way the library compares the two
// operands of a hyphen range: numbers padded with 0, a wildcard counting as -1,
// then the prerelease lists.
func libLessPartial(hi, lo Partial) bool {
	at := func(p Partial, i int) int64 {
		if i < len(p.Nums) {
			return p.Nums[i]
		}
		return 0
	}
	for i := 0; i < 3; i++ {
		if h, l := at(hi, i), at(lo, i); h != l {
			return h < l
		}
	}
	return cmpPre(hi.Pre, lo.Pre) < 0
}

func isPartial(p Partial) bool {
	if len(p.Nums) < 3 {
		return true
	}
	for _, n := range p.Nums {
		if n < 0 {
			return true
		}
	}
	return false
}

const refInf = int64(1) << 62 // stands for the library's infinity in completed upper bounds

// hyphenRejected: the library's hyphen rule rejects `lo - hi`: hi orders below
// lo as written (libLessPartial), or after completion (lo: wildcards and missing
// numbers become 0; hi: they become infinity) the upper bound is below the lower.
func hyphenRejected(lo, hi Partial) bool {
	if libLessPartial(hi, lo) {
		return true
	}
	if isX(lo, 0) {
		return false // `*` as lower bound is the library's minimum version
	}
	complete := func(p Partial, fill int64) [3]int64 {
		var out [3]int64
		wild := false
		for i := 0; i < 3; i++ {
			if i >= len(p.Nums) || p.Nums[i] < 0 || wild {
				if i < len(p.Nums) {
					wild = true
				}
				out[i] = fill
			} else {
				out[i] = p.Nums[i]
			}
		}
		return out
	}
	l, h := complete(lo, 0), complete(hi, refInf)
	for i := 0; i < 3; i++ {
		if h[i] != l[i] {
			return h[i] < l[i]
		}
	}
	return cmpPre(hi.Pre, lo.Pre) < 0
}

// hyphenSatisfiable: node's reading `>=from <to` / `>=from <=to` of the hyphen
// alternative has a member.
func hyphenSatisfiable(lo, hi Partial) bool {
	cs := desugarHyphen(lo, hi)
	from, to := cs[0], cs[1]
	if from.Any || to.Any {
		return true
	}
	k := cmpSemVer(from.V, to.V)
	if to.Op == "<" {
		return k < 0
	}
	return k <= 0
}

// hyphenBelow: a hyphen alternative the library's hyphen rule rejects.
// satisfiable tells the two findings apart: the alternative has members in
// node (`1.2.3 - 1`, `1 - *`: node completes a partial upper bound upwards), or
// it is empty in node (and the other alternatives of the range are not).
func npmHyphenBelow(r Range, satisfiable bool) bool {
	for _, a := range r.Alts {
		if a.Hyphen && hyphenRejected(a.Lo, a.Hi) && hyphenSatisfiable(a.Lo, a.Hi) == satisfiable {
			return true
		}
	}
	return false
}

// ltMidWild: a `<` comparator whose operand has a number after a wildcard (`<1.x.2`).
func npmLtMidWild(r Range) bool {
	for _, a := range r.Alts {
		for _, c := range a.Comps {
			if c.Op != "<" {
				continue
			}
			seenX := false
			for _, n := range c.P.Nums {
				if n < 0 {
					seenX = true
				} else if seenX {
					return true
				}
			}
		}
	}
	return false
}

// ltPartialPre: the candidate is a prerelease whose [major, minor, patch] is
// the zero completion of the partial operand of some `<` comparator
// (`>=1.2.0-a <1.2` and 1.2.0-a: node reads `<1.2.0-0`).
func npmLtPartialPre(r Range, v SemVer) bool {
	if len(v.Pre) == 0 {
		return false
	}
	for _, a := range r.Alts {
		for _, c := range a.Comps {
			if c.Op == "<" && isPartial(c.P) && !isX(c.P, 0) {
				M, m := num(c.P, 0), int64(0)
				if !isX(c.P, 1) {
					m = num(c.P, 1)
				}
				if v.Major == M && v.Minor == m && v.Patch == 0 {
					return true
				}
			}
		}
	}
	return false
}

// pre000: the candidate is a prerelease of 0.0.0. The library's minimum version
// is the unmarked sentinel 0.0.0-0, `<0.0.0-pre` is the empty set, and node drops
// a desugared `>=0.0.0` comparator from a comparator set.
func pre000(v SemVer) bool {
	return v.Major == 0 && v.Minor == 0 && v.Patch == 0 && len(v.Pre) > 0
}

// gtSuccPre: the candidate is a prerelease of the successor M.m.(p+1) of the
// full release operand of some `>` comparator: the library reads `>M.m.p` as
// `>=M.m.(p+1)`, which has no room for M.m.(p+1)-pre.
func gtSuccPre(r Range, v SemVer) bool {
	if len(v.Pre) == 0 {
		return false
	}
	for _, a := range r.Alts {
		for _, c := range a.Comps {
			p := c.P
			if c.Op == ">" && !isPartial(p) && len(p.Pre) == 0 && v.Major == p.Nums[0] && v.Minor == p.Nums[1] && v.Patch == p.Nums[2]+1 {
				return true
			}
		}
	}
	return false
}

// signedIdent: a prerelease identifier of the form -[0-9]+ (alphanumeric by SemVer's
// grammar) in the candidate or in an operand: the library's isNumeric reads it with
// strconv.ParseInt as a negative number and orders it below every numeric identifier.
func isSignedIdent(id Ident) bool {
	if id.Num || len(id.S) < 2 || id.S[0] != '-' {
		return false
	}
	for i := 1; i < len(id.S); i++ {
		if id.S[i] < '0' || id.S[i] > '9' {
			return false
		}
	}
	return true
}

func signedIdent(r Range, v SemVer) bool {
	anyOf := func(pre []Ident) bool {
		for _, id := range pre {
			if isSignedIdent(id) {
				return true
			}
		}
		return false
	}
	if anyOf(v.Pre) {
		return true
	}
	for _, a := range r.Alts {
		if a.Hyphen && (anyOf(a.Lo.Pre) || anyOf(a.Hi.Pre)) {
			return true
		}
		for _, c := range a.Comps {
			if anyOf(c.P.Pre) {
				return true
			}
		}
	}
	return false
}

// cargoPrePartial: a prerelease candidate against a comma list of at least two
// comparators one of which has a partial operand: the crate evaluates each
// comparator component-wise on the prerelease (`~1`, `=1`, `<=1.*` never match
// one; `>1.1` matches 1.2.0-a), which is not interval membership.
func cargoPrePartial(r Range, v SemVer) bool {
	if len(v.Pre) == 0 || len(r.Alts) != 1 || len(r.Alts[0].Comps) < 2 {
		return false
	}
	for _, c := range r.Alts[0].Comps {
		if isPartial(c.P) {
			return true
		}
	}
	return false
}

// starCollapse: at least two alternatives remain after node drops null sets and
// one of them is the `*` comparator set: node reduces the range to `*`.
func npmStarCollapse(r Range) bool {
	if len(r.Alts) < 2 {
		return false
	}
	n, star := 0, false
	for _, a := range r.Alts {
		s := comparatorSet(a)
		if isNullSet(s[0]) {
			continue
		}
		n++
		if isStarSet(s) {
			star = true
		}
	}
	return n > 1 && star
}

// orMergePre (F-C03-or-merge-pre): the candidate is a prerelease and two `||` alternatives meet
// at a tagged operand T with the candidate's numbers: T is an upper-bound operand of one
// alternative (`<T`, `<=T`, `=T`, `T`, hyphen upper end) and, with the same numbers and tag, a
// lower-bound operand of the other (`>T`, `>=T`, `^T`, `~T`, `=T`, `T`, hyphen lower end), not
// excluded on both sides, and the tags of the first alternative's lower bound and of the second's
// upper bound can equal T's (operands' tags; `0` for the library's minimum version when no
// comparator sets a lower bound; `~T` keeps its tag on the upper bound). canon then merges the two spans into one that no longer has T as a
// bound, and the prerelease candidates that node admits through T are lost.
type tagBound struct {
	P    Partial
	Open bool
}

func fullTagged(p Partial) bool { return !isPartial(p) && len(p.Pre) > 0 }

func identsEq(a, b []Ident) bool {
	if len(a) != len(b) {
		return false
	}
	for i := range a {
		if a[i].Num != b[i].Num {
			return false
		}
		if a[i].Num && a[i].N != b[i].N {
			return false
		}
		if !a[i].Num && a[i].S != b[i].S {
			return false
		}
	}
	return true
}

func altUppers(a Alt) []tagBound {
	var out []tagBound
	if a.Hyphen {
		if fullTagged(a.Hi) {
			out = append(out, tagBound{a.Hi, false})
		}
		return out
	}
	for _, c := range a.Comps {
		if !fullTagged(c.P) {
			continue
		}
		switch c.Op {
		case "<":
			out = append(out, tagBound{c.P, true})
		case "<=", "=", "":
			out = append(out, tagBound{c.P, false})
		}
	}
	return out
}

func altLowers(a Alt) []tagBound {
	var out []tagBound
	if a.Hyphen {
		if fullTagged(a.Lo) {
			out = append(out, tagBound{a.Lo, false})
		}
		return out
	}
	for _, c := range a.Comps {
		if !fullTagged(c.P) {
			continue
		}
		switch c.Op {
		case ">":
			out = append(out, tagBound{c.P, true})
		case ">=", "^", "~", "~>", "=", "":
			out = append(out, tagBound{c.P, false})
		}
	}
	return out
}

func altLowerTags(a Alt) [][]Ident {
	if a.Hyphen {
		if isX(a.Lo, 0) {
			return [][]Ident{zeroPre}
		}
		return [][]Ident{a.Lo.Pre}
	}
	var out [][]Ident
	noLower := true // no comparator sets a lower bound: the library's minimum version 0.0.0-0
	for _, c := range a.Comps {
		if !(c.Op == "<" || c.Op == "<=" || isX(c.P, 0)) {
			noLower = false
		}
	}
	if noLower {
		out = append(out, zeroPre)
	}
	for _, b := range altLowers(a) {
		out = append(out, b.P.Pre)
	}
	return out
}

func altUpperTags(a Alt) [][]Ident {
	if a.Hyphen {
		return [][]Ident{a.Hi.Pre}
	}
	var out [][]Ident
	for _, b := range altUppers(a) {
		out = append(out, b.P.Pre)
	}
	for _, c := range a.Comps {
		if (c.Op == "~" || c.Op == "~>") && fullTagged(c.P) {
			out = append(out, c.P.Pre)
		}
	}
	return out
}

func hasTag(l [][]Ident, t []Ident) bool {
	for _, x := range l {
		if identsEq(x, t) {
			return true
		}
	}
	return false
}

func meetAt(v SemVer, a, b Alt) bool {
	for _, t := range altUppers(a) {
		for _, u := range altLowers(b) {
			if t.P.Nums[0] == u.P.Nums[0] && t.P.Nums[1] == u.P.Nums[1] && t.P.Nums[2] == u.P.Nums[2] &&
				identsEq(t.P.Pre, u.P.Pre) && !(t.Open && u.Open) &&
				t.P.Nums[0] == v.Major && t.P.Nums[1] == v.Minor && t.P.Nums[2] == v.Patch &&
				hasTag(altLowerTags(a), t.P.Pre) && hasTag(altUpperTags(b), t.P.Pre) {
				return true
			}
		}
	}
	return false
}

func npmOrMergePre(r Range, v SemVer) bool {
	if len(v.Pre) == 0 {
		return false
	}
	for i := range r.Alts {
		for j := i + 1; j < len(r.Alts); j++ {
			if meetAt(v, r.Alts[i], r.Alts[j]) || meetAt(v, r.Alts[j], r.Alts[i]) {
				return true
			}
		}
	}
	return false
}

// nePre0: a `!=V` clause whose V orders below 0 (zero release with a
// pre-release or bare dev suffix).
func pepNePre0(s PepSpec) bool {
	for _, c := range s.Clauses {
		if c.Op == "!=" && !c.Star && allZero(c.V.Rel) && (c.V.PreKind != "" || (c.V.Dev >= 0 && c.V.Post < 0)) {
			return true
		}
	}
	return false
}

// mvnUpperBelowZero: an item without lower bound whose upper bound orders below "0"
// (the library reads the missing lower bound as 0).
func mvnUpperBelowZero(r MvnRange) bool {
	for _, it := range r.Items {
		if it.Kind == 'R' && !it.HasLo && it.HasHi && mvnBelowZero(it.Hi) {
			return true
		}
	}
	return false
}

func classesOf(eco, renc, venc string) ([]string, bool) {
	var out []string
	switch eco {
	case "npm":
		rg, ok1 := DecRange(renc)
		v, ok2 := DecSemVer(venc)
		if !ok1 || !ok2 {
			return nil, false
		}
		if npmLt0Pre(rg) && pre000(v) {
			out = append(out, "F-C03-lt0pre")
		} else if pre000(v) {
			out = append(out, "F-C03-pre000")
		}
		if gtSuccPre(rg, v) {
			out = append(out, "F-C03-gt-succ-pre")
		}
		if signedIdent(rg, v) {
			out = append(out, "F-C03-signed-ident")
		}
		if npmHyphenBelow(rg, true) {
			out = append(out, "F-C03-hyphen-wild")
		}
		if npmHyphenBelow(rg, false) {
			out = append(out, "F-C03-hyphen-inverted")
		}
		if npmLtMidWild(rg) {
			out = append(out, "F-C03-lt-midwild")
		}
		if npmLtPartialPre(rg, v) {
			out = append(out, "F-C03-lt-partial-pre")
		}
		if npmStarCollapse(rg) && len(v.Pre) > 0 {
			out = append(out, "F-C03-star-collapse")
		}
		if npmOrMergePre(rg, v) {
			out = append(out, "F-C03-or-merge-pre")
		}
	case "cargo":
		rg, ok1 := DecRange(renc)
		v, ok2 := DecSemVer(venc)
		if !ok1 || !ok2 {
			return nil, false
		}
		if npmLt0Pre(rg) && pre000(v) {
			out = append(out, "F-C03-lt0pre")
		} else if pre000(v) {
			out = append(out, "F-C03-pre000")
		}
		if gtSuccPre(rg, v) {
			out = append(out, "F-C03-gt-succ-pre")
		}
		if signedIdent(rg, v) {
			out = append(out, "F-C03-signed-ident")
		}
		if cargoPrePartial(rg, v) {
			out = append(out, "F-C03-cargo-pre-partial")
		}
	case "pypi":
		s, ok1 := DecPepSpec(renc)
		_, ok2 := DecPepVer(venc)
		if !ok1 || !ok2 {
			return nil, false
		}
		if pepNePre0(s) {
			out = append(out, "F-C03-ne-pre0")
		}
	case "maven":
		rg, ok1 := DecMvnRange(renc)
		v, ok2 := DecMvnVer(venc)
		if !ok1 || !ok2 {
			return nil, false
		}
		if mvnBelowZero(v) || mvnUpperBelowZero(rg) {
			out = append(out, "F-C03-mvn-neg")
		}
	default:
		return nil, false
	}
	return out, true
}
