package main

// Known-finding classes: decidable predicates on (requirement AST, candidate
// AST). Each is the negation of a named hypothesis of a `_partial` theorem in
// lean/DepsDev/Props/C03.lean and has a Lean counterpart in DepsDev/Ref/*.lean
// (kept equal by the `classify` correspondence op).

// lt0pre: some comparator is `<0.0.0-pre` (all three numbers zero, a prerelease).
func npmLt0Pre(r Range) bool {
	for _, a := range r.Alts {
		for _, c := range a.Comps {
			p := c.P
			if c.Op == "<" && len(p.Nums) == 3 && p.Nums[0] == 0 && p.Nums[1] == 0 && p.Nums[2] == 0 && len(p.Pre) > 0 {
				return true
			}
		}
	}
	return false
}

// hyphenWild: a hyphen range whose upper bound has a wildcard and, read with the
// wildcard as -1 (as the library does), orders below the lower bound.
func npmHyphenWild(r Range) bool {
	for _, a := range r.Alts {
		if !a.Hyphen {
			continue
		}
		hasX := false
		for _, n := range a.Hi.Nums {
			if n < 0 {
				hasX = true
			}
		}
		if !hasX {
			continue
		}
		at := func(p Partial, i int) int64 {
			if i < len(p.Nums) {
				return p.Nums[i]
			}
			return 0
		}
		for i := 0; i < 3; i++ {
			h, l := at(a.Hi, i), at(a.Lo, i)
			if h != l {
				if h < l {
					return true
				}
				break
			}
		}
	}
	return false
}

// starCollapse: at least two alternatives remain after node drops null sets and
// one of them is the `*` comparator set: node reduces the range to `*`.
func npmStarCollapse(r Range) bool {
	if len(r.Alts) < 2 {
		return false
	}
	n, star := 0, false
	for _, a := range r.Alts {
		s := comparatorSet(a)
		if isNullSet(s[0]) {
			continue
		}
		n++
		if isStarSet(s) {
			star = true
		}
	}
	return n > 1 && star
}

// nePre0: a `!=V` clause whose V orders below 0 (zero release with a
// pre-release or bare dev suffix).
func pepNePre0(s PepSpec) bool {
	for _, c := range s.Clauses {
		if c.Op == "!=" && !c.Star && allZero(c.V.Rel) && (c.V.PreKind != "" || (c.V.Dev >= 0 && c.V.Post < 0)) {
			return true
		}
	}
	return false
}

func classesOf(eco, renc, venc string) ([]string, bool) {
	var out []string
	switch eco {
	case "npm":
		rg, ok1 := DecRange(renc)
		v, ok2 := DecSemVer(venc)
		if !ok1 || !ok2 {
			return nil, false
		}
		if npmLt0Pre(rg) {
			out = append(out, "F-C03-lt0pre")
		}
		if npmHyphenWild(rg) {
			out = append(out, "F-C03-hyphen-wild")
		}
		if npmStarCollapse(rg) && len(v.Pre) > 0 {
			out = append(out, "F-C03-star-collapse")
		}
	case "cargo":
		_, ok1 := DecRange(renc)
		_, ok2 := DecSemVer(venc)
		if !ok1 || !ok2 {
			return nil, false
		}
	case "pypi":
		s, ok1 := DecPepSpec(renc)
		_, ok2 := DecPepVer(venc)
		if !ok1 || !ok2 {
			return nil, false
		}
		if pepNePre0(s) {
			out = append(out, "F-C03-ne-pre0")
		}
	case "maven":
		_, ok1 := DecMvnRange(renc)
		v, ok2 := DecMvnVer(venc)
		if !ok1 || !ok2 {
			return nil, false
		}
		if mvnBelowZero(v) {
			out = append(out, "F-C03-mvn-neg")
		}
	default:
		return nil, false
	}
	return out, true
}
