package main

// Generators: range ASTs per ecosystem (all operators, partial versions,
// wildcards, blank variants, ||, hyphen ranges, comma lists, bracket ranges)
// and candidate versions around every bound of a range.

import (
	"math/rand"
	"sort"
)

func pickS(r *rand.Rand, xs ...string) string { return xs[r.Intn(len(xs))] }

func genNum(r *rand.Rand) int64 {
	switch r.Intn(24) {
	case 0:
		return 10
	case 1:
		return 2147483647
	case 2:
		return 4503599627370495 // 2^52 - 1: still exact in node-semver
	}
	return int64(r.Intn(4))
}

var prePool = [][]Ident{
	{{S: "a"}}, {{S: "b"}}, {{Num: true, N: 0}}, {{Num: true, N: 1}}, {{S: "a"}, {Num: true, N: 1}}, {{S: "rc"}, {Num: true, N: 2}},
	{{S: "alpha"}}, {{Num: true, N: 0}, {S: "a"}}, {{S: "A"}}, {{S: "a-b"}}, {{Num: true, N: 10}}, {{S: "a"}, {S: "b"}}, {{S: "0a"}}, {{S: "-"}}, {{S: "-5"}}, {{S: "a"}, {S: "-1"}},
}

func genPre(r *rand.Rand) []Ident { return prePool[r.Intn(len(prePool))] }

// genPartial generates an operand; allowNonTrailing permits `1.x.3`-like shapes (npm).
func genPartial(r *rand.Rand, npm bool) Partial {
	var p Partial
	k := 3
	switch r.Intn(10) {
	case 0, 1:
		k = 1
	case 2, 3, 4:
		k = 2
	}
	for i := 0; i < k; i++ {
		p.Nums = append(p.Nums, genNum(r))
		p.Wild = append(p.Wild, 0)
	}
	wc := byte('x')
	if !npm {
		wc = '*'
	}
	if r.Intn(4) == 0 {
		wc = []byte{'x', 'X', '*'}[r.Intn(3)]
	}
	switch r.Intn(16) {
	case 0: // bare wildcard
		p.Nums, p.Wild = []int64{-1}, []byte{wc}
		if npm && r.Intn(3) == 0 {
			p.Nums, p.Wild = append(p.Nums, -1), append(p.Wild, wc)
		}
	case 1, 2: // trailing wildcard
		if k > 1 {
			p.Nums[k-1], p.Wild[k-1] = -1, wc
		}
	case 3: // two trailing wildcards
		if k == 3 {
			p.Nums[1], p.Wild[1], p.Nums[2], p.Wild[2] = -1, wc, -1, wc
		}
	case 4: // wildcard in the middle
		if k == 3 && npm && r.Intn(2) == 0 {
			p.Nums[1], p.Wild[1] = -1, wc
		}
	}
	hasX := false
	for _, n := range p.Nums {
		if n < 0 {
			hasX = true
		}
	}
	if len(p.Nums) == 3 && r.Intn(3) == 0 && !hasX {
		p.Pre = genPre(r)
	}
	if len(p.Nums) == 3 && !hasX && r.Intn(12) == 0 {
		p.Build = pickS(r, "b1", "x.y", "001")
	}
	if npm && r.Intn(12) == 0 {
		p.V = true
	}
	return p
}

// relatedPartial derives an operand from another one of the same requirement
// (same numbers cut, extended or stepped; prerelease added, dropped or changed),
// so that bounds of different comparators meet.
func relatedPartial(r *rand.Rand, p Partial) Partial {
	q := Partial{V: p.V}
	for i, n := range p.Nums {
		if n < 0 {
			break
		}
		q.Nums = append(q.Nums, p.Nums[i])
		q.Wild = append(q.Wild, 0)
	}
	if len(q.Nums) == 0 {
		q.Nums, q.Wild = []int64{int64(r.Intn(3))}, []byte{0}
	}
	switch r.Intn(6) {
	case 0: // cut
		if len(q.Nums) > 1 {
			k := 1 + r.Intn(len(q.Nums)-1)
			q.Nums, q.Wild = q.Nums[:k], q.Wild[:k]
		}
	case 1: // extend with zeros
		for len(q.Nums) < 3 {
			q.Nums, q.Wild = append(q.Nums, 0), append(q.Wild, 0)
		}
	case 2: // step the last number
		k := len(q.Nums) - 1
		if r.Intn(2) == 0 || q.Nums[k] == 0 {
			q.Nums[k]++
		} else {
			q.Nums[k]--
		}
	}
	if len(q.Nums) == 3 {
		switch r.Intn(4) {
		case 0:
			q.Pre = p.Pre
		case 1:
			q.Pre = genPre(r)
		case 2:
			if len(p.Pre) > 0 {
				q.Pre = append(append([]Ident{}, p.Pre...), Ident{Num: true, N: 1})
			}
		}
	}
	return q
}

var npmOps = []string{"", "=", ">", ">=", "<", "<=", "^", "~", "~>"}
var cargoOps = []string{"", "=", ">", ">=", "<", "<=", "^", "~"}

func genComparators(r *rand.Rand, ops []string, npm bool) []Comparator {
	n := 1
	switch r.Intn(20) {
	case 0, 1, 2, 3, 4, 5, 6:
		n = 2
	case 7, 8:
		n = 3
	}
	var cs []Comparator
	for i := 0; i < n; i++ {
		c := Comparator{Op: ops[r.Intn(len(ops))], P: genPartial(r, npm)}
		if i > 0 && r.Intn(3) == 0 {
			c.P = relatedPartial(r, cs[r.Intn(len(cs))].P)
		}
		if c.Op != "" && r.Intn(5) == 0 {
			c.OpSp = 1 + r.Intn(2)
		}
		if r.Intn(5) == 0 {
			c.SepSt = 1 + r.Intn(2)
		}
		cs = append(cs, c)
	}
	return cs
}

// genAbutting: two `||` alternatives that meet (abut, overlap, or leave a one-version gap) at a
// bound that may carry a prerelease tag, with plain or tagged outer ends; optionally a third
// alternative. These are the shapes canon's merge guards decide about.
func genAbutting(r *rand.Rand) Range {
	full := func(a, b, c int64, pre []Ident) Partial {
		return Partial{Nums: []int64{a, b, c}, Wild: []byte{0, 0, 0}, Pre: pre}
	}
	maybePre := func(p int) []Ident {
		if r.Intn(p) == 0 {
			return nil
		}
		return genPre(r)
	}
	M := int64(r.Intn(3))
	lo := full(M, int64(r.Intn(2)), 0, nil)
	mid := full(M+1, int64(r.Intn(2)), int64(r.Intn(2)), maybePre(4))
	hi := full(M+2+int64(r.Intn(2)), 0, 0, nil)
	if r.Intn(4) == 0 {
		lo.Pre = genPre(r)
	}
	if r.Intn(4) == 0 {
		hi.Pre = genPre(r)
	}
	mid2 := mid
	switch r.Intn(6) {
	case 0:
		mid2.Pre = maybePre(3) // another tag (or none) on the same numbers
	case 1:
		mid2 = relatedPartial(r, mid)
	}
	mk := func(l, h Partial, lops, hops []string) Alt {
		if r.Intn(3) == 0 {
			return Alt{Hyphen: true, Lo: l, Hi: h}
		}
		return Alt{Comps: []Comparator{{Op: lops[r.Intn(len(lops))], P: l}, {Op: hops[r.Intn(len(hops))], P: h}}}
	}
	a1 := mk(lo, mid, []string{">=", ">", ">="}, []string{"<", "<=", "<"})
	a2 := mk(mid2, hi, []string{">=", ">", ">="}, []string{"<", "<=", "<"})
	if r.Intn(5) == 0 { // open-ended second alternative
		a2 = Alt{Comps: []Comparator{{Op: pickS(r, ">=", ">"), P: mid2}}}
	}
	alts := []Alt{a1, a2}
	if r.Intn(2) == 0 {
		alts[0], alts[1] = alts[1], alts[0]
	}
	if r.Intn(4) == 0 {
		alts = append(alts, Alt{Comps: genComparators(r, npmOps, true)})
	}
	for i := range alts {
		alts[i].OrSt = r.Intn(4)
	}
	return Range{Alts: alts}
}

func genNpmRange(r *rand.Rand) Range {
	if r.Intn(10) == 0 {
		return genAbutting(r)
	}
	n := 1
	switch r.Intn(10) {
	case 0, 1, 2:
		n = 2
	case 3:
		n = 3
	}
	var rg Range
	for i := 0; i < n; i++ {
		a := Alt{OrSt: r.Intn(4)}
		if r.Intn(8) == 0 {
			a.Hyphen = true
			a.Lo, a.Hi = genPartial(r, true), genPartial(r, true)
			if r.Intn(4) == 0 {
				a.Hi = relatedPartial(r, a.Lo)
			}
			if r.Intn(2) == 0 && cmpPartialBase(a.Hi, a.Lo) < 0 {
				a.Lo, a.Hi = a.Hi, a.Lo
			}
		} else {
			a.Comps = genComparators(r, npmOps, true)
		}
		// alternatives that share an end point with an earlier alternative (identical operand,
		// prerelease tag included, or a related one): abutting and overlapping `||` spans are
		// what canon's merge rules are about
		if i > 0 && r.Intn(2) == 0 {
			prev := rg.Alts[r.Intn(len(rg.Alts))]
			var ops []Partial
			if prev.Hyphen {
				ops = []Partial{prev.Lo, prev.Hi}
			} else {
				for _, c := range prev.Comps {
					ops = append(ops, c.P)
				}
			}
			if len(ops) > 0 {
				q := ops[r.Intn(len(ops))]
				if r.Intn(3) == 0 {
					q = relatedPartial(r, q)
				}
				if a.Hyphen {
					a.Lo = q
				} else if len(a.Comps) > 0 {
					a.Comps[r.Intn(len(a.Comps))].P = q
				}
			}
		}
		rg.Alts = append(rg.Alts, a)
	}
	return rg
}

func cmpPartialBase(a, b Partial) int {
	for i := 0; i < 3; i++ {
		if c := cmp64(num(a, i), num(b, i)); c != 0 {
			return c
		}
	}
	return 0
}

func genCargoReq(r *rand.Rand) Range {
	return Range{Alts: []Alt{{Comps: genComparators(r, cargoOps, false)}}}
}

// semverCandidates: every bound of the range, one step around it, prerelease
// variants, plus pool versions.
func semverCandidates(r *rand.Rand, rg Range, max int) []SemVer {
	seen := map[string]bool{}
	var out []SemVer
	add := func(v SemVer) {
		if v.Major < 0 || v.Minor < 0 || v.Patch < 0 {
			return
		}
		k := v.Render()
		if !seen[k] {
			seen[k] = true
			out = append(out, v)
		}
	}
	pres := [][]Ident{nil, zeroPre, {{S: "a"}}}
	around := func(p Partial) {
		M, m, pt := num(p, 0), num(p, 1), num(p, 2)
		bases := [][3]int64{{M, m, pt}, {M, m, pt + 1}, {M, m, pt - 1}, {M, m + 1, 0}, {M + 1, 0, 0}, {M, m - 1, 9}, {M - 1, 9, 9}, {M, m, 0}, {M, 0, 0}}
		for bi, b := range bases {
			for _, pr := range pres {
				if bi > 4 && pr != nil && r.Intn(3) != 0 {
					continue
				}
				add(sv(b[0], b[1], b[2], pr))
			}
		}
		if len(p.Pre) > 0 {
			add(sv(M, m, pt, p.Pre))
			add(sv(M, m, pt, append(append([]Ident{}, p.Pre...), Ident{Num: true, N: 0})))
			add(sv(M, m, pt+1, p.Pre))
			add(sv(M, m, pt, []Ident{{S: "zz"}}))
			last := p.Pre[len(p.Pre)-1]
			if last.Num && last.N > 0 {
				q := append([]Ident{}, p.Pre...)
				q[len(q)-1] = Ident{Num: true, N: last.N - 1}
				add(sv(M, m, pt, q))
			}
		}
	}
	for _, a := range rg.Alts {
		if a.Hyphen {
			around(a.Lo)
			around(a.Hi)
		}
		for _, c := range a.Comps {
			around(c.P)
		}
	}
	r.Shuffle(len(out), func(i, j int) { out[i], out[j] = out[j], out[i] })
	if len(out) > max-6 {
		out = out[:max-6]
	}
	for i := 0; i < 6; i++ {
		v := sv(int64(r.Intn(4)), int64(r.Intn(4)), int64(r.Intn(4)), nil)
		if r.Intn(3) == 0 {
			v.Pre = genPre(r)
		}
		if r.Intn(10) == 0 {
			v.Build = "b7"
		}
		add(v)
	}
	return out
}

// ---------------------------------------------------------------- PyPI

var pepOps = []string{"==", "!=", "<=", ">=", "<", ">", "~=", "=="}

func genPepVer(r *rand.Rand) PepVer {
	v := PepVer{Post: -1, Dev: -1}
	k := 1 + r.Intn(3)
	if r.Intn(8) == 0 {
		k = 4
	}
	for i := 0; i < k; i++ {
		n := int64(r.Intn(4))
		if r.Intn(20) == 0 {
			n = 10
		}
		v.Rel = append(v.Rel, n)
	}
	return v
}

func genPepSpec(r *rand.Rand) PepSpec {
	n := 1 + r.Intn(3)
	if r.Intn(2) == 0 {
		n = 1
	}
	var s PepSpec
	for i := 0; i < n; i++ {
		c := PepClause{Op: pepOps[r.Intn(len(pepOps))], V: genPepVer(r)}
		if (c.Op == "==" || c.Op == "!=") && r.Intn(3) == 0 {
			c.Star = true
		} else if r.Intn(6) == 0 {
			switch r.Intn(7) {
			case 0:
				c.V.PreKind, c.V.PreN = "a", 1
			case 1:
				c.V.PreKind, c.V.PreN = "b", 2
			case 2:
				c.V.PreKind, c.V.PreN = "rc", 1
			case 3:
				c.V.Post = 1
			case 4:
				c.V.Dev = 1
			case 5:
				c.V.PreKind, c.V.PreN, c.V.Dev = "a", 0, 2
			case 6:
				c.V.Post, c.V.Dev = 0, 1
			}
		}
		if c.Op == "~=" && len(c.V.Rel) < 2 && r.Intn(8) != 0 {
			c.V.Rel = append(c.V.Rel, int64(r.Intn(4)))
		}
		if r.Intn(6) == 0 {
			c.OpSp = 1 + r.Intn(2)
		}
		if r.Intn(4) == 0 {
			c.SepSt = 1 + r.Intn(2)
		}
		s.Clauses = append(s.Clauses, c)
	}
	return s
}

func relKey(rel []int64) string { return PepVer{Rel: rel, Post: -1, Dev: -1}.Render() }

func allZero(rel []int64) bool {
	for _, n := range rel {
		if n != 0 {
			return false
		}
	}
	return true
}

// pepCandidates: final releases with a non-zero release segment around every clause version.
func pepCandidates(r *rand.Rand, s PepSpec, max int) [][]int64 {
	seen := map[string]bool{}
	var out [][]int64
	add := func(rel []int64) {
		for _, n := range rel {
			if n < 0 {
				return
			}
		}
		if len(rel) == 0 || allZero(rel) {
			return
		}
		k := relKey(rel)
		if !seen[k] {
			seen[k] = true
			out = append(out, append([]int64{}, rel...))
		}
	}
	for _, c := range s.Clauses {
		rel := c.V.Rel
		add(rel)
		add(append(append([]int64{}, rel...), 0))
		add(append(append([]int64{}, rel...), 1))
		add(append(append([]int64{}, rel...), 0, 0, 1))
		for i := range rel {
			up := append([]int64{}, rel[:i+1]...)
			up[i]++
			add(up)
			dn := append([]int64{}, rel[:i+1]...)
			dn[i]--
			add(dn)
			add(append(dn, 9))
			add(rel[:i+1])
		}
		// trimmed of trailing zeros
		t := rel
		for len(t) > 1 && t[len(t)-1] == 0 {
			t = t[:len(t)-1]
		}
		add(t)
	}
	r.Shuffle(len(out), func(i, j int) { out[i], out[j] = out[j], out[i] })
	if len(out) > max-5 {
		out = out[:max-5]
	}
	for i := 0; i < 5; i++ {
		k := 1 + r.Intn(4)
		var rel []int64
		for j := 0; j < k; j++ {
			rel = append(rel, int64(r.Intn(4)))
		}
		add(rel)
	}
	return out
}

// ---------------------------------------------------------------- Maven

var mvnQuals = []string{"alpha", "beta", "milestone", "rc", "snapshot", "sp"}

func genMvnVer(r *rand.Rand) MvnVer {
	var v MvnVer
	k := 1 + r.Intn(3)
	if r.Intn(10) == 0 {
		k = 4
	}
	for i := 0; i < k; i++ {
		v.Nums = append(v.Nums, int64(r.Intn(4)))
	}
	if r.Intn(4) == 0 {
		v.Qual = mvnQuals[r.Intn(len(mvnQuals))]
		if v.Qual != "snapshot" && r.Intn(2) == 0 {
			v.QN = int64(1 + r.Intn(3))
		}
	}
	return v
}

func genMvnRange(r *rand.Rand) MvnRange {
	if r.Intn(7) == 0 {
		return MvnRange{Items: []MvnItem{{Kind: 'S', V: genMvnVer(r)}}}
	}
	n := 1
	switch r.Intn(6) {
	case 0, 1:
		n = 2
	case 2:
		n = 3
	}
	// bounds: 2n versions, sorted most of the time so that the spec is valid
	var vs []MvnVer
	for i := 0; i < 2*n; i++ {
		vs = append(vs, genMvnVer(r))
	}
	if r.Intn(8) != 0 {
		sort.SliceStable(vs, func(i, j int) bool { return cmpMvn(vs[i], vs[j]) < 0 })
	}
	var rg MvnRange
	for i := 0; i < n; i++ {
		lo, hi := vs[2*i], vs[2*i+1]
		it := MvnItem{Kind: 'R', HasLo: true, HasHi: true, Lo: lo, Hi: hi, LoInc: r.Intn(2) == 0, HiInc: r.Intn(2) == 0, Sp: 0}
		if r.Intn(8) == 0 {
			it.Sp = 1
		}
		switch {
		case r.Intn(6) == 0:
			it = MvnItem{Kind: 'E', V: lo, Sp: it.Sp}
		case i == 0 && r.Intn(4) == 0:
			it.HasLo = false
			it.LoInc = r.Intn(4) == 0
		case i == n-1 && r.Intn(4) == 0:
			it.HasHi = false
			it.HiInc = r.Intn(4) == 0
		case r.Intn(12) == 0:
			it.Hi = it.Lo // equal bounds
		}
		rg.Items = append(rg.Items, it)
	}
	if r.Intn(25) == 0 {
		rg.Items = append(rg.Items, MvnItem{Kind: 'S', V: genMvnVer(r)})
	}
	return rg
}

func mvnCandidates(r *rand.Rand, rg MvnRange, max int) []MvnVer {
	seen := map[string]bool{}
	var out []MvnVer
	add := func(v MvnVer) {
		for _, n := range v.Nums {
			if n < 0 {
				return
			}
		}
		k := v.Render()
		if !seen[k] {
			seen[k] = true
			out = append(out, v)
		}
	}
	around := func(v MvnVer) {
		add(v)
		add(MvnVer{Nums: v.Nums})
		for _, q := range []string{"alpha", "rc", "snapshot", "sp"} {
			add(MvnVer{Nums: v.Nums, Qual: q})
		}
		if v.Qual != "" {
			add(MvnVer{Nums: v.Nums, Qual: v.Qual, QN: v.QN + 1})
			if v.QN > 0 {
				add(MvnVer{Nums: v.Nums, Qual: v.Qual, QN: v.QN - 1})
			}
		}
		n := len(v.Nums)
		up := append([]int64{}, v.Nums...)
		up[n-1]++
		add(MvnVer{Nums: up})
		dn := append([]int64{}, v.Nums...)
		dn[n-1]--
		add(MvnVer{Nums: dn})
		add(MvnVer{Nums: append(dn, 9)})
		add(MvnVer{Nums: append(append([]int64{}, v.Nums...), 0)})
		add(MvnVer{Nums: append(append([]int64{}, v.Nums...), 1)})
	}
	for _, it := range rg.Items {
		switch it.Kind {
		case 'S', 'E':
			around(it.V)
		case 'R':
			if it.HasLo {
				around(it.Lo)
			}
			if it.HasHi {
				around(it.Hi)
			}
		}
	}
	r.Shuffle(len(out), func(i, j int) { out[i], out[j] = out[j], out[i] })
	if len(out) > max-5 {
		out = out[:max-5]
	}
	for i := 0; i < 4; i++ {
		add(genMvnVer(r))
	}
	add(MvnVer{Nums: []int64{0}, Qual: pickS(r, "alpha", "rc", "snapshot"), QN: int64(r.Intn(2))})
	return out
}
