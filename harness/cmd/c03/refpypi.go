package main

// Reference semantics of PEP 440 specifier sets (packaging.specifiers) for
// final-release candidates, and of Maven version ranges
// (org.apache.maven.artifact.versioning.VersionRange / Restriction /
// ComparableVersion restricted to the AST's version shapes).
// Lean counterparts: DepsDev/Ref/{Pep440Spec,MavenRange}.lean.

// cmpRelease compares release tuples with zero padding.
func cmpRelease(a, b []int64) int {
	n := len(a)
	if len(b) > n {
		n = len(b)
	}
	at := func(x []int64, i int) int64 {
		if i < len(x) {
			return x[i]
		}
		return 0
	}
	for i := 0; i < n; i++ {
		if c := cmp64(at(a, i), at(b, i)); c != 0 {
			return c
		}
	}
	return 0
}

// cmpFinalPep compares a final release `cand` with a specifier version v
// (packaging.version._cmpkey without epoch/local): equal release segments are
// ordered by v's suffix: a pre-release or a bare dev release is below the final
// release, a post release above it.
func cmpFinalPep(cand []int64, v PepVer) int {
	if c := cmpRelease(cand, v.Rel); c != 0 {
		return c
	}
	switch {
	case v.PreKind != "":
		return 1
	case v.Post >= 0:
		return -1
	case v.Dev >= 0:
		return 1
	}
	return 0
}

// prefixMatch is `== V.*`: the candidate's release, cut to len(V) and zero
// padded to len(V), equals V's release.
func prefixMatch(cand, rel []int64) bool {
	n := len(rel)
	c := cand
	if len(c) > n {
		c = c[:n]
	}
	for i := 0; i < n; i++ {
		var x int64
		if i < len(c) {
			x = c[i]
		}
		if x != rel[i] {
			return false
		}
	}
	return true
}

// PepValid: what packaging accepts: `.*` only after == / != and only after a
// plain release; `~=` needs at least two release segments.
func PepValid(s PepSpec) bool {
	for _, c := range s.Clauses {
		v := c.V
		if len(v.Rel) == 0 {
			return false
		}
		if c.Star && (c.Op != "==" && c.Op != "!=" || v.PreKind != "" || v.Post >= 0 || v.Dev >= 0) {
			return false
		}
		if c.Op == "~=" && len(v.Rel) < 2 {
			return false
		}
	}
	return true
}

func pepClauseContains(c PepClause, cand []int64) bool {
	v := c.V
	switch c.Op {
	case "==":
		if c.Star {
			return prefixMatch(cand, v.Rel)
		}
		return cmpFinalPep(cand, v) == 0
	case "!=":
		if c.Star {
			return !prefixMatch(cand, v.Rel)
		}
		return cmpFinalPep(cand, v) != 0
	case "<=":
		return cmpFinalPep(cand, v) <= 0
	case ">=":
		return cmpFinalPep(cand, v) >= 0
	case "<":
		return cmpFinalPep(cand, v) < 0
	case ">":
		return cmpFinalPep(cand, v) > 0
	case "~=":
		return cmpFinalPep(cand, v) >= 0 && prefixMatch(cand, v.Rel[:len(v.Rel)-1])
	}
	return false
}

// PepContains is SpecifierSet(s).contains(cand) for a final release cand.
func PepContains(s PepSpec, cand []int64) bool {
	for _, c := range s.Clauses {
		if !pepClauseContains(c, cand) {
			return false
		}
	}
	return true
}

// ---------------------------------------------------------------- Maven

// Qualifier ranks of ComparableVersion.StringItem (release = "" is 5).
var mvnQualRank = map[string]int{"alpha": 0, "beta": 1, "milestone": 2, "rc": 3, "snapshot": 4, "": 5, "sp": 6}

// cmpMvn is ComparableVersion.compareTo on the AST's shapes
// (N(.N)* [-qual[-N]]): numbers zero padded, then qualifier rank, then the
// qualifier's number.
func cmpMvn(a, b MvnVer) int {
	if c := cmpRelease(a.Nums, b.Nums); c != 0 {
		return c
	}
	if c := cmp64(int64(mvnQualRank[a.Qual]), int64(mvnQualRank[b.Qual])); c != 0 {
		return c
	}
	return cmp64(a.QN, b.QN)
}

// MvnValid is what VersionRange.createFromVersionSpec accepts: a bare version
// alone, or bracketed items in ascending order without overlap; within an item
// lower <= upper, and equal bounds only when both are inclusive.
func MvnValid(r MvnRange) bool {
	if len(r.Items) == 0 {
		return false
	}
	if r.Items[0].Kind == 'S' {
		return len(r.Items) == 1
	}
	var upper *MvnVer
	for i := range r.Items {
		it := &r.Items[i]
		var lo, hi *MvnVer
		switch it.Kind {
		case 'S':
			return false
		case 'E':
			lo, hi = &it.V, &it.V
		case 'R':
			if it.HasLo {
				lo = &it.Lo
			}
			if it.HasHi {
				hi = &it.Hi
			}
			if lo != nil && hi != nil {
				c := cmpMvn(*hi, *lo)
				if c < 0 || (c == 0 && (!it.LoInc || !it.HiInc)) {
					return false
				}
			}
		}
		if upper != nil {
			if lo == nil || cmpMvn(*lo, *upper) < 0 {
				return false
			}
		}
		upper = hi
	}
	return true
}

// MvnContains is VersionRange.containsVersion.
func MvnContains(r MvnRange, v MvnVer) bool {
	for _, it := range r.Items {
		switch it.Kind {
		case 'S':
			return true // Restriction.EVERYTHING
		case 'E':
			if cmpMvn(it.V, v) == 0 {
				return true
			}
		case 'R':
			ok := true
			if it.HasLo {
				c := cmpMvn(it.Lo, v)
				if c > 0 || (c == 0 && !it.LoInc) {
					ok = false
				}
			}
			if it.HasHi {
				c := cmpMvn(it.Hi, v)
				if c < 0 || (c == 0 && !it.HiInc) {
					ok = false
				}
			}
			if ok {
				return true
			}
		}
	}
	return false
}

// mvnBelowZero: the candidate orders below "0" (all numbers zero and a
// qualifier that precedes the release).
func mvnBelowZero(v MvnVer) bool {
	return cmpMvn(v, MvnVer{Nums: []int64{0}}) < 0
}
