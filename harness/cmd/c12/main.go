// C12: requirement matching over a version list is exact, ordered and order-insensitive.
package main

import (
	"fmt"
	"math/rand"
	"strings"

	"deps.dev/util/resolve"
	"deps.dev/util/semver"

	"verifharness/fw"
	"verifharness/resolveops"
	"verifharness/semvergen"
	"verifharness/semverops"
)

type (
	V = resolveops.V
)

var systems = []resolve.System{resolve.NPM, resolve.Maven, resolve.PyPI}

// ---- op lines -------------------------------------------------------------

func matchLine(sys resolve.System, req string, vs []V) string {
	return fmt.Sprintf("C12 matchreq %s %s %s", resolveops.SysName(sys), fw.Hx(req), resolveops.EncList(sys, resolveops.PName, vs))
}

func classifyLine(sys resolve.System, vs []V) string {
	return fmt.Sprintf("C12 classify %s %s", resolveops.SysName(sys), resolveops.EncList(sys, resolveops.PName, vs))
}

func sortLine(sys resolve.System, vs []V) string {
	return fmt.Sprintf("C12 sortv %s %s", resolveops.SysName(sys), resolveops.EncList(sys, resolveops.PName, vs))
}

type parsed struct {
	op    string
	sys   resolve.System
	req   string
	in    []V
	ok    bool
	out   []V
	plain bool // every input record has the op's system, the default name and type Concrete
}

func parseOp(line, res string) parsed {
	f := strings.Fields(line)
	p := parsed{op: f[1], sys: resolveops.SysByName[f[2]]}
	lst := f[3]
	if p.op == "matchreq" {
		p.req = fw.Unhx(f[3])
		lst = f[4]
	}
	p.in = resolveops.DecList(p.sys, resolveops.PName, lst)
	p.plain = true
	for _, v := range p.in {
		if v.Sys != p.sys || v.Name != resolveops.PName || v.Type != resolve.Concrete {
			p.plain = false
		}
	}
	rf := strings.Fields(res)
	if len(rf) == 2 && rf[0] == "ok" {
		p.ok = true
		p.out = resolveops.DecList(p.sys, resolveops.PName, rf[1])
	}
	return p
}

// ---- oracles (functions of op lines and Go results only) -------------------

func npmCandidate(req string, v V) bool {
	if req == v.Version {
		return true
	}
	for _, t := range strings.Split(v.Tags, ",") {
		if t == req {
			return true
		}
	}
	return false
}

func recheck(oracle string, ops, res []string) (bool, string) {
	switch oracle {
	case "exact":
		// the result holds exactly the records of the list that satisfy the requirement
		p := parseOp(ops[0], res[0])
		if !p.ok {
			return true, "no result: " + res[0]
		}
		ss := resolveops.Semver(p.sys)
		c, err := ss.ParseConstraint(p.req)
		var want []V
		switch {
		case err == nil:
			for _, v := range p.in {
				if c.Match(v.Version) {
					want = append(want, v)
				}
			}
		case p.sys == resolve.NPM:
			// not a range: the version whose string or tag equals the requirement
			var cand []V
			for _, v := range p.in {
				if npmCandidate(p.req, v) {
					cand = append(cand, v)
				}
			}
			if len(cand) == 0 {
				if len(p.out) != 0 {
					return true, fmt.Sprintf("nothing equals %q but %d selected", p.req, len(p.out))
				}
				return false, ""
			}
			if len(p.out) != 1 || !npmCandidate(p.req, p.out[0]) {
				return true, fmt.Sprintf("requirement %q is not a range: expected one version whose string or tag equals it, got %d", p.req, len(p.out))
			}
			found := false
			for _, v := range p.in {
				if resolveops.EncV(p.sys, resolveops.PName, v) == resolveops.EncV(p.sys, resolveops.PName, p.out[0]) {
					found = true
				}
			}
			if !found {
				return true, "selected record is not in the list"
			}
			// several candidates: the first in ecosystem order
			if len(cand) > 1 && resolveops.Distinct(resolveops.Strings(p.in)) {
				for _, v := range resolveops.RefArrange(p.sys, p.in) {
					if npmCandidate(p.req, v) {
						if v.Version != p.out[0].Version {
							return true, fmt.Sprintf("several versions equal %q: expected the first in order (%s), got %s", p.req, v.Version, p.out[0].Version)
						}
						break
					}
				}
			}
			return false, ""
		default:
			for _, v := range p.in {
				if v.Version == p.req {
					want = append(want, v)
				}
			}
		}
		if !resolveops.SameMultiset(p.sys, resolveops.PName, want, p.out) {
			return true, fmt.Sprintf("requirement %q: %d records satisfy it, result has %d (or different records)", p.req, len(want), len(p.out))
		}
	case "order":
		p := parseOp(ops[0], res[0])
		if !p.ok {
			return true, "no result: " + res[0]
		}
		if p.op == "sortv" && !resolveops.SameMultiset(p.sys, resolveops.PName, p.in, p.out) {
			return true, "SortVersions changed the records"
		}
		if p.op == "matchreq" && p.sys == resolve.NPM {
			if _, err := semver.NPM.ParseConstraint(p.req); err != nil {
				return false, "" // single selection: nothing to order
			}
		}
		return resolveops.CheckOrder(p.sys, p.in, p.out)
	case "perm":
		for i := 1; i < len(res); i++ {
			if res[i] != res[0] {
				return true, fmt.Sprintf("result depends on the order of the list: %s vs %s", res[0], res[i])
			}
		}
	default:
		return true, "unknown oracle"
	}
	return false, ""
}

// classify: negation of the hypothesis of the partial theorems in Props/C12.lean.
//
//	F-C12-mvn-intrans   ¬CmpLawful: the ecosystem comparison is not a total order on the
//	                     list's versions (Maven only; C01 finding F-C01-mvn-zeroq).
//
// (F-C12-latest-substr is fixed: nothing is tolerated on npm lists any more; tags that merely
// contain "latest" - notlatest, latest-2 - are regression inputs of the oracles order/exact.)
func classify(oracle string, ops, res []string) string {
	p := parseOp(ops[0], res[0])
	if !p.plain {
		return ""
	}
	if p.sys == resolve.Maven && (oracle == "order" || oracle == "perm") && !resolveops.Lawful(semver.Maven, resolveops.Strings(p.in)) {
		return "F-C12-mvn-intrans"
	}
	return ""
}

// ---- generators -----------------------------------------------------------

var pools = map[resolve.System][]string{
	resolve.NPM:   {"1.0.0", "v1.0.0", "1.0.0+b", "1.0.0-rc.1", "1.0.0-rc.01", "2.0.0-beta.1", "2.0.0", "1.2.0", "1.2", "1", "0.0.1", "3.0.0-alpha", "banana", "", "latest", "1.0.00", "1.10.0", "1.9.0", "=1.0.0", "1.0.0-0", "1.x"},
	resolve.Maven: {"1.0", "1.0.0", "1", "1.0-ga", "1.0.0-final", "1.0-alpha", "1.0-a1", "1.0-alpha-1", "1-SNAPSHOT", "1.0-SNAPSHOT", "2.0", "3.0", "1.1", "1.0.1", "1.0-rc1", "1.0-sp", "1.0-foo", "2.0-beta", "10.0", "1.10"},
	resolve.PyPI:  {"1.0", "1.0.0", "1", "1.0.post1", "1.0a1", "1.0.dev1", "2.0", "1.0+local", "v1.0", "1.0rc1", "1.0.0.0", "banana", "", "1.1", "0.9", "2.0.dev0", "1!0.5", "1.0-1", "1.0.post0"},
}

// the intransitive Maven shapes of F-C01-mvn-zeroq (a zero component followed by a dot-separated qualifier)
var zeroqPool = []string{"4.1", "4.1-jre", "4.1.0.Beta1", "1.0", "1.0-jre", "1.0.0.RC1", "2.0.0.x", "2", "2-a", "4.1.0", "4.1-android", "4.1.0.Final"}

func genVersionString(r *rand.Rand, sys resolve.System) string {
	ss := resolveops.Semver(sys)
	for {
		var s string
		if r.Intn(10) < 6 {
			s = semverops.Pick(r, pools[sys]...)
		} else {
			s = semverops.GenVersion(r, ss)
		}
		if semverops.InModelDomain(ss, s) {
			return s
		}
	}
}

func genList(r *rand.Rand, sys resolve.System, n int, gen func() string) []V {
	seen := map[string]bool{}
	var vs []V
	for tries := 0; len(vs) < n && tries < 20*n+20; tries++ {
		s := gen()
		if seen[s] {
			continue
		}
		seen[s] = true
		vs = append(vs, V{Sys: sys, Name: resolveops.PName, Type: resolve.Concrete, Version: s})
	}
	decorate(r, vs)
	return vs
}

// decorate assigns tags and flags: "latest" on any one version (alone, first, last, in the
// middle of a tag list, after an empty tag), other dist-tags, a second "latest", substring
// look-alikes of "latest" (regression inputs of the fixed finding F-C12-latest-substr: they
// are not the tag latest), deprecated/error/deleted flags.
func decorate(r *rand.Rand, vs []V) {
	if len(vs) == 0 {
		return
	}
	for i := range vs {
		if r.Intn(7) == 0 {
			vs[i].HasTags, vs[i].Tags = true, semverops.Pick(r, "next", "beta", "rc,next", "", "canary", "next,beta")
		}
		vs[i].Blocked = r.Intn(10) == 0
		vs[i].Error = r.Intn(20) == 0
		vs[i].Deleted = r.Intn(30) == 0
	}
	if r.Intn(2) == 0 {
		i := r.Intn(len(vs))
		vs[i].HasTags, vs[i].Tags = true, semverops.Pick(r, "latest", "latest", "latest,next", "next,latest", "beta,latest,next", ",latest", "latest,")
	}
	if r.Intn(12) == 0 {
		i := r.Intn(len(vs))
		vs[i].HasTags, vs[i].Tags = true, "latest"
	}
	if r.Intn(8) == 0 {
		i := r.Intn(len(vs))
		vs[i].HasTags, vs[i].Tags = true, semverops.Pick(r, "notlatest", "latest-2", "prelatest,next", "oldlatest", "next,latestx", "latestx", "Latest", "latest ")
	}
}

func genReq(r *rand.Rand, sys resolve.System, vs []V) string {
	ss := resolveops.Semver(sys)
	some := func() string {
		if len(vs) == 0 {
			return "1.0.0"
		}
		return vs[r.Intn(len(vs))].Version
	}
	for {
		var s string
		k := r.Intn(100)
		switch sys {
		case resolve.NPM:
			switch {
			case k < 30:
				s = semverops.GenConstraint(r, ss)
			case k < 52:
				s = semverops.Pick(r, "", "^", "~", ">=", "<=", "<", ">", "=", ">= ", "^ ") + some()
			case k < 67:
				s = semverops.Pick(r, "latest", "next", "beta", "canary", "notlatest", "rc", "latest-2", "nope")
			case k < 77:
				s = some()
			case k < 90:
				s = semverops.Pick(r, "*", "", "x", "1.x", ">=0.0.0-0", "banana", "1", ">=1.0.0-0 <3", "1.0.0 - 2.0.0", "<2 || >=3.0.0-0", " ", "^1.0.0-rc")
			default:
				s = semverops.TokenSoup(r, 5)
			}
		case resolve.Maven:
			switch {
			case k < 35:
				s = semverops.GenConstraint(r, ss)
			case k < 65:
				v := some()
				s = semverops.Pick(r, "["+v+",)", "(,"+v+"]", "["+v+"]", v, "("+v+",)", "(,"+v+")", "[1.0,"+v+"]")
			case k < 75:
				s = some()
			case k < 90:
				s = semverops.Pick(r, "[0,)", "(,)", "[1.0,2.0)", "1.0", "[1,2],[3,4]", "(,1.0],[2.0,)", "", "banana", "[1.0")
			default:
				s = semverops.TokenSoup(r, 5)
			}
		default:
			switch {
			case k < 35:
				s = semverops.GenConstraint(r, ss)
			case k < 65:
				s = semverops.Pick(r, ">=", "==", "<", "~=", "!=", "<=", ">", "=== ", "") + some()
			case k < 75:
				s = some()
			case k < 90:
				s = semverops.Pick(r, "", ">=0", "==1.*", ">=1.0,<2", "!=1.0", ">=1.0a1", "banana", "==1.0.*", "~=1.0", "<1.0.post1")
			default:
				s = semverops.TokenSoup(r, 5)
			}
		}
		if semverops.InModelDomain(ss, s) {
			return s
		}
	}
}

func shuffled(r *rand.Rand, vs []V) []V {
	p := append([]V(nil), vs...)
	r.Shuffle(len(p), func(i, j int) { p[i], p[j] = p[j], p[i] })
	return p
}

// one list + one requirement: base op, permutations, sortv, all oracles.
func caseOf(c *fw.Ctx, sys resolve.System, vs []V, req string, perms int) {
	i0, r0 := c.Op(matchLine(sys, req, vs))
	c.Check("exact", i0)
	c.Check("order", i0)
	idx := []int{i0}
	for k := 0; k < perms; k++ {
		i, _ := c.Op(matchLine(sys, req, shuffled(c.Rng, vs)))
		idx = append(idx, i)
	}
	c.Check("perm", idx...)
	is, _ := c.Op(sortLine(sys, vs))
	c.Check("order", is)
	sidx := []int{is}
	for k := 0; k < 2; k++ {
		i, _ := c.Op(sortLine(sys, shuffled(c.Rng, vs)))
		sidx = append(sidx, i)
	}
	c.Check("perm", sidx...)
	c.Op(classifyLine(sys, vs)) // ties the classifiers to the Lean hypotheses

	// distribution
	name := resolveops.SysName(sys)
	p := parseOp(matchLine(sys, req, vs), r0)
	_, err := resolveops.Semver(sys).ParseConstraint(req)
	kind := "range"
	if err != nil {
		kind = "nonrange"
	}
	c.Count(name + ":req:" + kind)
	switch {
	case !p.ok:
		c.Count(name + ":result:" + strings.Fields(r0)[0])
	case len(p.out) == 0:
		c.Count(name + ":result:none")
	case len(p.out) == len(vs):
		c.Count(name + ":result:all")
	default:
		c.Count(name + ":result:some")
		c.Nontrivial(matchLine(sys, req, resolveops.RefArrange(sys, vs)))
	}
	unp, pre, lat := 0, 0, 0
	for _, v := range vs {
		pv, e := resolveops.Semver(sys).Parse(v.Version)
		if e != nil {
			unp++
		} else if pv.IsPrerelease() {
			pre++
		}
		if resolveops.ExactLatest(v.Tags) {
			lat++
		}
	}
	if unp > 0 {
		c.Count(name + ":list:has-unparsable")
	}
	if pre > 0 {
		c.Count(name + ":list:has-prerelease")
	}
	if lat > 0 {
		c.Count(name + ":list:has-latest")
	}
	if resolveops.LatestLookalike(vs) {
		c.Count(name + ":list:latest-lookalike")
		if lat > 0 {
			c.Count(name + ":list:latest-and-lookalike")
		}
	}
	if !resolveops.Lawful(resolveops.Semver(sys), resolveops.Strings(vs)) {
		c.Count(name + ":list:unlawful-order")
	}
	c.Count(fmt.Sprintf("%s:len:%02d", name, min(len(vs), 13)))
}

func listLen(r *rand.Rand) int {
	switch k := r.Intn(100); {
	case k < 2:
		return 0
	case k < 7:
		return 1
	case k < 82:
		return 2 + r.Intn(7)
	case k < 94:
		return 9 + r.Intn(4)
	default:
		return 13 + r.Intn(12)
	}
}

func run(c *fw.Ctx) {
	r := c.Rng
	// 1. small-scope exhaustive (NPM): every ordered list of ≤ 3 of six versions, the
	// tag "latest" on each position or nowhere, four requirements.
	alpha := []string{"1.0.0", "v1.0.0", "2.0.0-a", "2.0.0", "banana", "1.5.0-b"}
	reqs := []string{"*", "latest", ">=1.0.0-0", "banana"}
	var rec func(cur []int)
	rec = func(cur []int) {
		if len(cur) > 0 {
			for lat := -1; lat < len(cur); lat++ {
				vs := make([]V, len(cur))
				for i, a := range cur {
					vs[i] = V{Sys: resolve.NPM, Name: resolveops.PName, Type: resolve.Concrete, Version: alpha[a]}
					if i == lat {
						vs[i].HasTags, vs[i].Tags = true, "latest"
					}
				}
				for _, q := range reqs {
					i, _ := c.Op(matchLine(resolve.NPM, q, vs))
					c.Check("exact", i)
					c.Check("order", i)
					// the sorted arrangement of the same records is the canonical representative
					j, _ := c.Op(matchLine(resolve.NPM, q, resolveops.RefArrange(resolve.NPM, vs)))
					c.Check("perm", j, i)
				}
				c.Count("NPM:exhaustive")
			}
		}
		if len(cur) == 3 {
			return
		}
		for a := range alpha {
			used := false
			for _, b := range cur {
				used = used || a == b
			}
			if !used {
				rec(append(append([]int(nil), cur...), a))
			}
		}
	}
	rec(nil)

	// 2. random lists of distinct version strings
	n := c.N(2200, 60000)
	for _, sys := range systems {
		for it := 0; it < n; it++ {
			k := listLen(r)
			vs := genList(r, sys, k, func() string { return genVersionString(r, sys) })
			if len(vs) > 12 && !resolveops.Lawful(resolveops.Semver(sys), resolveops.Strings(vs)) {
				vs = vs[:12] // sort.Slice is only modelled as insertion sort up to 12 elements
			}
			req := genReq(r, sys, vs)
			caseOf(c, sys, vs, req, 5)
			if it < 2 {
				c.Sample(fmt.Sprintf("%s req=%q list=%q", resolveops.SysName(sys), req, resolveops.Strings(vs)))
			}
		}
	}

	// 3. Maven lists seeded with the intransitive shapes (known finding class), ≤ 8 elements
	for it := 0; it < c.N(400, 6000); it++ {
		vs := genList(r, resolve.Maven, 3+r.Intn(6), func() string {
			if r.Intn(3) > 0 {
				return semverops.Pick(r, zeroqPool...)
			}
			return genVersionString(r, resolve.Maven)
		})
		caseOf(c, resolve.Maven, vs, semverops.Pick(r, "[0,)", "(,)", "[1.0,)", "(,4.1]", "[4.1,)"), 5)
	}

	// 4. correspondence only: duplicate version strings, records of other systems /
	// names / types inside one list, an unknown system (≤ 10 elements: stable insertion sort)
	for it := 0; it < c.N(1000, 12000); it++ {
		sys := []resolve.System{resolve.NPM, resolve.Maven, resolve.PyPI, resolve.UnknownSystem}[r.Intn(4)]
		gsys := sys
		if sys == resolve.UnknownSystem {
			gsys = resolve.NPM
		}
		var vs []V
		for k := 1 + r.Intn(8); k > 0; k-- {
			v := V{Sys: sys, Name: resolveops.PName, Type: resolve.Concrete, Version: semverops.Pick(r, pools[gsys][:8]...)}
			switch r.Intn(8) {
			case 0:
				v.Sys = []resolve.System{resolve.NPM, resolve.Maven, resolve.PyPI, resolve.UnknownSystem}[r.Intn(4)]
			case 1:
				v.Name = semverops.Pick(r, "q", "", "P")
			case 2:
				v.Type = []resolve.VersionType{resolve.Requirement, resolve.UnknownVersionType}[r.Intn(2)]
			}
			vs = append(vs, v)
		}
		decorate(r, vs)
		c.Op(matchLine(sys, genReq(r, gsys, vs), vs))
		c.Op(sortLine(sys, vs))
		c.Count("mixed:" + resolveops.SysName(sys))
	}
}

func exec(f []string) string { return resolveops.ExecC12(f) }

func main() {
	fw.Main(&fw.Prop{
		ID: "C12",
		Rule: "per system (NPM, Maven, PyPI): lists of 0..24 records with pairwise distinct version strings drawn from a collision-rich pool (equal-comparing spellings 1.0/1.0.0/v1.0.0/+build, prereleases, unparsable strings) and the semver generators; tags: latest on any one version (alone or inside a comma-separated list, also next to an empty tag), other dist-tags, a second latest, substring look-alikes that are NOT the tag latest (notlatest, latest-2, latestx: regression inputs of the fixed finding F-C12-latest-substr, nothing tolerated); deprecated/error/deleted flags; requirements from the constraint grammar, derived from list members (op+version), dist-tag names, exact strings, malformed; each case = base order + 5 permutations + SortVersions (+2 permutations); oracles exact (independent filter through util/semver; npm non-range = string/tag selection, first in order), order (ascending, npm latest last unless prerelease while releases exist), perm (identical results). Plus: exhaustive NPM lists of ≤3 of 6 versions × latest position × 4 requirements; Maven lists seeded with intransitive shapes; a correspondence-only stream with duplicate strings / mixed systems, names, types. Distinct non-trivial = distinct (system, requirement, record set) whose result is a proper non-empty selection.",
		Exec: exec, Run: run, Recheck: recheck, Classify: classify,
		Gens: semvergen.Generators(),
	})
}
