#!/bin/bash
# MANIFEST.setup_cmd: build the framework from files on disk only (offline).
# Builds every property's harness binary, runs its translator, and lake-builds its Props
# modules and driver. Failures of properties that are not claimed in MANIFEST.json
# (work in progress) are reported but do not fail the setup.
set -u
ROOT="$(cd "$(dirname "$0")" && pwd)"
export GOFLAGS=-mod=mod GOPROXY=off GOSUMDB=off GOTOOLCHAIN=local
cd "$ROOT/harness" || exit 1
mkdir -p bin "$ROOT/work" "$ROOT/lean/DepsDev/Gen"
claimed=$(python3 -c "
import json,sys
m=json.load(open('$ROOT/MANIFEST.json'))
print(' '.join(c['property_id'].lower() for c in m['checks']))")
rc=0
rm -rf "$ROOT/work/setup-gen"; mkdir -p "$ROOT/work/setup-gen"
for d in cmd/*/; do
  n=$(basename "$d")
  must=0; for c in $claimed; do [ "$c" = "$n" ] && must=1; done
  if go build -tags verif -o "bin/$n" "./cmd/$n" && "bin/$n" gen -repo /repo -out "$ROOT/work/setup-gen"; then :; else
    echo "setup: harness $n failed (claimed=$must)"; [ $must = 1 ] && rc=1
  fi
done
for f in "$ROOT"/work/setup-gen/*.lean; do
  [ -e "$f" ] || continue
  t="$ROOT/lean/DepsDev/Gen/$(basename "$f")"
  cmp -s "$f" "$t" || cp "$f" "$t"
done
rm -rf "$ROOT/work/setup-gen"
cd "$ROOT/lean" || exit 1
for c in $claimed; do
  up=$(echo "$c" | tr a-z A-Z)
  mods=$(python3 -c "
import json
m=json.load(open('$ROOT/props/$up.json'))
t=list(m.get('lean_modules',[]))
if m.get('model_driver',True): t.append('driver_$c')
print(' '.join(t))")
  lake build $mods || { echo "setup: lake build for $up failed"; rc=1; }
done
exit $rc
