#!/bin/bash
# MANIFEST.setup_cmd: build the framework from files on disk only (offline).
set -u
export GOFLAGS=-mod=mod GOPROXY=off GOSUMDB=off GOTOOLCHAIN=local
cd /verif/harness || exit 1
mkdir -p bin /verif/work /verif/lean/DepsDev/Gen
rc=0
for d in cmd/*/; do
  n=$(basename "$d")
  go build -tags verif -o "bin/$n" "./cmd/$n" || { echo "setup: go build $n failed"; rc=1; continue; }
  mkdir -p "/verif/work/setup-gen"
  "bin/$n" gen -repo /repo -out /verif/work/setup-gen || { echo "setup: gen $n failed"; rc=1; }
done
if [ -d /verif/work/setup-gen ]; then
  for f in /verif/work/setup-gen/*.lean; do
    [ -e "$f" ] || continue
    t="/verif/lean/DepsDev/Gen/$(basename "$f")"
    cmp -s "$f" "$t" || cp "$f" "$t"
  done
  rm -rf /verif/work/setup-gen
fi
cd /verif/lean || exit 1
targets=$(python3 - <<'PY'
import json,glob,re
t=set()
for f in sorted(glob.glob('/verif/props/C*.json')):
    if f.endswith('.known.json'): continue
    m=json.load(open(f))
    for x in m.get('lean_modules',[]): t.add(x)
for m in re.findall(r'name = "(driver_c\d+)"', open('/verif/lean/lakefile.toml').read()): t.add(m)
print(' '.join(sorted(t)))
PY
)
lake build $targets || rc=1
exit $rc
